"""Generated/HeadingConsts.v for C19: the value of `math.pi` of the interpreter that runs the implementation
(the radian branches of yaw_to_heading / heading_to_yaw use math.pi, math.pi / 2.0 and 2.0 * math.pi; the two
derived constants are recomputed by the model with the same binary64 operations).
Fail closed: raises if the two functions are not module-level functions of defs.py.  The numeric literals
found in them are returned for the evidence notes only: the quarter / half / full turn 90.0 / 180.0 / 360.0 are
part of the property itself, and any change of a constant changes return values, which the bit-exact
correspondence run and the comparison with the exact SPEC observe directly."""
import ast, math, os, sys
sys.path.insert(0, os.path.join(os.path.dirname(__file__), '..', 'lib'))
import vf

SRC = 'python/fusion_engine_client/messages/defs.py'


def generate():
    tree = ast.parse(vf.repo_file(SRC))
    seen = {}
    for name in ('yaw_to_heading', 'heading_to_yaw'):
        fs = [n for n in tree.body if isinstance(n, ast.FunctionDef) and n.name == name]
        if len(fs) != 1:
            raise RuntimeError('gen_c19: module-level function %s not found in %s' % (name, SRC))
        f = fs[0]
        lits = sorted({float(n.value) for n in ast.walk(f) if isinstance(n, ast.Constant)
                       and isinstance(n.value, (int, float)) and not isinstance(n.value, bool)})
        uses_pi = any(isinstance(n, ast.Attribute) and n.attr == 'pi' for n in ast.walk(f))
        seen[name] = {'literals': lits, 'uses_math_pi': uses_pi}
    pi_hex = math.pi.hex()
    text = vf.gen_header([SRC, 'math.pi of the interpreter']) + 'From Coq Require Import PrimFloat.\n'
    text += '(* math.pi = %r *)\nDefinition Heading_pi : float := %s%%float.\n' % (math.pi, pi_hex)
    vf.write_if_changed(os.path.join(vf.THEORIES, 'Generated', 'HeadingConsts.v'), text)
    return {'math.pi': pi_hex, 'functions': seen}


if __name__ == '__main__':
    print(generate())
