"""Generated/FEConsts.v: constants of the FusionEngine wire format shared by C04-C09, C14, C18.

The constants are taken from the working tree by *evaluating* it rather than by matching its text, so that a
harmless rewrite (a constant spelled differently, moved, renamed locals) does not break the tie:
  * Python: the package is imported in a subprocess (vf.IMPL_ENV) and the class / module attributes are read;
  * C++ public constants (MessageHeader::SYNC0/SYNC1/MAX_MESSAGE_SIZE_BYTES): a generated program is compiled
    against the headers and prints them;
  * the CRC polynomial and xor-in/out value, which crc.cc keeps private, are derived from the behaviour of
    CalculateCRC() itself: poly = CRC([0x80]) xor CRC([0x00]) (the table is GF(2)-linear), the xor value is the
    candidate for which the reflected table-driven algorithm reproduces CalculateCRC() on probe buffers with
    several initial values; if no candidate does, the translator fails closed.
The header format string must be the layout Base/FEFormat.v transcribes, else fail closed."""
import hashlib, json, os, random, subprocess, sys
sys.path.insert(0, os.path.join(os.path.dirname(__file__), '..', 'lib'))
import vf

EXPECTED_FORMAT = '<BBHIBBHIII'   # the layout Base/FEFormat.v transcribes

PY_PROBE = r'''
import json, sys
from fusion_engine_client.messages.defs import MessageHeader
from fusion_engine_client.parsers import fast_indexer
def g(o, *names):
    for n in names:
        if hasattr(o, n): return getattr(o, n)
    raise SystemExit('gen_fe: none of %r found on %r' % (names, o))
print(json.dumps({
 'SYNC0': int(MessageHeader.SYNC0), 'SYNC1': int(MessageHeader.SYNC1),
 'FORMAT': g(MessageHeader, '_FORMAT', 'FORMAT'), 'SIZE': int(MessageHeader.calcsize()),
 'MAX_EXPECTED_SIZE_BYTES': int(g(MessageHeader, '_MAX_EXPECTED_SIZE_BYTES', 'MAX_EXPECTED_SIZE_BYTES')),
 'READ_SIZE_BYTES': int(g(fast_indexer, '_READ_SIZE_BYTES', 'READ_SIZE_BYTES')),
 'MAX_FE_MSG_SIZE_BYTES': int(g(fast_indexer, '_MAX_FE_MSG_SIZE_BYTES', 'MAX_FE_MSG_SIZE_BYTES')),
}))
'''

CPP_PROBE = r'''
#include <cstdio>
#include <cstdint>
#include <cstdlib>
#include <cstring>
#include <string>
#include <iostream>
#include "point_one/fusion_engine/messages/crc.h"
#include "point_one/fusion_engine/messages/defs.h"
using namespace point_one::fusion_engine::messages;
int main() {
  printf("C %u %u %llu %zu\n", (unsigned)MessageHeader::SYNC0, (unsigned)MessageHeader::SYNC1,
         (unsigned long long)MessageHeader::MAX_MESSAGE_SIZE_BYTES, sizeof(MessageHeader));
  std::string line;
  while (std::getline(std::cin, line)) {          // "<init> <hex>" -> CalculateCRC(buf, len, init)
    size_t sp = line.find(' ');
    uint32_t init = (uint32_t)strtoul(line.substr(0, sp).c_str(), nullptr, 10);
    std::string h = line.substr(sp + 1);
    if (h == "-") h = "";
    std::string b;
    for (size_t i = 0; i + 1 < h.size(); i += 2) b.push_back((char)strtol(h.substr(i, 2).c_str(), nullptr, 16));
    printf("%u\n", (unsigned)CalculateCRC(b.data(), b.size(), init));
  }
  return 0;
}
'''


# ---- helpers kept for other translators (gen_c08, gen_c09): constant evaluation over the AST -----------------------
import ast, struct

def _eval(node, env):
    """tiny constant-expression evaluator (ints, names already bound, + - * // << | , struct.calcsize)"""
    if isinstance(node, ast.Constant):
        return node.value
    if isinstance(node, ast.Name):
        return env[node.id]
    if isinstance(node, ast.Attribute) and isinstance(node.value, ast.Name):
        return env[node.attr]
    if isinstance(node, ast.BinOp):
        a, b = _eval(node.left, env), _eval(node.right, env)
        ops = {ast.Add: lambda: a + b, ast.Sub: lambda: a - b, ast.Mult: lambda: a * b, ast.FloorDiv: lambda: a // b,
               ast.LShift: lambda: a << b, ast.BitOr: lambda: a | b, ast.Pow: lambda: a ** b}
        return ops[type(node.op)]()
    if isinstance(node, ast.Tuple):
        return tuple(_eval(e, env) for e in node.elts)
    if isinstance(node, ast.Call) and isinstance(node.func, ast.Attribute) and node.func.attr == 'calcsize':
        return struct.calcsize(_eval(node.args[0], env))
    if isinstance(node, ast.Call) and isinstance(node.func, ast.Name) and node.func.id == 'bytes':
        return bytes(_eval(node.args[0], env))
    raise ValueError('gen_fe: cannot evaluate %s' % ast.dump(node))


def class_consts(path, cls, names):
    tree = ast.parse(vf.repo_file(path))
    for n in ast.walk(tree):
        if isinstance(n, ast.ClassDef) and n.name == cls:
            env = {}
            for st in n.body:
                tgt = None
                if isinstance(st, ast.Assign) and len(st.targets) == 1 and isinstance(st.targets[0], ast.Name):
                    tgt, val = st.targets[0].id, st.value
                elif isinstance(st, ast.AnnAssign) and isinstance(st.target, ast.Name) and st.value is not None:
                    tgt, val = st.target.id, st.value
                if tgt:
                    try:
                        env[tgt] = _eval(val, env)
                    except Exception:
                        pass
            missing = [k for k in names if k not in env]
            if missing:
                raise RuntimeError('gen_fe: %s.%s: cannot determine %r' % (path, cls, missing))
            return {k: env[k] for k in names}
    raise RuntimeError('gen_fe: class %s not found in %s' % (cls, path))


def module_consts(path, names):
    tree = ast.parse(vf.repo_file(path))
    env = {}
    for st in tree.body:
        if isinstance(st, ast.Assign) and len(st.targets) == 1 and isinstance(st.targets[0], ast.Name):
            try:
                env[st.targets[0].id] = _eval(st.value, env)
            except Exception:
                pass
    missing = [k for k in names if k not in env]
    if missing:
        raise RuntimeError('gen_fe: %s: cannot determine %r' % (path, missing))
    return {k: env[k] for k in names}


def cint(s):
    return int(s.strip().rstrip('uUlL'), 0)



def crc_ref(poly, x, data, init):
    """reflected table-driven CRC as Base/Crc32.v models it"""
    c = init ^ x
    for b in data:
        c ^= b
        for _ in range(8):
            c = (poly ^ (c >> 1)) if (c & 1) else (c >> 1)
    return c ^ x


def _hash_files(paths):
    h = hashlib.sha1()
    for p in paths:
        h.update(open(p, 'rb').read())
    return h.hexdigest()[:16]


def cpp_constants():
    src = [os.path.join(vf.REPO, 'src/point_one/fusion_engine/messages', f) for f in ('crc.cc', 'crc.h', 'defs.h')]
    src.append(os.path.join(vf.REPO, 'src/point_one/fusion_engine/common/portability.h'))
    d = os.path.join(vf.BUILD, 'gen_fe')
    os.makedirs(d, exist_ok=True)
    key = _hash_files(src + [__file__])
    cache = os.path.join(d, 'cpp_%s.json' % key)
    if os.path.exists(cache):
        return json.load(open(cache))
    cc = os.path.join(d, 'probe_%s.cc' % key)
    exe = os.path.join(d, 'probe_%s' % key)
    open(cc, 'w').write(CPP_PROBE)
    rc, so, se = vf.sh('clang++-14 -std=c++14 -O1 -I%s/src %s %s -o %s' % (vf.REPO, cc, src[0], exe), timeout=300)
    if rc != 0:
        raise RuntimeError('gen_fe: C++ probe does not compile: ' + se[-1500:])
    rng = random.Random(12345)
    probes = [(0, b'\x80'), (0, b'\x00'), (0, b'')]
    for _ in range(120):
        probes.append((rng.choice([0, 1, 0xFFFFFFFF, rng.getrandbits(32)]), bytes(rng.getrandbits(8) for _ in range(rng.choice([0, 1, 2, 3, 7, 16, 33])))))
    rc, so, se = vf.sh([exe], input=''.join('%d %s\n' % (i, b.hex() or '-') for i, b in probes), timeout=120)
    lines = so.split('\n')
    if rc != 0 or not lines[0].startswith('C '):
        raise RuntimeError('gen_fe: C++ probe failed: ' + (so + se)[-500:])
    _, s0, s1, mx, hs = lines[0].split()
    outs = [int(x) for x in lines[1:1 + len(probes)]]
    poly = outs[0] ^ outs[1]
    xs = [x for x in (0xFFFFFFFF, 0, outs[2]) if all(crc_ref(poly, x, b, i) == o for (i, b), o in zip(probes, outs))]
    if not xs:
        raise RuntimeError('gen_fe: CalculateCRC() is not a reflected CRC-32 with equal xor-in/xor-out for polynomial 0x%08x '
                           '(the model in Base/Crc32.v does not apply)' % poly)
    res = {'crc_poly': poly, 'crc_xor': xs[0], 'CPP_SYNC0': int(s0), 'CPP_SYNC1': int(s1),
           'CPP_MAX_MESSAGE_SIZE_BYTES': int(mx), 'CPP_HEADER_SIZE': int(hs)}
    json.dump(res, open(cache, 'w'))
    for f in (cc, exe):
        try: os.remove(f)
        except OSError: pass
    return res


def py_constants():
    rc, so, se = vf.sh([vf.PY, '-c', PY_PROBE], env=vf.IMPL_ENV, timeout=120)
    if rc != 0:
        raise RuntimeError('gen_fe: cannot read the Python constants: ' + (so + se)[-800:])
    return json.loads(so.strip().split('\n')[-1])


def generate():
    py = py_constants()
    if py['FORMAT'] != EXPECTED_FORMAT or py['SIZE'] != 24:
        raise RuntimeError('gen_fe: header format %r/%r is not the layout the model transcribes (%s)' % (py['FORMAT'], py['SIZE'], EXPECTED_FORMAT))
    cpp = cpp_constants()
    vals = {
        'crc_poly': cpp['crc_poly'], 'crc_xor': cpp['crc_xor'],
        'SYNC0': py['SYNC0'], 'SYNC1': py['SYNC1'], 'MAX_EXPECTED_SIZE_BYTES': py['MAX_EXPECTED_SIZE_BYTES'],
        'CPP_SYNC0': cpp['CPP_SYNC0'], 'CPP_SYNC1': cpp['CPP_SYNC1'], 'CPP_MAX_MESSAGE_SIZE_BYTES': cpp['CPP_MAX_MESSAGE_SIZE_BYTES'],
        'READ_SIZE_BYTES': py['READ_SIZE_BYTES'], 'MAX_FE_MSG_SIZE_BYTES': py['MAX_FE_MSG_SIZE_BYTES'],
    }
    t = vf.gen_header(['python/fusion_engine_client/messages/defs.py (imported)', 'python/fusion_engine_client/parsers/fast_indexer.py (imported)',
                       'src/point_one/fusion_engine/messages/defs.h (compiled)', 'src/point_one/fusion_engine/messages/crc.cc (compiled, probed)'])
    t += 'From Coq Require Import NArith.\nOpen Scope N_scope.\n'
    for k, v in vals.items():
        t += 'Definition %s : N := %d.\n' % (k, v)
    t += 'Definition HEADER_SIZE : nat := %d.\n' % py['SIZE']
    vf.write_if_changed(os.path.join(vf.THEORIES, 'Generated', 'FEConsts.v'), t)
    return vals


if __name__ == '__main__':
    print(generate())
