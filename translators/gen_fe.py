"""Generated/FEConsts.v: constants of the FusionEngine wire format shared by C04-C09, C14, C18:
CRC polynomial / xor-in-out (crc.cc), sync bytes, header format and size, size sanity limits
(messages/defs.py, messages/defs.h), indexer block constants (parsers/fast_indexer.py).  Fail closed."""
import ast, os, re, struct, sys
sys.path.insert(0, os.path.join(os.path.dirname(__file__), '..', 'lib'))
import vf

EXPECTED_FORMAT = '<BBHIBBHIII'   # the layout Base/FEFormat.v transcribes


def _eval(node, env):
    """tiny constant-expression evaluator (ints, names already bound, + - * // << | , struct.calcsize)"""
    if isinstance(node, ast.Constant):
        return node.value
    if isinstance(node, ast.Name):
        return env[node.id]
    if isinstance(node, ast.Attribute) and isinstance(node.value, ast.Name):
        return env[node.attr]
    if isinstance(node, ast.BinOp):
        a, b = _eval(node.left, env), _eval(node.right, env)
        ops = {ast.Add: lambda: a + b, ast.Sub: lambda: a - b, ast.Mult: lambda: a * b, ast.FloorDiv: lambda: a // b,
               ast.LShift: lambda: a << b, ast.BitOr: lambda: a | b, ast.Pow: lambda: a ** b}
        return ops[type(node.op)]()
    if isinstance(node, ast.Tuple):
        return tuple(_eval(e, env) for e in node.elts)
    if isinstance(node, ast.Call) and isinstance(node.func, ast.Attribute) and node.func.attr == 'calcsize':
        return struct.calcsize(_eval(node.args[0], env))
    if isinstance(node, ast.Call) and isinstance(node.func, ast.Name) and node.func.id == 'bytes':
        return bytes(_eval(node.args[0], env))
    raise ValueError('gen_fe: cannot evaluate %s' % ast.dump(node))


def class_consts(path, cls, names):
    tree = ast.parse(vf.repo_file(path))
    for n in ast.walk(tree):
        if isinstance(n, ast.ClassDef) and n.name == cls:
            env = {}
            for st in n.body:
                tgt = None
                if isinstance(st, ast.Assign) and len(st.targets) == 1 and isinstance(st.targets[0], ast.Name):
                    tgt, val = st.targets[0].id, st.value
                elif isinstance(st, ast.AnnAssign) and isinstance(st.target, ast.Name) and st.value is not None:
                    tgt, val = st.target.id, st.value
                if tgt:
                    try:
                        env[tgt] = _eval(val, env)
                    except Exception:
                        pass
            missing = [k for k in names if k not in env]
            if missing:
                raise RuntimeError('gen_fe: %s.%s: cannot determine %r' % (path, cls, missing))
            return {k: env[k] for k in names}
    raise RuntimeError('gen_fe: class %s not found in %s' % (cls, path))


def module_consts(path, names):
    tree = ast.parse(vf.repo_file(path))
    env = {}
    for st in tree.body:
        if isinstance(st, ast.Assign) and len(st.targets) == 1 and isinstance(st.targets[0], ast.Name):
            try:
                env[st.targets[0].id] = _eval(st.value, env)
            except Exception:
                pass
    missing = [k for k in names if k not in env]
    if missing:
        raise RuntimeError('gen_fe: %s: cannot determine %r' % (path, missing))
    return {k: env[k] for k in names}


def cint(s):
    return int(s.strip().rstrip('uUlL'), 0)


def generate():
    py = class_consts('python/fusion_engine_client/messages/defs.py', 'MessageHeader',
                      ['SYNC0', 'SYNC1', '_FORMAT', '_SIZE', '_MAX_EXPECTED_SIZE_BYTES'])
    if py['_FORMAT'] != EXPECTED_FORMAT or py['_SIZE'] != 24:
        raise RuntimeError('gen_fe: header format %r/%r is not the layout the model transcribes (%s)' % (py['_FORMAT'], py['_SIZE'], EXPECTED_FORMAT))
    crc = vf.repo_file('src/point_one/fusion_engine/messages/crc.cc')
    m = re.search(r'polynomial\s*=\s*(0[xX][0-9a-fA-F]+|\d+)', crc)
    x = re.findall(r'\^\s*(0[xX][0-9a-fA-F]+)\s*;', crc)
    if not m or len(x) != 2 or len(set(x)) != 1:
        raise RuntimeError('gen_fe: crc.cc polynomial / xor constants not recognised (%r, %r)' % (m and m.group(1), x))
    dh = vf.repo_file('src/point_one/fusion_engine/messages/defs.h')
    s0 = re.search(r'SYNC0\s*=\s*(0[xX][0-9a-fA-F]+|\d+)', dh)
    s1 = re.search(r'SYNC1\s*=\s*(0[xX][0-9a-fA-F]+|\d+)', dh)
    mx = re.search(r'MAX_MESSAGE_SIZE_BYTES\s*=\s*\(?\s*1\s*<<\s*(\d+)\s*\)?', dh)
    if not (s0 and s1 and mx):
        raise RuntimeError('gen_fe: defs.h SYNC0/SYNC1/MAX_MESSAGE_SIZE_BYTES not recognised')
    fi = module_consts('python/fusion_engine_client/parsers/fast_indexer.py', ['_READ_SIZE_BYTES', '_MAX_FE_MSG_SIZE_BYTES'])
    vals = {
        'crc_poly': cint(m.group(1)), 'crc_xor': cint(x[0]),
        'SYNC0': py['SYNC0'], 'SYNC1': py['SYNC1'], 'MAX_EXPECTED_SIZE_BYTES': py['_MAX_EXPECTED_SIZE_BYTES'],
        'CPP_SYNC0': cint(s0.group(1)), 'CPP_SYNC1': cint(s1.group(1)), 'CPP_MAX_MESSAGE_SIZE_BYTES': 1 << int(mx.group(1)),
        'READ_SIZE_BYTES': fi['_READ_SIZE_BYTES'], 'MAX_FE_MSG_SIZE_BYTES': fi['_MAX_FE_MSG_SIZE_BYTES'],
    }
    t = vf.gen_header(['python/fusion_engine_client/messages/defs.py', 'src/point_one/fusion_engine/messages/crc.cc',
                       'src/point_one/fusion_engine/messages/defs.h', 'python/fusion_engine_client/parsers/fast_indexer.py'])
    t += 'From Coq Require Import NArith.\nOpen Scope N_scope.\n'
    for k, v in vals.items():
        t += 'Definition %s : N := %d.\n' % (k, v)
    t += 'Definition HEADER_SIZE : nat := %d.\n' % py['_SIZE']
    vf.write_if_changed(os.path.join(vf.THEORIES, 'Generated', 'FEConsts.v'), t)
    return vals


if __name__ == '__main__':
    print(generate())
