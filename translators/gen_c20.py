"""Generated/DataVersionConsts.v from data_version.cc: the numeric base handed to strtol and the two range
limits FromString tests. Fail closed: anything this does not recognise raises."""
import os, re, sys
sys.path.insert(0, os.path.join(os.path.dirname(__file__), '..', 'lib'))
import vf

SRC = 'src/point_one/fusion_engine/messages/data_version.cc'


def lit(s):
    s = s.strip().rstrip('uUlL')
    return int(s, 0)


def generate():
    txt = vf.repo_file(SRC)
    m = re.search(r'DataVersion\s+FromString\s*\(\s*const\s+char\s*\*\s*(\w+)\s*\)\s*\{(.*?)\n\}', txt, re.S)
    if not m:
        raise RuntimeError('gen_c20: FromString(const char*) not found')
    body = m.group(2)
    bases = re.findall(r'strtol\s*\([^;]*?,\s*([0-9a-fA-FxX]+)\s*\)', body)
    if len(bases) != 2 or len(set(bases)) != 1:
        raise RuntimeError('gen_c20: expected two strtol calls with one base, got %r' % bases)
    uppers = re.findall(r'tmp\s*>\s*([0-9a-fA-FxXuUlL]+)', body)
    lowers = re.findall(r'tmp\s*<\s*([0-9a-fA-FxXuUlL]+)', body)
    if len(uppers) != 2 or [lit(x) for x in lowers] != [0, 0]:
        raise RuntimeError('gen_c20: expected tmp > MAX / tmp < 0 tests twice, got %r %r' % (uppers, lowers))
    text = vf.gen_header([SRC]) + 'From Coq Require Import ZArith.\nOpen Scope Z_scope.\n'
    text += 'Definition strtol_base : Z := %d.\nDefinition major_max : Z := %d.\nDefinition minor_max : Z := %d.\n' % (
        lit(bases[0]), lit(uppers[0]), lit(uppers[1]))
    vf.write_if_changed(os.path.join(vf.THEORIES, 'Generated', 'DataVersionConsts.v'), text)
    return {'strtol_base': lit(bases[0]), 'major_max': lit(uppers[0]), 'minor_max': lit(uppers[1])}


if __name__ == '__main__':
    print(generate())
