"""Generated/DataVersionConsts.v: the numeric base and the two range limits of FromString(), derived from the
*behaviour* of the working tree's data_version.cc (compiled into the guard-page harness), not from its text, so a
harmless rewrite (renamed locals, 255 instead of 0xFF, helper functions) does not break the tie:
  strtol_base = value FromString("10.0") gives for the major field;
  major_max / minor_max = the largest accepted field value (binary search, boundary verified: max accepted, max+1 not).
If the behaviour is not of that shape (no accepted value, non-monotone boundary) the translator fails closed."""
import os, sys
sys.path.insert(0, os.path.join(os.path.dirname(__file__), '..', 'lib'))
import vf

SRC = 'src/point_one/fusion_engine/messages/data_version.cc'


def _harness():
    return vf.build_cpp('c20_guard', [os.path.join(vf.VERIF, 'harness/cpp/c20_h.cc'), os.path.join(vf.REPO, SRC)], sanitize=False)


def generate(exe=None):
    exe = exe or _harness()

    def parse(strings):
        rc, out, err = vf.run_lines(exe, ['P ' + s.encode().hex() for s in strings])
        if rc != 0 or len(out) != len(strings):
            raise RuntimeError('gen_c20: harness failed: ' + err[-300:])
        return out

    def largest(fmt, hi):
        ok = lambda v: parse([fmt % v])[0] == ('%d 0' % v if fmt.endswith('.0') else '0 %d' % v)
        if not ok(0):
            raise RuntimeError('gen_c20: "%s" is not accepted' % (fmt % 0))
        lo = 0
        while lo < hi:
            mid = (lo + hi + 1) // 2
            if ok(mid): lo = mid
            else: hi = mid - 1
        if not ok(lo) or ok(lo + 1):
            raise RuntimeError('gen_c20: acceptance boundary of %r is not monotone around %d' % (fmt, lo))
        return lo
    ten = parse(['10.0'])[0]
    if not ten.endswith(' 0') or ten == 'OOB':
        raise RuntimeError('gen_c20: FromString("10.0") = %r' % ten)
    base = int(ten.split()[0])
    major_max = largest('%d.0', 100000)
    minor_max = largest('0.%d', 10000000)
    text = vf.gen_header([SRC + ' (compiled, probed)']) + 'From Coq Require Import ZArith.\nOpen Scope Z_scope.\n'
    text += 'Definition strtol_base : Z := %d.\nDefinition major_max : Z := %d.\nDefinition minor_max : Z := %d.\n' % (base, major_max, minor_max)
    vf.write_if_changed(os.path.join(vf.THEORIES, 'Generated', 'DataVersionConsts.v'), text)
    return {'strtol_base': base, 'major_max': major_max, 'minor_max': minor_max}


if __name__ == '__main__':
    print(generate())
