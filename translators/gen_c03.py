"""C03 tables: Generated/EnumsCpp.v, Generated/EnumsPy.v, Generated/EnumsExc.v.

C++ side
  * NAMES: a brace-tracking tokenizer over every header in src/point_one/fusion_engine/messages/*.h finds every
    `enum class` (with the struct/namespace scope it is nested in) and every struct.  Fail closed: an enumerator
    that is not `NAME [= expr]`, an `enum` that is not `enum class NAME [: type] {`, a preprocessor conditional that
    is not about _MSC_VER, a template, a union ... raise.
  * the tokenizer's enumerator set is cross-checked against clang's own AST (EnumConstantDecl lines of
    `-Xclang -ast-dump`): the two must be the same set, else raise.
  * VALUES: a generated program (every header included) compiled with clang++-14 -std=c++14 prints
    (long long)Enum::NAME for every enumerator, IsCommand(t)/IsResponse(t) for every MessageType enumerator and
    T::MESSAGE_TYPE / T::MESSAGE_VERSION for every struct that has them (decided by the compiler through SFINAE, so
    inherited constants count).  Output cached under build/cache keyed by a hash of all headers + the program.
Python side: harness/py/c03_dump.py run under the implementation interpreter (import + introspection).
Exceptions: harness/c03_exceptions.json (committed; every entry carries a reason).
"""
import glob, hashlib, json, os, re, subprocess, sys
sys.path.insert(0, os.path.join(os.path.dirname(os.path.abspath(__file__)), '..', 'lib'))
import vf

MSG_DIR = 'src/point_one/fusion_engine/messages'
NS = 'point_one::fusion_engine::messages'
CACHE = os.path.join(vf.BUILD, 'cache')
EXC_FILE = os.path.join(vf.VERIF, 'harness', 'c03_exceptions.json')
KNOWN_UNDEFINED = {'_MSC_VER'}      # macros the conditionals in the headers may test; we build with clang/gcc


class Unrecognised(RuntimeError):
    pass


# ------------------------------------------------------------------------------------------------------------
# tokenizer
# ------------------------------------------------------------------------------------------------------------

def strip_comments(text, fname):
    """Remove // and /* */ comments, blank out string/char literals; newlines are kept (line numbers stay)."""
    out, i, n = [], 0, len(text)
    while i < n:
        c = text[i]
        if text.startswith('//', i):
            j = text.find('\n', i)
            j = n if j < 0 else j
            # a line comment ending in a backslash continues: the headers do not do that; fail closed
            if text[i:j].rstrip().endswith('\\'):
                raise Unrecognised('%s: line comment ending in a backslash' % fname)
            i = j
        elif text.startswith('/*', i):
            j = text.find('*/', i + 2)
            if j < 0:
                raise Unrecognised('%s: unterminated comment' % fname)
            out.append('\n' * text.count('\n', i, j + 2) or ' ')
            i = j + 2
        elif c == '"' or c == "'":
            if c == '"' and i > 0 and text[i - 1] == 'R':
                raise Unrecognised('%s: raw string literal' % fname)
            j = i + 1
            while j < n and text[j] != c:
                if text[j] == '\n':
                    raise Unrecognised('%s: newline in literal' % fname)
                j += 2 if text[j] == '\\' else 1
            out.append('""' if c == '"' else "' '")
            i = j + 1
        else:
            out.append(c)
            i += 1
    return ''.join(out)


def eval_cond(expr, fname):
    e = expr.strip()
    m = re.fullmatch(r'(!?)\s*defined\s*\(?\s*(\w+)\s*\)?', e)
    if not m or m.group(2) not in KNOWN_UNDEFINED:
        raise Unrecognised('%s: preprocessor condition %r not understood' % (fname, expr))
    return bool(m.group(1))        # defined(X) is false, !defined(X) is true


def preprocess(text, fname):
    """Evaluate the (few) conditionals, drop directives. Returns text with the same line structure."""
    lines = strip_comments(text, fname).split('\n')
    out, stack, i = [], [], 0          # stack of [taken_now, any_taken, parent_active]
    while i < len(lines):
        ln = lines[i]
        s = ln.strip()
        if s.startswith('#'):
            full, k = s, i
            while full.endswith('\\'):
                k += 1
                full = full[:-1] + ' ' + lines[k].strip()
            for _ in range(i, k + 1):
                out.append('')
            i = k + 1
            m = re.match(r'#\s*(\w+)\s*(.*)$', full)
            if not m:
                raise Unrecognised('%s: directive %r' % (fname, full))
            d, rest = m.group(1), m.group(2)
            active = all(t[0] for t in stack)
            if d in ('include', 'pragma'):
                if d == 'pragma' and active and not re.fullmatch(r'once|pack\s*\(\s*(push\s*,\s*1|pop)\s*\)', rest.strip()):
                    raise Unrecognised('%s: #pragma %s' % (fname, rest))
            elif d == 'if':
                v = eval_cond(rest, fname); stack.append([v, v])
            elif d == 'ifdef':
                v = eval_cond('defined(%s)' % rest, fname); stack.append([v, v])
            elif d == 'ifndef':
                v = eval_cond('!defined(%s)' % rest, fname); stack.append([v, v])
            elif d == 'elif':
                if not stack: raise Unrecognised('%s: #elif without #if' % fname)
                v = (not stack[-1][1]) and eval_cond(rest, fname)
                stack[-1][0] = v; stack[-1][1] = stack[-1][1] or v
            elif d == 'else':
                if not stack: raise Unrecognised('%s: #else without #if' % fname)
                stack[-1][0] = not stack[-1][1]; stack[-1][1] = True
            elif d == 'endif':
                if not stack: raise Unrecognised('%s: #endif without #if' % fname)
                stack.pop()
            else:
                raise Unrecognised('%s: directive #%s not understood' % (fname, d))
            continue
        out.append(ln if all(t[0] for t in stack) else '')
        i += 1
    if stack:
        raise Unrecognised('%s: unterminated #if' % fname)
    return '\n'.join(out)


TOK = re.compile(r'\s+|([A-Za-z_]\w*)|(\d[\w.\']*)|(::|<<=|>>=|<<|>>|->|\+\+|--|&&|\|\||[<>=!+\-*/%&|^]=|""|\' \'|[{}()\[\];,:=<>~!+\-*/%&|^?.])')


def tokenize(text, fname):
    toks, pos, line = [], 0, 1
    while pos < len(text):
        m = TOK.match(text, pos)
        if not m:
            raise Unrecognised('%s:%d: cannot tokenize %r' % (fname, line, text[pos:pos + 20]))
        t = m.group(0)
        if not t.isspace():
            toks.append((t, line))
        line += t.count('\n')
        pos = m.end()
    return toks


IDENT = re.compile(r'[A-Za-z_]\w*$')


def scan_header(path):
    """Returns (enums, structs) found in one header.
    enum: {qual, name, scope(list), underlying, enumerators[names], file, line}
    struct: {qual, name, scope, aligned (int or None), bases[list of str], file, line}"""
    fname = os.path.basename(path)
    toks = tokenize(preprocess(open(path).read(), fname), fname)
    enums, structs = [], []
    stack = []          # (kind, name) kind in ns|struct|block
    i, n = 0, len(toks)

    def T(k):
        return toks[k][0] if k < n else None

    def err(k, msg):
        raise Unrecognised('%s:%d: %s (near %s)' % (fname, toks[min(k, n - 1)][1], msg, ' '.join(t for t, _ in toks[max(0, k - 3):k + 6])))

    def scope_names():
        return [nm for _, nm in stack]

    while i < n:
        t = T(i)
        in_block = any(k == 'block' for k, _ in stack)
        if t == 'namespace':
            if IDENT.match(T(i + 1) or '') and T(i + 2) == '{':
                stack.append(('ns', T(i + 1))); i += 3; continue
            err(i, 'namespace form not understood')
        if t == 'template' and not in_block:
            # template functions are skipped over; a templated struct/enum is not understood
            if T(i + 1) != '<':
                err(i, 'template form not understood')
            k, depth = i + 1, 0
            while True:
                if T(k) is None or T(k) in ('{', '}', ';'):
                    err(k, 'template parameter list not understood')
                if T(k) == '<': depth += 1
                elif T(k) == '>': depth -= 1
                elif T(k) == '>>': depth -= 2
                k += 1
                if depth <= 0:
                    break
            if depth < 0 or T(k) in ('struct', 'class', 'enum', 'union', 'using', 'template'):
                err(k, 'templated type definitions are not understood')
            i = k; continue
        if t in ('union', 'typedef', 'using') and not in_block:
            # type aliases could rename an enum or a struct behind the scanner's back
            err(i, '`%s` at declaration level is not understood' % t)
        if t == 'enum':
            if in_block:
                err(i, 'enum inside a function body')
            if T(i + 1) not in ('class', 'struct') or not IDENT.match(T(i + 2) or ''):
                err(i, 'only `enum class NAME [: type] {` is understood')
            name = T(i + 2); k = i + 3; underlying = []
            if T(k) == ':':
                k += 1
                while T(k) not in ('{', ';', None):
                    if not (IDENT.match(T(k)) or T(k) == '::'):
                        err(k, 'underlying type not understood')
                    underlying.append(T(k)); k += 1
            if T(k) != '{':
                err(k, 'opaque enum declaration or unexpected token')
            k += 1
            names, item, depth = [], [], 0
            while True:
                tk = T(k)
                if tk is None:
                    err(k, 'unterminated enum')
                if tk in ('{', ';') or (tk == '}' and depth):
                    err(k, 'unexpected %r in enum body' % tk)
                if tk in ('(', '['):
                    depth += 1
                elif tk in (')', ']'):
                    depth -= 1
                    if depth < 0: err(k, 'unbalanced parenthesis in enum body')
                if (tk == ',' and depth == 0) or tk == '}':
                    if item:
                        if not IDENT.match(item[0]) or (len(item) > 1 and (item[1] != '=' or len(item) < 3)):
                            err(k, 'enumerator %r is not `NAME [= expr]`' % ' '.join(item))
                        if item[0] in names:
                            err(k, 'duplicate enumerator %s' % item[0])
                        names.append(item[0])
                    elif tk == ',':
                        err(k, 'empty enumerator')
                    item = []
                    if tk == '}':
                        break
                else:
                    item.append(tk)
                k += 1
            if T(k + 1) != ';':
                err(k + 1, 'expected `;` after enum')
            sc = scope_names()
            enums.append({'qual': '::'.join(sc + [name]), 'name': name, 'scope': sc, 'underlying': ' '.join(underlying),
                          'enumerators': names, 'file': fname, 'line': toks[i][1],
                          'in_struct': [nm for kd, nm in stack if kd == 'struct']})
            i = k + 2; continue
        if t in ('struct', 'class') and not in_block:
            k = i + 1; aligned = None
            if T(k) == 'P1_ALIGNAS':
                if T(k + 1) != '(' or not (T(k + 2) or '').isdigit() or T(k + 3) != ')':
                    err(k, 'P1_ALIGNAS form not understood')
                aligned = int(T(k + 2)); k += 4
            if T(k) == 'alignas' and T(k + 1) == '(' and (T(k + 2) or '').isdigit() and T(k + 3) == ')':
                aligned = int(T(k + 2)); k += 4
            if T(k) in ('alignas', '__attribute__'):
                err(k, 'alignment attribute form not understood')
            if not IDENT.match(T(k) or ''):
                err(k, 'struct name expected')
            name = T(k); k += 1
            if T(k) == ';':
                i = k + 1; continue                     # forward declaration
            bases = []
            if T(k) == 'final':
                k += 1
            if T(k) == ':':
                k += 1; cur = []
                while T(k) not in ('{', ';', None):
                    if T(k) == ',':
                        bases.append(''.join(cur)); cur = []
                    elif T(k) in ('public', 'private', 'protected', 'virtual'):
                        pass
                    elif IDENT.match(T(k)) or T(k) == '::':
                        cur.append(T(k))
                    else:
                        err(k, 'base class list not understood')
                    k += 1
                bases.append(''.join(cur))
            if T(k) != '{':
                err(k, 'struct form not understood')
            sc = scope_names()
            structs.append({'qual': '::'.join(sc + [name]), 'name': name, 'scope': sc, 'aligned': aligned, 'bases': bases,
                            'file': fname, 'line': toks[i][1], 'keyword': t})
            stack.append(('struct', name)); i = k + 1; continue
        if t == '{':
            stack.append(('block', None)); i += 1; continue
        if t == '}':
            if not stack:
                err(i, 'unbalanced }')
            stack.pop(); i += 1; continue
        i += 1
    if stack:
        raise Unrecognised('%s: unbalanced braces at end of file (%r)' % (fname, stack))
    # 'block' scopes have name None: an enum/struct inside a block was refused above, so scope lists hold only names
    return enums, structs


def header_files():
    fs = sorted(glob.glob(os.path.join(vf.REPO, MSG_DIR, '*.h')))
    if not fs:
        raise Unrecognised('no headers under %s' % MSG_DIR)
    return fs


def scan_all():
    enums, structs = [], []
    for p in header_files():
        e, s = scan_header(p)
        enums += e; structs += s
    for coll, what in ((enums, 'enum'), (structs, 'struct')):
        seen = {}
        for x in coll:
            if not x['qual'].startswith(NS + '::'):
                raise Unrecognised('%s %s outside namespace %s (%s:%d)' % (what, x['qual'], NS, x['file'], x['line']))
            x['short'] = x['qual'][len(NS) + 2:]
            if x['qual'] in seen:
                raise Unrecognised('%s %s defined twice' % (what, x['qual']))
            seen[x['qual']] = 1
    return enums, structs


def headers_hash(extra=''):
    h = hashlib.sha256()
    for p in sorted(glob.glob(os.path.join(vf.REPO, 'src/point_one/fusion_engine', '**', '*.h'), recursive=True)):
        h.update(os.path.relpath(p, vf.REPO).encode()); h.update(b'\0'); h.update(open(p, 'rb').read()); h.update(b'\0')
    h.update(extra.encode())
    return h.hexdigest()[:24]


def includes():
    return ''.join('#include "point_one/fusion_engine/messages/%s"\n' % os.path.basename(p) for p in header_files())


# ------------------------------------------------------------------------------------------------------------
# C++ values through the compiler
# ------------------------------------------------------------------------------------------------------------

def cpp_program(enums, structs):
    L = ['// generated by /verif/translators/gen_c03.py', '#include <cstdio>', '#include <type_traits>', includes(),
         'template <typename...> struct c03_voider { using type = void; };',
         'template <typename T, typename = void> struct c03_has : std::false_type {};',
         'template <typename T> struct c03_has<T, typename c03_voider<decltype(T::MESSAGE_TYPE)>::type> : std::true_type {};',
         'template <typename T, bool = c03_has<T>::value> struct c03_pr { static void go(const char* n) { std::printf("S %s\\n", n); } };',
         'template <typename T> struct c03_pr<T, true> { static void go(const char* n) {',
         '  static_assert(std::is_same<typename std::decay<decltype(T::MESSAGE_TYPE)>::type, %s::MessageType>::value, "MESSAGE_TYPE is not a MessageType");' % NS,
         '  std::printf("M %s %lld %lld\\n", n, (long long)T::MESSAGE_TYPE, (long long)T::MESSAGE_VERSION); } };',
         'template <typename E> void c03_u(const char* n) { typedef typename std::underlying_type<E>::type U;',
         '  std::printf("U %s %d %d\\n", n, (int)sizeof(U), (int)std::is_signed<U>::value); }',
         'int main() {']
    mt = NS + '::MessageType'
    for e in enums:
        L.append('  c03_u<%s>("%s");' % (e['qual'], e['short']))
        for nm in e['enumerators']:
            L.append('  std::printf("E %s %s %%lld\\n", (long long)%s::%s);' % (e['short'], nm, e['qual'], nm))
        if e['qual'] == mt:
            for nm in e['enumerators']:
                L.append('  std::printf("C %s %%lld %%d %%d\\n", (long long)%s::%s, (int)%s::IsCommand(%s::%s), (int)%s::IsResponse(%s::%s));'
                         % (nm, mt, nm, NS, mt, nm, NS, mt, nm))
    # IsCommand / IsResponse also for values that are NOT enumerators: the neighbours of every enumerator and a few
    # fixed ones (a fast-path range check must not misclassify them); printed as "(value)"
    if any(e['qual'] == mt for e in enums):
        e = next(e for e in enums if e['qual'] == mt)
        L.append('  { const long long defined[] = {%s};' % ', '.join('(long long)%s::%s' % (mt, nm) for nm in e['enumerators']))
        L.append('    const long long fixed[] = {1, 9999, 12999, 13999, 15000, 19999, 20000, 20001, 32768, 65534, 65535};')
        L.append('    const int nd = sizeof defined / sizeof defined[0], nf = sizeof fixed / sizeof fixed[0];')
        L.append('    for (int pass = 0; pass < nd * 2 + nf; ++pass) { long long v = pass < nd * 2 ? defined[pass / 2] + (pass % 2 ? 1 : -1) : fixed[pass - nd * 2];')
        L.append('      if (v < 0 || v > 65535) continue; bool isdef = false; for (int i = 0; i < nd; ++i) if (defined[i] == v) isdef = true; if (isdef) continue;')
        L.append('      std::printf("C (%%lld) %%lld %%d %%d\\n", v, v, (int)%s::IsCommand((%s)v), (int)%s::IsResponse((%s)v)); } }' % (NS, mt, NS, mt))
    for s in structs:
        L.append('  c03_pr<%s>::go("%s");' % (s['qual'], s['short']))
    L += ['  std::printf("END\\n");', '  return 0;', '}']
    return '\n'.join(L) + '\n'


def clang_ast(tu_path):
    rc, so, se = vf.sh('clang++-14 -std=c++14 -I%s/src -fsyntax-only -Xclang -ast-dump -fno-color-diagnostics %s' % (vf.REPO, tu_path), timeout=300)
    if rc != 0:
        raise Unrecognised('clang ast-dump failed: ' + se[-2000:])
    return so


def clang_enum_constants(ast):
    """(qualified enum, enumerator) pairs as clang's AST has them, for enums in the messages namespace."""
    out = set()
    for m in re.finditer(r"EnumConstantDecl 0x[0-9a-f]+ <[^>]*> \S+(?: referenced| used)* (\w+) '([^']+)'", ast):
        if m.group(2).startswith(NS + '::'):
            out.add((m.group(2), m.group(1)))
    return sorted(out)


def clang_records(ast):
    """qualified names of every struct/class/union DEFINED inside the messages namespace, from the AST tree (indentation)."""
    out, stack = set(), []
    node = re.compile(r'^([|` -]*)(\w+) 0x[0-9a-f]+ (.*)$')
    for line in ast.split('\n'):
        m = node.match(line)
        if not m:
            continue
        depth, kind, rest = len(m.group(1)) // 2, m.group(2), m.group(3)
        while stack and stack[-1][0] >= depth:
            stack.pop()
        if kind == 'NamespaceDecl':
            name = rest.split()[-1] if not rest.rstrip().endswith('>') else ''
            if name == 'inline':
                name = ''
            stack.append((depth, 'ns', name))
        elif kind == 'CXXRecordDecl':
            mm = re.search(r'\b(struct|class|union) (\w+) definition\b', rest)
            name = mm.group(2) if mm else None
            stack.append((depth, 'rec', name))
            if mm and ' implicit ' not in ' ' + rest + ' ':
                q = '::'.join(n for _, k, n in stack if n)
                if q.startswith(NS + '::') and all(n for _, k, n in stack):
                    out.add(q)
        elif kind in ('ClassTemplateDecl', 'ClassTemplateSpecializationDecl', 'ClassTemplatePartialSpecializationDecl', 'FunctionDecl', 'CXXMethodDecl',
                      'FunctionTemplateDecl', 'LinkageSpecDecl', 'EnumDecl'):
            stack.append((depth, 'other', None if kind != 'LinkageSpecDecl' else ''))
    return sorted(out)


def cpp_values(enums, structs):
    prog = cpp_program(enums, structs)
    key = headers_hash(prog + subprocess.run(['clang++-14', '--version'], capture_output=True, text=True).stdout)
    os.makedirs(CACHE, exist_ok=True)
    cpath = os.path.join(CACHE, 'c03_%s_%s.json' % (hashlib.sha1(vf.REPO.encode()).hexdigest()[:8], key))
    if os.path.exists(cpath):
        try:
            return json.load(open(cpath))
        except Exception:
            pass
    d = os.path.join(vf.BUILD, 'tmp', 'c03gen-%d' % os.getpid())
    os.makedirs(d, exist_ok=True)
    try:
        src = os.path.join(d, 'c03_values.cc'); exe = os.path.join(d, 'c03_values')
        open(src, 'w').write(prog)
        tree = clang_ast(src)
        ast = clang_enum_constants(tree)
        mine = sorted((e['qual'], nm) for e in enums for nm in e['enumerators'])
        if ast != mine:
            a, b = set(ast), set(mine)
            raise Unrecognised('tokenizer and clang AST disagree on the enumerator set: only clang %r, only tokenizer %r'
                               % (sorted(a - b)[:8], sorted(b - a)[:8]))
        recs, mine_s = clang_records(tree), sorted(s['qual'] for s in structs)
        if recs != mine_s:
            a, b = set(recs), set(mine_s)
            raise Unrecognised('tokenizer and clang AST disagree on the set of structs defined in the messages namespace: only clang %r, only tokenizer %r'
                               % (sorted(a - b)[:8], sorted(b - a)[:8]))
        rc, so, se = vf.sh('clang++-14 -std=c++14 -O0 -I%s/src %s -o %s' % (vf.REPO, src, exe), timeout=600)
        if rc != 0:
            raise Unrecognised('C++ value program does not compile:\n' + se[-3000:])
        rc, so, se = vf.sh([exe], timeout=60)
        if rc != 0 or not so.endswith('END\n'):
            raise Unrecognised('C++ value program failed rc=%s %s' % (rc, se[-500:]))
    finally:
        import shutil
        shutil.rmtree(d, ignore_errors=True)
    res = {'enum_values': {}, 'underlying': {}, 'classification': [], 'messages': [], 'plain_structs': []}
    for ln in so.split('\n'):
        f = ln.split(' ')
        if f[0] == 'E':
            res['enum_values'].setdefault(f[1], []).append([f[2], int(f[3])])
        elif f[0] == 'U':
            res['underlying'][f[1]] = [int(f[2]), int(f[3])]
        elif f[0] == 'C':
            row = [f[1], int(f[2]), int(f[3]), int(f[4])]
            if row not in res['classification']:
                res['classification'].append(row)
        elif f[0] == 'M':
            res['messages'].append([f[1], int(f[2]), int(f[3])])
        elif f[0] == 'S':
            res['plain_structs'].append(f[1])
    tmp = cpath + '.tmp%d' % os.getpid()
    json.dump(res, open(tmp, 'w'))
    os.replace(tmp, cpath)
    return res


# ------------------------------------------------------------------------------------------------------------
# Python side
# ------------------------------------------------------------------------------------------------------------

def py_tables(extra_values=(), public_only=False):
    p = subprocess.run([vf.PY, os.path.join(vf.VERIF, 'harness', 'py', 'c03_dump.py')], env=dict(vf.IMPL_ENV, C03_EXTRA_VALUES=json.dumps(sorted(set(extra_values))), C03_PUBLIC_ONLY='1' if public_only else '0'), capture_output=True, text=True, timeout=300)
    if p.returncode != 0:
        err = '\n'.join(l for l in p.stderr.split('\n') if 'leap' not in l.lower() and 'gpstime' not in l.lower())
        raise Unrecognised('Python introspection failed:\n' + err[-3000:])
    return json.loads(p.stdout[p.stdout.index('{"c03"'):])


# ------------------------------------------------------------------------------------------------------------
# exceptions, matching
# ------------------------------------------------------------------------------------------------------------

def load_exceptions():
    ex = json.load(open(EXC_FILE))
    for sect in ('enum_name_map', 'cpp_only', 'py_only', 'renamed'):
        for row in ex[sect]:
            if not row.get('reason'):
                raise Unrecognised('exception row without a reason: %r' % row)
    return ex


def match_enums(cpp_enums, py, ex):
    """C++ enum short name -> Python enum key ('module.QualName'), by the committed name map, else by the
    unqualified name when exactly one Python enum in the messages package carries it. Unmatched -> None."""
    nm = {r['cpp']: r['py'] for r in ex['enum_name_map']}
    by_name = {}
    for k in py['enums']:
        by_name.setdefault(k.split('.')[-1], []).append(k)
    out = {}
    for e in cpp_enums:
        if e['short'] in nm:
            out[e['short']] = nm[e['short']] if nm[e['short']] in py['enums'] else None
        else:
            c = by_name.get(e['name'], [])
            if len(c) > 1:
                raise Unrecognised('C++ enum %s: several Python enums share the name: %r — add a row to enum_name_map' % (e['short'], c))
            out[e['short']] = c[0] if c else None
    return out


# ------------------------------------------------------------------------------------------------------------
# Coq output
# ------------------------------------------------------------------------------------------------------------

def q(s):
    return vf.coq_str(s)


def zl(v):
    return '(%d)' % v if v < 0 else '%d' % v


def coq_enum_table(name, enums):
    """enums: list of (name, [(member, value)])"""
    rows = []
    for en, mem in enums:
        rows.append('  (%s, [%s])' % (q(en), '; '.join('(%s, %s)' % (q(m), zl(v)) for m, v in mem)))
    return 'Definition %s : list (string * list (string * Z)) := [\n%s\n].\n' % (name, ';\n'.join(rows))


HEAD = 'From Coq Require Import ZArith List String.\nImport ListNotations.\nOpen Scope string_scope.\nOpen Scope Z_scope.\n'


def generate():
    enums, structs = scan_all()
    vals = cpp_values(enums, structs)
    extra = [v for n, v, c, r in vals['classification'] if n.startswith('(')]
    py = py_tables(extra)
    py['public'] = py_tables(extra, public_only=True)
    ex = load_exceptions()
    for e in enums:
        got = [m for m, _ in vals['enum_values'].get(e['short'], [])]
        if got != e['enumerators']:
            raise Unrecognised('value program and tokenizer disagree for %s' % e['short'])
    pairing = match_enums(enums, py, ex)

    srcs = [os.path.join(MSG_DIR, os.path.basename(p)) for p in header_files()]
    # ---- EnumsCpp.v
    t = vf.gen_header(srcs) + HEAD
    t += '(* every `enum class` of the message headers: (name relative to %s, [(enumerator, value)]) *)\n' % NS
    t += coq_enum_table('cpp_enums', [(e['short'], [(m, v) for m, v in vals['enum_values'][e['short']]]) for e in enums])
    t += '(* every MessageType enumerator: (name, value, IsCommand, IsResponse) as evaluated by the compiled headers *)\n'
    t += 'Definition cpp_classification : list (string * Z * bool * bool) := [\n%s\n].\n' % ';\n'.join(
        '  (%s, %s, %s, %s)' % (q(n), zl(v), 'true' if c else 'false', 'true' if r else 'false') for n, v, c, r in vals['classification'])
    t += '(* every struct with MESSAGE_TYPE / MESSAGE_VERSION: (struct, type, version) *)\n'
    t += 'Definition cpp_messages : list (string * Z * Z) := [\n%s\n].\n' % ';\n'.join(
        '  (%s, %s, %s)' % (q(n), zl(a), zl(b)) for n, a, b in vals['messages'])
    vf.write_if_changed(os.path.join(vf.THEORIES, 'Generated', 'EnumsCpp.v'), t)

    # ---- EnumsPy.v: the tables as read right after import, and again after the library has been used (suffix _after)
    def py_defs(snap, suf, what):
        u = '(* %s *)\n' % what
        u += '(* every IntEnum subclass of the package: ("module.Class", [(member or alias, value)]) *)\n'
        u += coq_enum_table('py_enums' + suf, [(k, [(m, v) for m, v in snap['enums'][k]]) for k in sorted(snap['enums'])])
        u += '(* is_command(t) / is_response(t) evaluated on every member of the Python MessageType: (value, is_command, is_response) *)\n'
        u += 'Definition py_classification%s : list (Z * bool * bool) := [\n%s\n].\n' % (suf, ';\n'.join(
            '  (%s, %s, %s)' % (zl(v), 'true' if c else 'false', 'true' if r else 'false') for v, c, r in snap['classification']))
        u += 'Definition py_command_messages%s : list Z := [%s].\n' % (suf, '; '.join(zl(v) for v in snap['command_messages']))
        u += 'Definition py_response_messages%s : list Z := [%s].\n' % (suf, '; '.join(zl(v) for v in snap['response_messages']))
        u += '(* every MessagePayload subclass declaring MESSAGE_TYPE: (class, type, version) *)\n'
        u += 'Definition py_classes%s : list (string * Z * Z) := [\n%s\n].\n' % (suf, ';\n'.join(
            '  (%s, %s, %s)' % (q(n), zl(a), zl(b)) for n, a, b in snap['classes']))
        u += '(* message_type_to_class: (type, class) *)\n'
        u += 'Definition py_registry%s : list (Z * string) := [\n%s\n].\n' % (suf, ';\n'.join(
            '  (%s, %s)' % (zl(a), q(n)) for a, n in snap['registry']))
        return u
    t = vf.gen_header(['python/fusion_engine_client/**/*.py (import + introspection; then harness/py/c03_exercise.py uses the library and the tables are read again)']) + HEAD
    t += py_defs(py, '', 'as read right after import')
    t += py_defs(py['public'], '_public', 'as read in an interpreter that has only done `from fusion_engine_client.messages import *` and `import fusion_engine_client.parsers`')
    t += py_defs(py['after_use'], '_after', 'as read again in the same interpreter after encode/decode of every class, the readers, DataLoader, every Analyzer plot_*/generate_* method, printing')
    vf.write_if_changed(os.path.join(vf.THEORIES, 'Generated', 'EnumsPy.v'), t)

    # ---- EnumsExc.v (from the committed exception table + the pairing)
    t = '(* GENERATED from /verif/harness/c03_exceptions.json (committed) and the enum pairing rule — do not edit. *)\n' + HEAD
    t += '(* C++ enum -> Python enum it is compared with ("" = none found) *)\n'
    t += 'Definition enum_pairing : list (string * string) := [\n%s\n].\n' % ';\n'.join(
        '  (%s, %s)' % (q(e['short']), q(pairing[e['short']] or '')) for e in enums)
    t += '(* (C++ enum, enumerator) present in C++ only, by design *)\n'
    t += 'Definition exc_cpp_only : list (string * string) := [%s].\n' % '; '.join('(%s, %s)' % (q(r['enum']), q(r['name'])) for r in ex['cpp_only'])
    t += '(* (C++ enum, Python member) present in Python only, by design *)\n'
    t += 'Definition exc_py_only : list (string * string) := [%s].\n' % '; '.join('(%s, %s)' % (q(r['enum']), q(r['name'])) for r in ex['py_only'])
    t += '(* (C++ enum, C++ enumerator, Python member): same value, different spelling *)\n'
    t += 'Definition exc_renamed : list (string * string * string) := [%s].\n' % '; '.join(
        '(%s, %s, %s)' % (q(r['enum']), q(r['cpp']), q(r['py'])) for r in ex['renamed'])
    vf.write_if_changed(os.path.join(vf.THEORIES, 'Generated', 'EnumsExc.v'), t)

    return {'enums': enums, 'structs': structs, 'cpp': vals, 'py': py, 'exceptions': ex, 'pairing': pairing}


if __name__ == '__main__':
    r = generate()
    print('C++: %d enums, %d enumerators, %d structs (%d with MESSAGE_TYPE); Python: %d enums, %d classes' % (
        len(r['enums']), sum(len(e['enumerators']) for e in r['enums']), len(r['structs']), len(r['cpp']['messages']),
        len(r['py']['enums']), len(r['py']['classes'])))
