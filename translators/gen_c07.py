"""Generated/CppFramerConsts.v from src/point_one/fusion_engine/parsers/fusion_engine_framer.cc and
messages/defs.h: SetBuffer clamp / alignment constants, extra bytes allocated for managed buffers,
and the MessageHeader field offsets the model reads through reinterpret_cast (computed from the member
declaration order and widths in defs.h; the C++ harness static_asserts the same numbers with offsetof).
Fail closed."""
import os, re, sys
sys.path.insert(0, os.path.join(os.path.dirname(__file__), '..', 'lib'))
import vf

SRC = 'src/point_one/fusion_engine/parsers/fusion_engine_framer.cc'
DEFS = 'src/point_one/fusion_engine/messages/defs.h'
CRC = 'src/point_one/fusion_engine/messages/crc.cc'
WIDTH = {'uint8_t': 1, 'uint16_t': 2, 'uint32_t': 4, 'MessageType': 2}


def cint(s):
    return int(s.strip().rstrip('uUlL'), 0)


def need(m, what, src=SRC):
    if not m:
        raise RuntimeError('gen_c07: %s not recognised in %s' % (what, src))
    return m


def strip(txt):
    return re.sub(r'//[^\n]*', '', re.sub(r'/\*.*?\*/', '', txt, flags=re.S))


def header_layout():
    code = strip(vf.repo_file(DEFS))
    m = need(re.search(r'struct\s+P1_ALIGNAS\(4\)\s+MessageHeader\s*\{(.*?)\n\};', code, re.S), 'struct MessageHeader', DEFS)
    off, out = 0, {}
    for line in m.group(1).split(';'):
        line = line.strip()
        if not line or line.startswith('static') or '(' in line:
            continue
        mm = re.match(r'(uint8_t|uint16_t|uint32_t|MessageType)\s+(\w+)\s*(?:\[\s*(\d+)\s*\])?\s*(?:=.*)?$', line, re.S)
        if not mm:
            raise RuntimeError('gen_c07: MessageHeader member not understood: %r' % line)
        w = WIDTH[mm.group(1)] * (int(mm.group(3)) if mm.group(3) else 1)
        out[mm.group(2)] = (off, w)
        off += w
    if 'MessageType' in [k for k in WIDTH] and not re.search(r'enum\s+class\s+MessageType\s*:\s*uint16_t', code):
        raise RuntimeError('gen_c07: MessageType underlying type is not uint16_t')
    out['__size__'] = (off, 0)
    return out


def generate():
    flat = re.sub(r'\s+', '', strip(vf.repo_file(SRC)))
    clamp = cint(need(re.search(r'capacity_bytes>(0[xX][0-9a-fA-F]+)\)', flat), 'SetBuffer clamp').group(1))
    al = need(re.search(r'\(reinterpret_cast<size_t>\(buffer_unaligned\)\+(\d+)\)&~\(static_cast<size_t>\((\d+)\)\)', flat), 'SetBuffer alignment')
    if al.group(1) != al.group(2):
        raise RuntimeError('gen_c07: alignment add/mask differ')
    extra = cint(need(re.search(r'SetBuffer\(nullptr,capacity_bytes\+(\d+)\);', flat), 'managed extra bytes').group(1))
    need(re.search(r'capacity_bytes<sizeof\(MessageHeader\)', flat), 'SetBuffer minimum')
    lay = header_layout()
    want = ['sync', 'reserved', 'crc', 'protocol_version', 'message_version', 'message_type', 'sequence_number',
            'payload_size_bytes', 'source_identifier']
    if [k for k in lay if k != '__size__'] != want:
        raise RuntimeError('gen_c07: MessageHeader members %r' % list(lay))
    crc = re.sub(r'\s+', '', strip(vf.repo_file(CRC)))
    need(re.search(r'offset=offsetof\(MessageHeader,protocol_version\);', crc), 'CalculateCRC start offset', CRC)
    need(re.search(r'size_bytes=\(sizeof\(MessageHeader\)-offset\)\+header\.payload_size_bytes;', crc), 'CalculateCRC length', CRC)
    vals = {'FR_CLAMP': clamp, 'FR_ALIGN_MASK': cint(al.group(2)), 'FR_MANAGED_EXTRA': extra,
            'FR_HEADER_SIZE': lay['__size__'][0], 'FR_OFF_RESERVED': lay['reserved'][0], 'FR_OFF_CRC': lay['crc'][0],
            'FR_OFF_CRC_START': lay['protocol_version'][0], 'FR_OFF_PSIZE': lay['payload_size_bytes'][0]}
    if (lay['reserved'][1], lay['crc'][1], lay['payload_size_bytes'][1], lay['sync'][1]) != (2, 4, 4, 2):
        raise RuntimeError('gen_c07: field widths changed: %r' % lay)
    t = vf.gen_header([SRC, DEFS, CRC]) + 'From Coq Require Import NArith.\nOpen Scope N_scope.\n'
    for k, v in vals.items():
        t += 'Definition %s : N := %d.\n' % (k, v)
    vf.write_if_changed(os.path.join(vf.THEORIES, 'Generated', 'CppFramerConsts.v'), t)
    return vals


if __name__ == '__main__':
    print(generate())
