"""Generated/CppFramerConsts.v: constants of the C++ FusionEngine framer, obtained by EVALUATING the working tree
rather than matching its text (so renamed members/locals, a restructured constructor or a constant spelled
differently do not break the tie):
  * MessageHeader size and the offsets of reserved / crc / protocol_version / payload_size_bytes: a probe is
    compiled against the headers and prints sizeof / offsetof (harness/cpp/c07_probe.cc);
  * where CalculateCRC(buffer) starts: the k for which CalculateCRC(msg) == CalculateCRC(msg + k, len - k);
  * the usable capacity as a function of (address mod 8, capacity): the largest message the real framer accepts
    as a candidate — a CRC-valid message of 24..48 bytes is dispatched or not; for larger sizes a header claiming
    payload P (wrong CRC) followed by a valid empty message: if the candidate fits, the framer waits for P bytes
    and the second message is swallowed, otherwise it is dispatched; P is found by binary search.  From that table:
    the alignment (period and shift), the minimum capacity, the 2^31-1 clamp, and the extra bytes a managed
    framer has.  The table must be of the modelled shape  usable = min(capacity, clamp) - ((-address) mod align)
    when capacity and the result are >= the header size, else nothing is framed  — otherwise fail closed.
The compiled probe and its results are cached under build/gen_c07 keyed by a hash of the sources."""
import hashlib, json, os, random, struct, sys, zlib
sys.path.insert(0, os.path.join(os.path.dirname(__file__), '..', 'lib'))
import vf

FR = 'src/point_one/fusion_engine'
SOURCES = [FR + '/parsers/fusion_engine_framer.cc', FR + '/parsers/fusion_engine_framer.h', FR + '/messages/crc.cc', FR + '/messages/crc.h',
           FR + '/messages/defs.h', FR + '/common/logging.cc', FR + '/common/logging.h', FR + '/common/portability.h']
PROBE = os.path.join(vf.VERIF, 'harness/cpp/c07_probe.cc')


def _hash():
    h = hashlib.sha1()
    for p in [os.path.join(vf.REPO, s) for s in SOURCES] + [PROBE, __file__]:
        h.update(open(p, 'rb').read())
    return h.hexdigest()[:16]


class Probe:
    def __init__(self, exe):
        import subprocess
        self.p = subprocess.Popen([exe], stdin=subprocess.PIPE, stdout=subprocess.PIPE, text=True, bufsize=1)
        self.first = self.p.stdout.readline().split()

    def ask(self, line):
        self.p.stdin.write(line + '\n'); self.p.stdin.flush()
        out = self.p.stdout.readline()
        if not out:
            raise RuntimeError('gen_c07: probe died on %r' % line[:80])
        return out.split()

    def close(self):
        try:
            self.p.stdin.close(); self.p.wait(timeout=10)
        except Exception:
            self.p.kill()


def derive(exe):
    pr = Probe(exe)
    try:
        if len(pr.first) != 6 or pr.first[0] != 'C':
            raise RuntimeError('gen_c07: probe header line %r' % pr.first)
        H, o_res, o_crc, o_start_decl, o_psize = [int(x) for x in pr.first[1:]]
        if (H, o_res, o_crc, o_psize) != (24, 2, 4, 16):
            raise RuntimeError('gen_c07: MessageHeader layout (size %d, reserved %d, crc %d, payload_size %d) is not the one Base/FEFormat.v transcribes' % (H, o_res, o_crc, o_psize))
        rng = random.Random(7)

        def msg(payload, psize=None, crc=None):
            psize = len(payload) if psize is None else psize
            tail = struct.pack('<BBHIII', 2, 0, 60000, rng.getrandbits(32), psize, 0) + bytes(payload)
            c = zlib.crc32(tail) & 0xFFFFFFFF if crc is None else crc
            return b'.1' + struct.pack('<HI', 0, c) + tail
        # where CalculateCRC(buffer) starts
        ks = None
        for _ in range(4):
            m = msg(bytes(rng.getrandbits(8) for _ in range(rng.randint(1, 40))))
            good = {k for k in range(0, H + 1) if (lambda r: r[0] == r[1])(pr.ask('K %d %s' % (k, m.hex())))}
            ks = good if ks is None else ks & good
        if not ks or len(ks) != 1:
            raise RuntimeError('gen_c07: CalculateCRC(buffer) does not cover [k, end) for a unique k (%r)' % (ks,))
        crc_start = ks.pop()
        empty = msg(b'')

        def ncb(kind, a, cap, stream):
            r = pr.ask(('U %d %d %s' % (a, cap, stream.hex())) if kind == 'U' else ('M %d %s' % (cap, stream.hex())))
            return int(r[0])

        def usable(kind, a, cap):
            """largest message size the framer takes as a candidate; 0 if it frames nothing"""
            best = 0
            for p in range(0, 25):
                if ncb(kind, a, cap, msg(bytes(p))) == 1:
                    best = H + p
                elif best:
                    return best
            if best < H + 24:
                return best
            # P > 24: the 24 bytes that follow the header never complete the candidate
            fits = lambda P: ncb(kind, a, cap, msg(b'', psize=P, crc=1) + empty) == 0
            lo, hi = 25, (1 << 32) - 1
            if not fits(lo):
                return best
            while lo < hi:
                mid = (lo + hi + 1) // 2
                if fits(mid): lo = mid
                else: hi = mid - 1
            return H + lo
        # alignment: shift(a) = 1000 - usable(a, 1000)
        shifts = [1000 - usable('U', a, 1000) for a in range(8)]
        align = next((P for P in (1, 2, 4, 8) if all(shifts[a] == (-a) % P for a in range(8))), None)
        if align is None:
            raise RuntimeError('gen_c07: usable capacity vs address is not "capacity - ((-address) mod 2^k)": shifts %r' % shifts)
        # clamp
        big = [usable('U', 0, c) for c in ((1 << 31) + 5, (1 << 33), (1 << 32) + 100)]
        if len(set(big)) != 1:
            raise RuntimeError('gen_c07: capacities >= 2^31 are not clamped to one value: %r' % big)
        clamp = big[0]
        for c in (clamp - 1, clamp, clamp + 1):
            if usable('U', 0, c) != min(c, clamp):
                raise RuntimeError('gen_c07: usable(0, %d) is not min(capacity, %d)' % (c, clamp))
        # shape on small capacities, all alignments
        for a in range(8):
            s = (-a) % align
            for c in list(range(0, 36)) + [47, 48, 49, 64, 100]:
                want = c - s if (c >= H and c - s >= H) else 0
                got = usable('U', a, c)
                if got != want:
                    raise RuntimeError('gen_c07: usable(address %d, capacity %d) = %d, the modelled shape gives %d' % (a, c, got, want))
        extras = {usable('M', 0, n) - n for n in (24, 40, 64, 100)}
        if len(extras) != 1 or min(extras) < 0:
            raise RuntimeError('gen_c07: managed framers do not have capacity + constant usable bytes: %r' % extras)
        return {'FR_CLAMP': clamp, 'FR_ALIGN_MASK': align - 1, 'FR_MANAGED_EXTRA': extras.pop(), 'FR_HEADER_SIZE': H, 'FR_OFF_RESERVED': o_res,
                'FR_OFF_CRC': o_crc, 'FR_OFF_CRC_START': crc_start, 'FR_OFF_PSIZE': o_psize}
    finally:
        pr.close()


def constants():
    d = os.path.join(vf.BUILD, 'gen_c07')
    os.makedirs(d, exist_ok=True)
    key = _hash()
    cache = os.path.join(d, 'consts_%s.json' % key)
    if os.path.exists(cache):
        return json.load(open(cache))
    exe = os.path.join(d, 'probe_%s_%d' % (key, os.getpid()))
    srcs = ' '.join(os.path.join(vf.REPO, s) for s in SOURCES if s.endswith('.cc'))
    rc, so, se = vf.sh('clang++-14 -std=c++14 -O1 -I%s/src %s %s -o %s' % (vf.REPO, PROBE, srcs, exe), timeout=300)
    if rc != 0:
        raise RuntimeError('gen_c07: probe does not compile against the working tree: ' + se[-1500:])
    try:
        vals = derive(exe)
    finally:
        try: os.remove(exe)
        except OSError: pass
    tmp = cache + '.%d' % os.getpid()
    json.dump(vals, open(tmp, 'w')); os.replace(tmp, cache)
    return vals


def write(vals):
    t = vf.gen_header([s + ' (compiled, probed)' for s in SOURCES if s.endswith(('framer.cc', 'crc.cc', 'defs.h'))])
    t += 'From Coq Require Import NArith.\nOpen Scope N_scope.\n'
    for k in ('FR_CLAMP', 'FR_ALIGN_MASK', 'FR_MANAGED_EXTRA', 'FR_HEADER_SIZE', 'FR_OFF_RESERVED', 'FR_OFF_CRC', 'FR_OFF_CRC_START', 'FR_OFF_PSIZE'):
        t += 'Definition %s : N := %d.\n' % (k, vals[k])
    vf.write_if_changed(os.path.join(vf.THEORIES, 'Generated', 'CppFramerConsts.v'), t)


DEFAULTS = {'FR_CLAMP': 2147483647, 'FR_ALIGN_MASK': 3, 'FR_MANAGED_EXTRA': 3, 'FR_HEADER_SIZE': 24, 'FR_OFF_RESERVED': 2, 'FR_OFF_CRC': 4,
            'FR_OFF_CRC_START': 8, 'FR_OFF_PSIZE': 16}


def ensure_present():
    """used when generate() failed: keep the last generated file, or write the documented values"""
    if not os.path.exists(os.path.join(vf.THEORIES, 'Generated', 'CppFramerConsts.v')):
        write(DEFAULTS)


def generate():
    vals = constants()
    write(vals)
    return vals


if __name__ == '__main__':
    print(generate())
