"""Generated/RtcmConsts.v + Generated/Crc24qTable.v: constants of the C++ RTCM framer, obtained by EVALUATING the
working tree rather than matching its text (they are file-static in rtcm_framer.cc, so they are derived from the
behaviour of the real RTCMFramer through harness/cpp/c14_probe.cc):
  * CRC-24Q table: candidates are (a) any 256-entry array of rtcm_framer.cc, evaluated by the compiler (the .cc is
    included into a generated translation unit that prints the array — values, not spelling), (b) the table that
    follows from polynomial 0x1864CFB.  A candidate is taken only if the REAL framer accepts frames whose CRC is
    computed with it (table-driven, 32-bit accumulator, init 0, 24-bit mask) — frames covering all 256 indices.
    So a corrupted entry in the source still ends up in Generated/Crc24qTable.v and breaks crc24q_table_correct.
  * preamble: the one first byte for which such a frame is accepted; length mask: which of the 16 bits of bytes
    1-2 count towards the length; maximum payload: the largest accepted; message-number shift: from the number
    reported for known payload bytes; header / CRC sizes 3 / 3 are the shape the model assumes;
  * usable capacity as a function of (address, capacity) = 6 + the largest payload accepted; from it the alignment,
    the minimum capacity and the extra bytes of a managed framer; the 2^31-1 clamp has no observable effect beyond
    "capacities >= 2^32 do not wrap" (checked), its value is read from capacity_bytes_ when that member exists.
Anything not of the modelled shape fails closed.  Probe and results are cached under build/gen_c14 by source hash."""
import hashlib, json, os, random, re, subprocess, sys
sys.path.insert(0, os.path.join(os.path.dirname(__file__), '..', 'lib'))
import vf

SOURCES = ['src/point_one/rtcm/rtcm_framer.cc', 'src/point_one/rtcm/rtcm_framer.h', 'src/point_one/fusion_engine/common/logging.cc',
           'src/point_one/fusion_engine/common/logging.h', 'src/point_one/fusion_engine/common/portability.h']
PROBE = os.path.join(vf.VERIF, 'harness/cpp/c14_probe.cc')
POLY = 0x1864CFB


def _hash():
    h = hashlib.sha1()
    for p in [os.path.join(vf.REPO, s) for s in SOURCES] + [PROBE, __file__]:
        h.update(open(p, 'rb').read())
    return h.hexdigest()[:16]


def poly_table():
    out = []
    for i in range(256):
        c = i << 16
        for _ in range(8):
            c <<= 1
            if c & 0x1000000:
                c ^= POLY
        out.append(c & 0xFFFFFF)
    return out


def crc_t(T, data):
    c = 0
    for b in data:
        c = ((c << 8) & 0xFFFFFFFF) ^ T[(b ^ (c >> 16)) & 0xFF]
    return c & 0xFFFFFF


def used_indices(T, data):
    c, out = 0, set()
    for b in data:
        i = (b ^ (c >> 16)) & 0xFF
        out.add(i)
        c = ((c << 8) & 0xFFFFFFFF) ^ T[i]
    return out


def frame(T, pre, payload, hdr=None):
    n = len(payload)
    h16 = n if hdr is None else hdr
    body = bytes([pre, (h16 >> 8) & 0xFF, h16 & 0xFF]) + bytes(payload)
    c = crc_t(T, body)
    return body + bytes([c >> 16, (c >> 8) & 0xFF, c & 0xFF])


class Probe:
    def __init__(self, exe):
        self.p = subprocess.Popen([exe], stdin=subprocess.PIPE, stdout=subprocess.PIPE, text=True, bufsize=1)

    def ask(self, line):
        self.p.stdin.write(line + '\n'); self.p.stdin.flush()
        out = self.p.stdout.readline()
        if not out:
            raise RuntimeError('gen_c14: probe died on %r' % line[:80])
        return [int(x) for x in out.split()]

    def close(self):
        try:
            self.p.stdin.close(); self.p.wait(timeout=10)
        except Exception:
            self.p.kill()


def compiled_tables(d, key):
    """256-entry arrays of rtcm_framer.cc, as the compiler evaluates them"""
    txt = vf.repo_file(SOURCES[0])
    code = re.sub(r'//[^\n]*', '', re.sub(r'/\*.*?\*/', '', txt, flags=re.S))
    names = [m.group(1) for m in re.finditer(r'(\w+)\s*\[[^\]]*\]\s*=\s*\{([^{}]*)\}', code) if m.group(2).count(',') >= 255]
    out = []
    for k, name in enumerate(names):
        cc = os.path.join(d, 'tab_%s_%d_%d.cc' % (key, os.getpid(), k)); exe = cc[:-3]
        open(cc, 'w').write('#include <cstdio>\n#include "%s"\nint main() { for (int i = 0; i < 256; ++i) printf("%%llu\\n", (unsigned long long)%s[i]); return 0; }\n'
                            % (os.path.join(vf.REPO, SOURCES[0]), name))
        rc, so, se = vf.sh('clang++-14 -std=c++14 -O0 -I%s/src %s %s -o %s' % (vf.REPO, cc, os.path.join(vf.REPO, SOURCES[2]), exe), timeout=300)
        if rc == 0:
            rc, so, se = vf.sh([exe], timeout=60)
            vals = [int(x) for x in so.split()]
            if rc == 0 and len(vals) == 256:
                out.append(vals)
        for f in (cc, exe):
            try: os.remove(f)
            except OSError: pass
    return out


def derive(exe, tables):
    pr = Probe(exe)
    rng = random.Random(11)
    try:
        acc = lambda a, cap, data, kind='U': pr.ask(('U %d %d %s' % (a, cap, bytes(data).hex())) if kind == 'U' else ('M %d %s' % (cap, bytes(data).hex())))
        chosen = None
        why = []
        for T in tables:
            pres = [p for p in range(256) if acc(0, 4096, frame(T, p, bytes([1, 2, 3, 4, 5])))[0] == 1]
            if len(pres) != 1:
                why.append('no single accepted preamble (%r)' % pres[:5]); continue
            pre = pres[0]
            seen, ok = set(), True
            for _ in range(3000):
                f = frame(T, pre, bytes(rng.getrandbits(8) for _ in range(rng.randint(0, 40))))
                r = acc(0, 4096, f)
                if not (r[0] == 1 and r[1] == len(f) and r[3] == len(f)):
                    ok = False; break
                seen |= used_indices(T, f[:-3])
                if len(seen) == 256:
                    break
            if ok and len(seen) == 256:
                chosen = (T, pre); break
            why.append('frames built with the candidate table are not all accepted' if not ok else 'could not cover all table indices')
        if not chosen:
            raise RuntimeError('gen_c14: no CRC table candidate reproduces the framer (table-driven CRC-24, init 0, mask 0xFFFFFF): ' + '; '.join(why))
        T, pre = chosen
        F = lambda payload, hdr=None: frame(T, pre, payload, hdr)
        # length mask
        mask = 0
        for k in range(16):
            if k < 10:
                if acc(0, 4096, F(bytes(1 << k)))[0] == 1:
                    mask |= 1 << k
            else:
                if acc(0, 4096, F(bytes(5), hdr=(1 << k) | 5))[0] != 1:
                    mask |= 1 << k
        if mask == 0 or mask & (mask + 1):
            raise RuntimeError('gen_c14: the length field is not a contiguous low-bit mask: 0x%x' % mask)
        maxp = next((L for L in range(min(mask, 4000), -1, -1) if acc(0, 8192, F(bytes(L)))[0] == 1), None)
        if maxp is None:
            raise RuntimeError('gen_c14: no payload length is accepted')
        n1 = acc(0, 4096, F(b'\xff\xff\x00'))[2]
        shift = 16 - n1.bit_length()
        if acc(0, 4096, F(b'\xa5\x3c\x00'))[2] != (0xA53C >> shift) or n1 != (0xFFFF >> shift):
            raise RuntimeError('gen_c14: message number is not (first two payload bytes) >> k')

        def usable(kind, a, cap):
            ok = lambda L: acc(a, cap, F(bytes(L)), kind)[0] == 1
            if not ok(0):
                return 0
            lo, hi = 0, maxp
            while lo < hi:
                mid = (lo + hi + 1) // 2
                if ok(mid): lo = mid
                else: hi = mid - 1
            return 6 + lo
        shifts = [500 - usable('U', a, 500) for a in range(8)]
        align = next((P for P in (1, 2, 4, 8) if all(shifts[a] == (-a) % P for a in range(8))), None)
        if align is None:
            raise RuntimeError('gen_c14: usable capacity vs address is not "capacity - ((-address) mod 2^k)": shifts %r' % shifts)
        for a in range(8):
            s = (-a) % align
            for c in list(range(0, 16)) + [63, 64, 65, 6 + maxp - 1, 6 + maxp, 6 + maxp + 1, 6 + maxp + 5, 2048]:
                want = min(c - s, 6 + maxp) if (c >= 6 and c - s >= 6) else 0
                got = usable('U', a, c)
                if got != want:
                    raise RuntimeError('gen_c14: usable(address %d, capacity %d) = %d, the modelled shape gives %d' % (a, c, got, want))
        extras = {usable('M', 0, n) - n for n in (10, 40, 100)}
        if len(extras) != 1 or min(extras) < 0:
            raise RuntimeError('gen_c14: managed framers do not have capacity + constant usable bytes: %r' % extras)
        caps = set()
        for claimed in ((1 << 32) + 10, 1 << 33, (1 << 31) + 5):
            r = acc(0, claimed, F(bytes(maxp)))
            if r[0] != 1:
                raise RuntimeError('gen_c14: a capacity of %d bytes wraps around (largest frame not accepted)' % claimed)
            caps.add(r[5])
        clamp = 2147483647
        if caps != {-1}:
            if len(caps) != 1:
                raise RuntimeError('gen_c14: capacities >= 2^31 are not clamped to one value: %r' % caps)
            clamp = caps.pop()
        return {'RTCM_PREAMBLE': pre, 'RTCM_HEADER_BYTES': 3, 'RTCM_CRC_BYTES': 3, 'RTCM_MAX_PAYLOAD': maxp, 'RTCM_LEN_MASK': mask,
                'RTCM_TYPE_SHIFT': shift, 'RTCM_CRC_INIT': 0, 'RTCM_CRC_MASK': 0xFFFFFF, 'RTCM_CLAMP': clamp, 'RTCM_ALIGN_MASK': align - 1,
                'RTCM_MANAGED_EXTRA': extras.pop(), 'table': T}
    finally:
        pr.close()


def constants():
    d = os.path.join(vf.BUILD, 'gen_c14')
    os.makedirs(d, exist_ok=True)
    key = _hash()
    cache = os.path.join(d, 'consts_%s.json' % key)
    if os.path.exists(cache):
        return json.load(open(cache))
    exe = os.path.join(d, 'probe_%s_%d' % (key, os.getpid()))
    srcs = ' '.join(os.path.join(vf.REPO, s) for s in SOURCES if s.endswith('.cc'))
    rc, so, se = vf.sh('clang++-14 -std=c++14 -O1 -I%s/src %s %s -o %s' % (vf.REPO, PROBE, srcs, exe), timeout=300)
    if rc != 0:
        raise RuntimeError('gen_c14: probe does not compile against the working tree: ' + se[-1500:])
    try:
        tables = compiled_tables(d, key)
        pt = poly_table()
        if pt not in tables:
            tables.append(pt)
        vals = derive(exe, tables)
    finally:
        try: os.remove(exe)
        except OSError: pass
    tmp = cache + '.%d' % os.getpid()
    json.dump(vals, open(tmp, 'w')); os.replace(tmp, cache)
    return vals


KEYS = ['RTCM_PREAMBLE', 'RTCM_HEADER_BYTES', 'RTCM_CRC_BYTES', 'RTCM_MAX_PAYLOAD', 'RTCM_LEN_MASK', 'RTCM_TYPE_SHIFT', 'RTCM_CRC_INIT',
        'RTCM_CRC_MASK', 'RTCM_CLAMP', 'RTCM_ALIGN_MASK', 'RTCM_MANAGED_EXTRA']
DEFAULTS = {'RTCM_PREAMBLE': 211, 'RTCM_HEADER_BYTES': 3, 'RTCM_CRC_BYTES': 3, 'RTCM_MAX_PAYLOAD': 1023, 'RTCM_LEN_MASK': 1023, 'RTCM_TYPE_SHIFT': 4,
            'RTCM_CRC_INIT': 0, 'RTCM_CRC_MASK': 16777215, 'RTCM_CLAMP': 2147483647, 'RTCM_ALIGN_MASK': 3, 'RTCM_MANAGED_EXTRA': 3}


def write(vals):
    t = vf.gen_header([SOURCES[0] + ' (compiled, probed)']) + 'From Coq Require Import NArith.\nOpen Scope N_scope.\n'
    for k in KEYS:
        t += 'Definition %s : N := %d.\n' % (k, vals[k])
    vf.write_if_changed(os.path.join(vf.THEORIES, 'Generated', 'RtcmConsts.v'), t)
    table = vals['table']
    t = vf.gen_header([SOURCES[0] + ' (compiled, probed)']) + 'From Coq Require Import NArith List.\nImport ListNotations.\nOpen Scope N_scope.\n'
    t += 'Definition crc24q_table_src : list N :=\n  [' + ';\n   '.join('; '.join(str(x) for x in table[i:i + 8]) for i in range(0, 256, 8)) + '].\n'
    vf.write_if_changed(os.path.join(vf.THEORIES, 'Generated', 'Crc24qTable.v'), t)


def ensure_present():
    g = os.path.join(vf.THEORIES, 'Generated')
    if not (os.path.exists(os.path.join(g, 'RtcmConsts.v')) and os.path.exists(os.path.join(g, 'Crc24qTable.v'))):
        write(dict(DEFAULTS, table=poly_table()))


def generate():
    vals = constants()
    write(vals)
    return {k: vals[k] for k in KEYS}


if __name__ == '__main__':
    print(generate())
