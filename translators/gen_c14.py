"""Generated/RtcmConsts.v + Generated/Crc24qTable.v from src/point_one/rtcm/rtcm_framer.cc:
the 256-entry CRC-24Q table, preamble, header/CRC sizes, length mask, maximum frame size, the SetBuffer
clamp and alignment constants, and a shape check of CRC24Hash / EndianSwap16 / EndianSwap24 (the three
helper routines the model transcribes).  Fail closed: anything not recognised raises."""
import os, re, sys
sys.path.insert(0, os.path.join(os.path.dirname(__file__), '..', 'lib'))
import vf

SRC = 'src/point_one/rtcm/rtcm_framer.cc'


def cint(s):
    return int(s.strip().rstrip('uUlL'), 0)


def nows(s):
    return re.sub(r'\s+', '', s)


def need(m, what):
    if not m:
        raise RuntimeError('gen_c14: %s not recognised in %s' % (what, SRC))
    return m


def generate():
    txt = vf.repo_file(SRC)
    code = re.sub(r'//[^\n]*', '', re.sub(r'/\*.*?\*/', '', txt, flags=re.S))
    flat = nows(code)
    pre = cint(need(re.search(r'RTCM3_PREAMBLE\s*=\s*(0[xX][0-9a-fA-F]+|\d+)\s*;', code), 'RTCM3_PREAMBLE').group(1))
    hb = cint(need(re.search(r'RTCM_HEADER_BYTES\s*=\s*(\d+)\s*;', code), 'RTCM_HEADER_BYTES').group(1))
    cb = cint(need(re.search(r'RTCM_CRC_BYTES\s*=\s*(\d+)\s*;', code), 'RTCM_CRC_BYTES').group(1))
    need(re.search(r'RTCM_OVERHEAD_BYTES=RTCM_HEADER_BYTES\+RTCM_CRC_BYTES;', flat), 'RTCM_OVERHEAD_BYTES')
    mp = cint(need(re.search(r'RTCM_MAX_SIZE_BYTES=RTCM_HEADER_BYTES\+(\d+)\+RTCM_CRC_BYTES;', flat), 'RTCM_MAX_SIZE_BYTES').group(1))
    tb = need(re.search(r'RTCM_CRC24Q\s*\[\s*256\s*\]\s*=\s*\{(.*?)\}\s*;', code, re.S), 'RTCM_CRC24Q table').group(1)
    table = [cint(x) for x in tb.split(',') if x.strip()]
    if len(table) != 256:
        raise RuntimeError('gen_c14: table has %d entries' % len(table))
    # CRC24Hash: unsigned crc = 0; crc = (crc << 8) ^ T[data[i] ^ (unsigned char)(crc >> 16)]; crc & 0x00ffffff
    h = need(re.search(r'CRC24Hash\(constuint8_t\*data,size_tlen\)\{(.*?)returncrc;\}', flat), 'CRC24Hash').group(1)
    need(re.search(r'unsignedcrc=(\d+);', h), 'CRC24Hash init')
    init = cint(re.search(r'unsignedcrc=(\d+);', h).group(1))
    need(re.search(r'for\(i=0;i<len;i\+\+\)\{crc=\(crc<<8\)\^RTCM_CRC24Q\[data\[i\]\^\(unsignedchar\)\(crc>>16\)\];\}', h), 'CRC24Hash loop')
    mask = cint(need(re.search(r'crc=\(crc&(0[xX][0-9a-fA-F]+)\);', h), 'CRC24Hash mask').group(1))
    need(re.search(r'EndianSwap16\(constuint8_t\*num_ptr\)\{return\(num_ptr\[0\]<<8\)\|\(num_ptr\[1\]<<0\);\}', flat), 'EndianSwap16')
    need(re.search(r'EndianSwap24\(constuint8_t\*num_ptr\)\{return\(num_ptr\[0\]<<16\)\|\(num_ptr\[1\]<<8\)\|\(num_ptr\[2\]<<0\);\}', flat), 'EndianSwap24')
    lm = cint(need(re.search(r'payload_size_bytes=header_byte_1_2_le&(0[xX][0-9a-fA-F]+);', flat), 'length mask').group(1))
    ts = cint(need(re.search(r'message_type=header_byte_3_4_le>>(\d+);', flat), 'message type shift').group(1))
    need(re.search(r'header_byte_1_2_le=EndianSwap16\(buffer_\+1\);', flat), 'length bytes position')
    need(re.search(r'header_byte_3_4_le=EndianSwap16\(buffer_\+RTCM_HEADER_BYTES\);', flat), 'message number position')
    clamp = cint(need(re.search(r'capacity_bytes>(0[xX][0-9a-fA-F]+)\)', flat), 'SetBuffer clamp').group(1))
    al = need(re.search(r'\(reinterpret_cast<size_t>\(buffer_unaligned\)\+(\d+)\)&~\(static_cast<size_t>\((\d+)\)\)', flat), 'SetBuffer alignment')
    extra = cint(need(re.search(r'SetBuffer\(nullptr,capacity_bytes\+(\d+)\);', flat), 'managed extra bytes').group(1))
    if al.group(1) != al.group(2):
        raise RuntimeError('gen_c14: alignment add/mask differ')
    vals = {'RTCM_PREAMBLE': pre, 'RTCM_HEADER_BYTES': hb, 'RTCM_CRC_BYTES': cb, 'RTCM_MAX_PAYLOAD': mp, 'RTCM_LEN_MASK': lm,
            'RTCM_TYPE_SHIFT': ts, 'RTCM_CRC_INIT': init, 'RTCM_CRC_MASK': mask, 'RTCM_CLAMP': clamp,
            'RTCM_ALIGN_MASK': cint(al.group(2)), 'RTCM_MANAGED_EXTRA': extra}
    t = vf.gen_header([SRC]) + 'From Coq Require Import NArith.\nOpen Scope N_scope.\n'
    for k, v in vals.items():
        t += 'Definition %s : N := %d.\n' % (k, v)
    vf.write_if_changed(os.path.join(vf.THEORIES, 'Generated', 'RtcmConsts.v'), t)
    t = vf.gen_header([SRC]) + 'From Coq Require Import NArith List.\nImport ListNotations.\nOpen Scope N_scope.\n'
    t += 'Definition crc24q_table_src : list N :=\n  [' + ';\n   '.join('; '.join(str(x) for x in table[i:i + 8]) for i in range(0, 256, 8)) + '].\n'
    vf.write_if_changed(os.path.join(vf.THEORIES, 'Generated', 'Crc24qTable.v'), t)
    return vals


if __name__ == '__main__':
    print(generate())
