"""Generated/TimeRangeConsts.v from python/fusion_engine_client/utils/time_range.py: the literal constants of
TimeRange.parse() (field separator, the two type specifiers, the maximum number of fields) and of
TimeRange.__init__ (the start value that is normalised to "open" for absolute ranges).
Fail closed: anything this does not recognise raises."""
import ast, os, sys
sys.path.insert(0, os.path.join(os.path.dirname(__file__), '..', 'lib'))
import vf

SRC = 'python/fusion_engine_client/utils/time_range.py'


def _method(cls, name):
    for n in cls.body:
        if isinstance(n, ast.FunctionDef) and n.name == name:
            return n
    raise RuntimeError('gen_c13: TimeRange.%s not found' % name)


def generate():
    tree = ast.parse(vf.repo_file(SRC))
    cls = [n for n in tree.body if isinstance(n, ast.ClassDef) and n.name == 'TimeRange']
    if len(cls) != 1:
        raise RuntimeError('gen_c13: class TimeRange not found')
    cls = cls[0]
    for m in ('__init__', 'restart', 'make_absolute', 'intersect', 'is_in_range', 'parse'):
        _method(cls, m)
    parse = _method(cls, 'parse')
    # separator: the single <x>.split(<const>) call
    seps = [c.args[0].value for c in ast.walk(parse)
            if isinstance(c, ast.Call) and isinstance(c.func, ast.Attribute) and c.func.attr == 'split'
            and len(c.args) == 1 and isinstance(c.args[0], ast.Constant) and isinstance(c.args[0].value, str)]
    if len(seps) != 1 or len(seps[0]) != 1:
        raise RuntimeError('gen_c13: expected exactly one split(<1-char literal>) in parse(), got %r' % seps)
    # specifiers: comparisons time_range[2] == '<lit>' followed by absolute = True/False
    spec = {}
    for node in ast.walk(parse):
        if isinstance(node, ast.If) and isinstance(node.test, ast.Compare) and len(node.test.ops) == 1 \
                and isinstance(node.test.ops[0], ast.Eq) and isinstance(node.test.left, ast.Subscript) \
                and isinstance(node.test.comparators[0], ast.Constant) and isinstance(node.test.comparators[0].value, str) \
                and node.test.comparators[0].value != '':
            body = node.body
            if len(body) == 1 and isinstance(body[0], ast.Assign) and isinstance(body[0].targets[0], ast.Name) \
                    and body[0].targets[0].id == 'absolute' and isinstance(body[0].value, ast.Constant) \
                    and isinstance(body[0].value.value, bool):
                spec[body[0].value.value] = node.test.comparators[0].value
    if set(spec) != {True, False}:
        raise RuntimeError('gen_c13: could not find the two type specifiers in parse(): %r' % spec)
    # field-count limits: len(time_range) == 3 (type specifier present), len(time_range) > 3 (error)
    lens = []
    for node in ast.walk(parse):
        if isinstance(node, ast.Compare) and isinstance(node.left, ast.Call) and isinstance(node.left.func, ast.Name) \
                and node.left.func.id == 'len' and isinstance(node.comparators[0], ast.Constant):
            lens.append((type(node.ops[0]).__name__, node.comparators[0].value))
    if sorted(lens) != sorted([('Eq', 1), ('GtE', 2), ('Eq', 3), ('Gt', 3)]):
        raise RuntimeError('gen_c13: unexpected field-count tests in parse(): %r' % lens)
    # __init__: "self.start == <const> and self.absolute"
    init = _method(cls, '__init__')
    zeros = [n.comparators[0].value for n in ast.walk(init)
             if isinstance(n, ast.Compare) and isinstance(n.left, ast.Attribute) and n.left.attr == 'start'
             and len(n.ops) == 1 and isinstance(n.ops[0], ast.Eq) and isinstance(n.comparators[0], ast.Constant)]
    if zeros != [0.0]:
        raise RuntimeError('gen_c13: expected one test self.start == 0.0 in __init__, got %r' % zeros)

    def zl(s):
        return '[' + '; '.join(str(ord(c)) for c in s) + ']'
    text = vf.gen_header([SRC]) + 'From Coq Require Import ZArith List.\nImport ListNotations.\nOpen Scope Z_scope.\n'
    text += 'Definition tr_sep : Z := %d.\n' % ord(seps[0])
    text += 'Definition tr_kw_abs : list Z := %s.\nDefinition tr_kw_rel : list Z := %s.\n' % (zl(spec[True]), zl(spec[False]))
    text += 'Definition tr_max_fields : nat := 3.\n'
    text += 'Definition tr_abs_open_start : Z := %d.\n' % int(zeros[0])
    vf.write_if_changed(os.path.join(vf.THEORIES, 'Generated', 'TimeRangeConsts.v'), text)
    return {'sep': seps[0], 'abs': spec[True], 'rel': spec[False], 'abs_open_start': zeros[0]}


if __name__ == '__main__':
    print(generate())
