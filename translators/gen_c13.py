"""Generated/TimeRangeConsts.v for C13: the literal constants of TimeRange.parse() / TimeRange.__init__ that the
model depends on.

They are obtained by *evaluating* the working tree (subprocess, vf.IMPL_ENV), never by matching its text, so a
behaviour-preserving rewrite (extracted helpers, renamed locals, flattened branches) leaves them unchanged.  Every
fact is read off the *verdicts of is_in_range()* on ranges made by the public constructor / parse():
  * separator: the unique printable character c for which parse('1' c '2') behaves as the relative interval [1, 2) s;
  * type specifiers: among candidate words (all string constants reachable from the module's code objects plus a
    fixed list of plausible spellings), those w for which parse('1' SEP '2' SEP w) does not raise, classified by
    behaviour (absolute: a first Pose@1.5 s is accepted; relative: it is the origin and is rejected);
    the model has one spelling per kind, so exactly one of each is required;
  * maximum number of fields: 3 fields parse, 4 and 5 raise ValueError;
  * the absolute start value that is normalised to an open start: among probe values, those v for which
    TimeRange(start=v, absolute=True) accepts an untimed first message; the model has the single value 0.
Fail closed (raise) only when the observed behaviour is not of the modelled shape."""
import json, os, subprocess, sys
sys.path.insert(0, os.path.join(os.path.dirname(__file__), '..', 'lib'))
import vf

SRC = 'python/fusion_engine_client/utils/time_range.py'

PROBE = r'''
import json, logging, sys, types
logging.disable(logging.CRITICAL)
from fusion_engine_client.messages import PoseMessage, Timestamp
import fusion_engine_client.utils.time_range as M
TimeRange = M.TimeRange

def pose(t):
    m = PoseMessage(); m.p1_time = Timestamp(t); return m

def verdicts(r, times):
    return [bool(r.is_in_range(pose(t))) for t in times]

def classify(make):
    """'rel' / 'abs' if make() is the interval [1, 2) s of that kind, 'raises' on ValueError, else 'other'"""
    try:
        a = make(); b = make()
    except ValueError:
        return 'raises'
    if verdicts(a, [0.5, 1.0, 1.5, 1.875, 2.0, 2.5]) == [False, True, True, True, False, False]:
        return 'abs'
    if verdicts(b, [10.0, 10.5, 11.0, 11.5, 11.875, 12.0, 12.5]) == [False, False, True, True, True, False, False]:
        return 'rel'
    return 'other'

out = {}
# separator
seps = []
for c in map(chr, range(32, 127)):
    try:
        k = classify(lambda: TimeRange.parse('1' + c + '2'))
    except Exception as e:
        k = 'error:' + type(e).__name__
    if k in ('rel', 'abs'):
        seps.append((c, k))
out['seps'] = seps
if len(seps) == 1:
    S = seps[0][0]
    # candidate specifier words: every string constant reachable from the module's code objects + plausible spellings
    words = set(['abs', 'rel', 'absolute', 'relative', 'ABS', 'REL', 'Abs', 'Rel', 'a', 'r', 'p1', 'gps', 'utc', 'system',
                 'none', 'None', 'true', 'false', '0', '1', '', ' ', 'abs ', ' abs', 'rel ', ' rel'])
    seen = set()
    def walk(code):
        if id(code) in seen:
            return
        seen.add(id(code))
        for k in code.co_consts:
            if isinstance(k, str) and len(k) <= 16 and '\n' not in k:
                words.add(k)
            elif isinstance(k, (tuple, frozenset)):
                for x in k:
                    if isinstance(x, str) and len(x) <= 16 and '\n' not in x:
                        words.add(x)
            elif isinstance(k, types.CodeType):
                walk(k)
    def walk_obj(o):
        f = getattr(o, '__func__', o)
        c = getattr(f, '__code__', None)
        if c is not None:
            walk(c)
    for name, o in list(vars(M).items()):
        if isinstance(o, type) and o.__module__ == M.__name__:
            for n2, o2 in list(vars(o).items()):
                walk_obj(o2)
        elif isinstance(o, types.FunctionType) and o.__module__ == M.__name__:
            walk_obj(o)
    spec = {}
    for w in sorted(words):
        if S in w:
            continue
        try:
            k = classify(lambda: TimeRange.parse('1' + S + '2' + S + w))
        except Exception as e:
            k = 'error:' + type(e).__name__
        if k != 'raises':
            spec[w] = k
    out['spec'] = spec
    # the argument must lose against an explicit specifier, and decide when there is none
    arg = {}
    for w, k in spec.items():
        if k in ('abs', 'rel'):
            arg[w] = [classify(lambda: TimeRange.parse('1' + S + '2' + S + w, absolute=True)),
                      classify(lambda: TimeRange.parse('1' + S + '2' + S + w, absolute=False))]
    out['spec_vs_arg'] = arg
    out['arg_only'] = [classify(lambda: TimeRange.parse('1' + S + '2', absolute=True)), classify(lambda: TimeRange.parse('1' + S + '2', absolute=False))]
    # field count
    good = [w for w, k in spec.items() if k in ('abs', 'rel')]
    w0 = good[0] if good else 'abs'
    out['fields'] = {n: classify(lambda: TimeRange.parse(S.join(['1', '2', w0, w0, w0][:n]))) for n in (1, 2, 3, 4, 5)}
    out['fields'][1] = 'ok' if verdicts(TimeRange.parse('1'), [10.0, 10.5, 11.0, 99.0]) == [False, False, True, True] else 'other'

# absolute start values that count as an open start: an untimed first message is accepted
opens = []
for v in (0.0, -0.0, 0, 0.125, 1.0, -1.0, 2.0 ** -30):
    r = TimeRange(start=v, end=None, absolute=True)
    if bool(r.is_in_range(b'x')):
        opens.append(float(v))
out['abs_open'] = sorted(set(opens))
out['rel_open'] = [float(v) for v in (0.0, 1.0) if bool(TimeRange(start=v, end=None, absolute=False).is_in_range(b'x'))]
sys.stdout.write('\nGEN_C13 ' + json.dumps(out) + '\n')
'''


def probe():
    p = subprocess.run([vf.PY, '-c', PROBE], env=vf.IMPL_ENV, capture_output=True, text=True, timeout=300)
    line = next((l for l in p.stdout.split('\n') if l.startswith('GEN_C13 ')), None)
    if p.returncode != 0 or line is None:
        err = '\n'.join(l for l in p.stderr.split('\n') if 'leap second' not in l.lower())
        raise RuntimeError('gen_c13: probe of the working tree failed (rc=%s): %s' % (p.returncode, err[-1500:]))
    return json.loads(line[len('GEN_C13 '):])


def generate():
    o = probe()
    if len(o['seps']) != 1 or o['seps'][0][1] != 'rel':
        raise RuntimeError('gen_c13: expected exactly one field separator giving a relative [1,2) range, observed %r' % (o['seps'],))
    sep = o['seps'][0][0]
    abs_words = sorted(w for w, k in o['spec'].items() if k == 'abs')
    rel_words = sorted(w for w, k in o['spec'].items() if k == 'rel')
    odd = {w: k for w, k in o['spec'].items() if k not in ('abs', 'rel')}
    if len(abs_words) != 1 or len(rel_words) != 1 or odd:
        raise RuntimeError('gen_c13: the model has one specifier per kind; observed absolute=%r relative=%r other=%r' % (abs_words, rel_words, odd))
    kw_abs, kw_rel = abs_words[0], rel_words[0]
    if o['spec_vs_arg'] != {kw_abs: ['abs', 'abs'], kw_rel: ['rel', 'rel']} or o['arg_only'] != ['abs', 'rel']:
        raise RuntimeError('gen_c13: specifier / absolute-argument precedence is not of the modelled shape: %r %r' % (o['spec_vs_arg'], o['arg_only']))
    f = {int(k): v for k, v in o['fields'].items()}
    if f[1] != 'ok' or f[2] != 'rel' or f[3] not in ('abs', 'rel') or f[4] != 'raises' or f[5] != 'raises':
        raise RuntimeError('gen_c13: field-count behaviour is not "1-3 fields parse, more raise": %r' % (f,))
    if o['abs_open'] != [0.0] or o['rel_open'] != []:
        raise RuntimeError('gen_c13: start values normalised to an open start are not "absolute 0 only": abs=%r rel=%r' % (o['abs_open'], o['rel_open']))

    def zl(s):
        return '[' + '; '.join(str(ord(c)) for c in s) + ']'
    text = vf.gen_header([SRC]) + 'From Coq Require Import ZArith List.\nImport ListNotations.\nOpen Scope Z_scope.\n'
    text += 'Definition tr_sep : Z := %d.\n' % ord(sep)
    text += 'Definition tr_kw_abs : list Z := %s.\nDefinition tr_kw_rel : list Z := %s.\n' % (zl(kw_abs), zl(kw_rel))
    text += 'Definition tr_max_fields : nat := 3.\n'
    text += 'Definition tr_abs_open_start : Z := 0.\n'
    vf.write_if_changed(os.path.join(vf.THEORIES, 'Generated', 'TimeRangeConsts.v'), text)
    return {'sep': sep, 'abs': kw_abs, 'rel': kw_rel, 'max_fields': 3, 'abs_open_start': 0.0}


DEFAULT_TEXT = ('From Coq Require Import ZArith List.\nImport ListNotations.\nOpen Scope Z_scope.\n'
                'Definition tr_sep : Z := 58.\nDefinition tr_kw_abs : list Z := [97; 98; 115].\nDefinition tr_kw_rel : list Z := [114; 101; 108].\n'
                'Definition tr_max_fields : nat := 3.\nDefinition tr_abs_open_start : Z := 0.\n')

if __name__ == '__main__':
    print(generate())
