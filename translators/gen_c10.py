"""Generated/LogReaderConsts.v (used by C10 and C11): numeric constants of the reader / indexer that the model
depends on, read from the working tree with `ast` (no import of the package).  Fail closed."""
import ast, os, struct, sys
sys.path.insert(0, os.path.join(os.path.dirname(__file__), '..', 'lib'))
import vf

DEFS = 'python/fusion_engine_client/messages/defs.py'
FAST = 'python/fusion_engine_client/parsers/fast_indexer.py'
READER = 'python/fusion_engine_client/parsers/mixed_log_reader.py'


def _const(node):
    """evaluate an int/str constant expression made of literals and + - * // << only"""
    if isinstance(node, ast.Constant) and isinstance(node.value, (int, str)) and not isinstance(node.value, bool):
        return node.value
    if isinstance(node, ast.BinOp) and isinstance(node.op, (ast.Add, ast.Sub, ast.Mult, ast.FloorDiv, ast.LShift)):
        a, b = _const(node.left), _const(node.right)
        if isinstance(a, int) and isinstance(b, int):
            return {ast.Add: a + b, ast.Sub: a - b, ast.Mult: a * b, ast.FloorDiv: a // b if b else None, ast.LShift: a << b}[type(node.op)]
    raise RuntimeError('gen_c10: unsupported constant expression: ' + ast.dump(node))


def _assign(body, name):
    vals = []
    for st in body:
        tgt, val = None, None
        if isinstance(st, ast.Assign) and len(st.targets) == 1 and isinstance(st.targets[0], ast.Name):
            tgt, val = st.targets[0].id, st.value
        elif isinstance(st, ast.AnnAssign) and isinstance(st.target, ast.Name) and st.value is not None:
            tgt, val = st.target.id, st.value
        if tgt == name:
            vals.append(val)
    if len(vals) != 1:
        raise RuntimeError('gen_c10: expected exactly one assignment of %s, found %d' % (name, len(vals)))
    return vals[0]


def _class(tree, name):
    cs = [n for n in tree.body if isinstance(n, ast.ClassDef) and n.name == name]
    if len(cs) != 1:
        raise RuntimeError('gen_c10: class %s not found exactly once' % name)
    return cs[0]


def generate():
    defs = ast.parse(vf.repo_file(DEFS))
    fast = ast.parse(vf.repo_file(FAST))
    rdr = ast.parse(vf.repo_file(READER))
    fmt = _const(_assign(_class(defs, 'MessageHeader').body, '_FORMAT'))
    if not isinstance(fmt, str):
        raise RuntimeError('gen_c10: MessageHeader._FORMAT is not a string literal')
    header_size = struct.calcsize(fmt)
    read_size = _const(_assign(fast.body, '_READ_SIZE_BYTES'))
    max_msg = _const(_assign(fast.body, '_MAX_FE_MSG_SIZE_BYTES'))
    # default of num_messages_to_read in MixedLogReader._populate_available_source_ids
    cls = _class(rdr, 'MixedLogReader')
    fn = [n for n in cls.body if isinstance(n, ast.FunctionDef) and n.name == '_populate_available_source_ids']
    if len(fn) != 1:
        raise RuntimeError('gen_c10: _populate_available_source_ids not found')
    args = fn[0].args
    names = [a.arg for a in args.args]
    if 'num_messages_to_read' not in names or not args.defaults:
        raise RuntimeError('gen_c10: num_messages_to_read default not found')
    dflt = args.defaults[names.index('num_messages_to_read') - (len(names) - len(args.defaults))]
    nread = _const(dflt)
    # the constructor must call it without overriding the default
    calls = [n for n in ast.walk(cls) if isinstance(n, ast.Call) and isinstance(n.func, ast.Attribute)
             and n.func.attr == '_populate_available_source_ids']
    if len(calls) != 1 or calls[0].args or calls[0].keywords:
        raise RuntimeError('gen_c10: _populate_available_source_ids is not called exactly once with its defaults')
    for k, v in (('header_size', header_size), ('read_size', read_size), ('max_msg', max_msg), ('nread', nread)):
        if not isinstance(v, int) or v <= 0:
            raise RuntimeError('gen_c10: %s = %r is not a positive integer' % (k, v))
    text = vf.gen_header([DEFS, FAST, READER]) + 'From Coq Require Import ZArith.\nOpen Scope Z_scope.\n'
    text += '(* struct.calcsize(%r) *)\nDefinition header_size : Z := %d.\n' % (fmt, header_size)
    text += 'Definition read_size_bytes : Z := %d.\nDefinition max_fe_msg_size_bytes : Z := %d.\n' % (read_size, max_msg)
    text += 'Definition populate_count : nat := %d.\n' % nread
    vf.write_if_changed(os.path.join(vf.THEORIES, 'Generated', 'LogReaderConsts.v'), text)
    return {'header_size': header_size, 'read_size_bytes': read_size, 'max_fe_msg_size_bytes': max_msg, 'populate_count': nread}


if __name__ == '__main__':
    print(generate())
