"""Generated/LogReaderConsts.v (used by C10 and C11): numeric constants of the reader / indexer that the model
depends on.  They are obtained by EVALUATING the working tree (the package is imported in a subprocess with
PYTHONPATH=<repo>/python), never by matching source text: header size = MessageHeader.calcsize(), the indexer's
_READ_SIZE_BYTES / _MAX_FE_MSG_SIZE_BYTES, and the sample size of MixedLogReader._populate_available_source_ids (the
default of its parameter, or the literal the constructor passes if it passes one — found with ast).  Fail closed: a
value that cannot be obtained or is not a positive integer raises (the property modules turn that into a failed
obligation and continue on the last known constants)."""
import ast, json, os, subprocess, sys
sys.path.insert(0, os.path.join(os.path.dirname(__file__), '..', 'lib'))
import vf

READER = 'python/fusion_engine_client/parsers/mixed_log_reader.py'
SRC = ['python/fusion_engine_client/messages/defs.py', 'python/fusion_engine_client/parsers/fast_indexer.py', READER]

PROBE = r'''
import inspect, json, warnings
warnings.filterwarnings('ignore')
from fusion_engine_client.messages import MessageHeader
from fusion_engine_client.parsers import fast_indexer
from fusion_engine_client.parsers.mixed_log_reader import MixedLogReader
sig = inspect.signature(MixedLogReader._populate_available_source_ids)
params = [p for p in sig.parameters.values() if p.name != 'self']
print('CONSTS ' + json.dumps({
    'header_size': int(MessageHeader.calcsize()),
    'read_size_bytes': int(fast_indexer._READ_SIZE_BYTES),
    'max_fe_msg_size_bytes': int(fast_indexer._MAX_FE_MSG_SIZE_BYTES),
    'populate_default': (int(params[0].default) if params and params[0].default is not inspect.Parameter.empty else None),
    'populate_param': params[0].name if params else None}))
'''


def _call_override():
    """the literal int the constructor passes to _populate_available_source_ids, None if it passes nothing;
    raises if the call cannot be understood"""
    tree = ast.parse(vf.repo_file(READER))
    calls = [n for n in ast.walk(tree) if isinstance(n, ast.Call) and isinstance(n.func, ast.Attribute)
             and n.func.attr == '_populate_available_source_ids']
    if not calls:
        raise RuntimeError('gen_c10: _populate_available_source_ids is never called')
    vals = set()
    for c in calls:
        args = list(c.args) + [k.value for k in c.keywords]
        if not args:
            vals.add(None)
        elif len(args) == 1 and isinstance(args[0], ast.Constant) and isinstance(args[0].value, int):
            vals.add(int(args[0].value))
        else:
            raise RuntimeError('gen_c10: cannot evaluate the argument of _populate_available_source_ids(...)')
    if len(vals) != 1:
        raise RuntimeError('gen_c10: _populate_available_source_ids is called with different sample sizes')
    return vals.pop()


def generate():
    rc, so, se = vf.sh([vf.PY, '-c', PROBE], env=vf.IMPL_ENV, timeout=120)
    line = [l for l in so.split('\n') if l.startswith('CONSTS ')]
    if rc != 0 or not line:
        raise RuntimeError('gen_c10: probing the working tree failed: %s' % (se[-600:],))
    v = json.loads(line[0][7:])
    override = _call_override()
    nread = override if override is not None else v['populate_default']
    consts = {'header_size': v['header_size'], 'read_size_bytes': v['read_size_bytes'],
              'max_fe_msg_size_bytes': v['max_fe_msg_size_bytes'], 'populate_count': nread}
    for k, x in consts.items():
        if not isinstance(x, int) or isinstance(x, bool) or x <= 0:
            raise RuntimeError('gen_c10: %s = %r is not a positive integer' % (k, x))
    text = vf.gen_header(SRC) + 'From Coq Require Import ZArith.\nOpen Scope Z_scope.\n'
    text += '(* MessageHeader.calcsize() *)\nDefinition header_size : Z := %d.\n' % consts['header_size']
    text += 'Definition read_size_bytes : Z := %d.\nDefinition max_fe_msg_size_bytes : Z := %d.\n' % (consts['read_size_bytes'], consts['max_fe_msg_size_bytes'])
    text += 'Definition populate_count : nat := %d.\n' % consts['populate_count']
    vf.write_if_changed(os.path.join(vf.THEORIES, 'Generated', 'LogReaderConsts.v'), text)
    return consts


if __name__ == '__main__':
    print(generate())
