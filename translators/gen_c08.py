"""Generated/FastIndexerConsts.v for C08: the column widths of the indexer's private record
(_RAW_DTYPE_WITH_SIZE in parsers/fast_indexer.py), of FileIndex._RAW_DTYPE / _DTYPE (parsers/file_index.py) and
Timestamp._INVALID (messages/timestamp.py).  Fail closed: an unexpected field list or type raises."""
import ast, os, sys
sys.path.insert(0, os.path.join(os.path.dirname(__file__), '..', 'lib'))
import vf
from translators import gen_fe

FI = 'python/fusion_engine_client/parsers/fast_indexer.py'
FX = 'python/fusion_engine_client/parsers/file_index.py'
TS = 'python/fusion_engine_client/messages/timestamp.py'
UNSIGNED = {'<u1': 8, '<u2': 16, '<u4': 32, '<u8': 64}


def _dtype_fields(node, where):
    """np.dtype([('a','<u4'), ...]) -> [('a','<u4'), ...]"""
    if not (isinstance(node, ast.Call) and isinstance(node.func, ast.Attribute) and node.func.attr == 'dtype'
            and len(node.args) == 1 and isinstance(node.args[0], ast.List)):
        raise RuntimeError('gen_c08: %s is not np.dtype([...])' % where)
    out = []
    for e in node.args[0].elts:
        if not (isinstance(e, ast.Tuple) and len(e.elts) == 2 and all(isinstance(x, ast.Constant) and isinstance(x.value, str) for x in e.elts)):
            raise RuntimeError('gen_c08: %s has a field that is not (name, type)' % where)
        out.append((e.elts[0].value, e.elts[1].value))
    return out


def _find_assign(tree, name, cls=None):
    body = tree.body
    if cls:
        body = next((n.body for n in tree.body if isinstance(n, ast.ClassDef) and n.name == cls), None)
        if body is None:
            raise RuntimeError('gen_c08: class %s not found' % cls)
    for st in body:
        if isinstance(st, ast.Assign) and len(st.targets) == 1 and isinstance(st.targets[0], ast.Name) and st.targets[0].id == name:
            return st.value
    raise RuntimeError('gen_c08: %s not found' % name)


def generate():
    with_size = _dtype_fields(_find_assign(ast.parse(vf.repo_file(FI)), '_RAW_DTYPE_WITH_SIZE'), '_RAW_DTYPE_WITH_SIZE')
    fx = ast.parse(vf.repo_file(FX))
    raw = _dtype_fields(_find_assign(fx, '_RAW_DTYPE', 'FileIndex'), 'FileIndex._RAW_DTYPE')
    full = _dtype_fields(_find_assign(fx, '_DTYPE', 'FileIndex'), 'FileIndex._DTYPE')
    if [n for n, _ in with_size] != ['int', 'type', 'offset', 'size'] or any(t not in UNSIGNED for _, t in with_size):
        raise RuntimeError('gen_c08: _RAW_DTYPE_WITH_SIZE %r is not (int,type,offset,size) of little-endian unsigned ints' % (with_size,))
    if raw != with_size[:3]:
        raise RuntimeError('gen_c08: FileIndex._RAW_DTYPE %r is not the first three columns of _RAW_DTYPE_WITH_SIZE' % (raw,))
    if full != [('time', '<f8'), ('type', raw[1][1]), ('offset', raw[2][1]), ('message_index', '<u8')]:
        raise RuntimeError('gen_c08: FileIndex._DTYPE %r is not (time f8, type, offset, message_index u8)' % (full,))
    inv = gen_fe.class_consts(TS, 'Timestamp', ['_INVALID'])['_INVALID']
    bits = {n: UNSIGNED[t] for n, t in with_size}
    if inv != (1 << bits['int']) - 1:
        raise RuntimeError('gen_c08: Timestamp._INVALID %r is not the all-ones value of the int column (%d bits)' % (inv, bits['int']))
    vals = {'FI_TIME_INVALID': inv, 'FI_INT_MAX': (1 << bits['int']) - 1, 'FI_TYPE_MAX': (1 << bits['type']) - 1,
            'FI_OFFSET_MAX': (1 << bits['offset']) - 1, 'FI_SIZE_MAX': (1 << bits['size']) - 1}
    t = vf.gen_header([FI, FX, TS]) + 'From Coq Require Import NArith.\nOpen Scope N_scope.\n'
    for k, v in vals.items():
        t += 'Definition %s : N := %d.\n' % (k, v)
    vf.write_if_changed(os.path.join(vf.THEORIES, 'Generated', 'FastIndexerConsts.v'), t)
    return vals


if __name__ == '__main__':
    print(generate())
