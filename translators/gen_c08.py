"""Generated/FastIndexerConsts.v for C08: the integer ranges of the index columns and the "no time" marker.

Nothing here matches source text or private names.  The working tree is *evaluated* in a subprocess (vf.IMPL_ENV):
  * FI_TYPE_MAX / FI_OFFSET_MAX: from the dtypes of the arrays a FileIndex built by fast_generate_index() returns
    (public observables); the time column must be binary64 and the ordinal column an unsigned 64-bit integer.
  * FI_TIME_INVALID: Timestamp._INVALID if the class has it; cross-checked against / replaced by behaviour: the first
    32-bit word of a packed NaN Timestamp.
  * FI_INT_MAX / FI_SIZE_MAX (the indexer's private per-worker record): the module namespace of fast_indexer is
    searched for a structured numpy dtype *of that shape* — unsigned integer fields (int, type, offset, size),
    whatever the variable is called.  If there is none (the record was refactored away) the widths are derived
    from behaviour: files with one CRC-valid message of 65535 / 65536 / READ+MAX bytes and stamps of
    0xFFFFFFFE s are indexed; an OverflowError at 65536 means a 16-bit size column, no error up to the largest
    message a block read can hold means "every acceptable size fits" (24 + _MAX_EXPECTED_SIZE_BYTES); anything else
    is not of the modelled shape and the translator fails closed.
"""
import json, os, subprocess, sys
sys.path.insert(0, os.path.join(os.path.dirname(__file__), '..', 'lib'))
import vf

PROBE = r'''
import json, math, os, struct, sys, tempfile, zlib
import numpy as np
from fusion_engine_client.messages import MessageHeader, Timestamp
from fusion_engine_client.parsers import fast_indexer as fi

def msg(mtype, payload, ver=0):
    body = struct.pack('<BBHIII', 2, ver, mtype, 0, len(payload), 0xFFFFFFFF) + payload
    return b'.1' + struct.pack('<HI', 0, zlib.crc32(body)) + body

def index(data):
    d = tempfile.mkdtemp(prefix='gen_c08_')
    p = os.path.join(d, 'probe.p1log')
    with open(p, 'wb') as f:
        f.write(data)
    try:
        return fi.fast_generate_index(p, force_reindex=True, save_index=False, num_threads=1)
    finally:
        os.remove(p); os.rmdir(d)

out = {}
# returned arrays (public)
idx = index(msg(20000, b'\x00' * 8) + b'\x00' * 10)
if len(idx) != 1:
    raise SystemExit('gen_c08: probe file with one message gives %d entries' % len(idx))
out['result_dtypes'] = {k: np.dtype(getattr(idx, k).dtype).str for k in ('time', 'type', 'offset', 'message_index')}
# "no time" marker
nan_word = struct.unpack('<II', Timestamp().pack(return_buffer=True))[0]
out['nan_word'] = int(nan_word)
out['attr_invalid'] = int(getattr(Timestamp, '_INVALID')) if hasattr(Timestamp, '_INVALID') else None
# private per-worker record, by shape
found = []
for name, v in vars(fi).items():
    if isinstance(v, np.dtype) and v.names == ('int', 'type', 'offset', 'size'):
        found.append({n: v[n].str for n in v.names})
out['sized_dtypes'] = found
# behaviour of the integer columns
def outcome(data):
    try:
        r = index(data)
        return ['ok', len(r)]
    except OverflowError as e:
        return ['OverflowError', str(e)[:80]]
rd = int(getattr(fi, '_READ_SIZE_BYTES', getattr(fi, 'READ_SIZE_BYTES', 0)))
mx = int(getattr(fi, '_MAX_FE_MSG_SIZE_BYTES', getattr(fi, 'MAX_FE_MSG_SIZE_BYTES', 0)))
out['size_probe'] = {str(n): outcome(msg(20000, b'\x55' * (n - 24)) + b'\x00' * 10) for n in sorted({65535, 65536, rd + mx}) if n >= 24}
print(json.dumps(out))
'''

UNSIGNED = {'<u1': 8, '|u1': 8, '<u2': 16, '<u4': 32, '<u8': 64}


def probe():
    p = subprocess.run([vf.PY, '-c', PROBE], capture_output=True, text=True, env=vf.IMPL_ENV, timeout=300)
    lines = [l for l in p.stdout.split('\n') if l.startswith('{')]
    if p.returncode != 0 or not lines:
        err = '\n'.join(l for l in (p.stderr + p.stdout).split('\n') if l.strip() and 'leap' not in l.lower())
        raise RuntimeError('gen_c08: probe of the working tree failed: %s' % err[-800:])
    return json.loads(lines[-1])


def generate():
    r = probe()
    dt = r['result_dtypes']
    if dt['time'] != '<f8' or dt['message_index'] != '<u8' or dt['type'] not in UNSIGNED or dt['offset'] not in UNSIGNED:
        raise RuntimeError('gen_c08: returned index arrays %r are not (time f8, type uN, offset uN, message_index u8)' % (dt,))
    inv = r['nan_word']
    if r['attr_invalid'] is not None and r['attr_invalid'] != inv:
        raise RuntimeError('gen_c08: Timestamp._INVALID (%r) is not the word a NaN Timestamp packs to (%r)' % (r['attr_invalid'], inv))
    how = {}
    sized = r['sized_dtypes']
    if len(sized) == 1 and all(t in UNSIGNED for t in sized[0].values()):
        bits = {k: UNSIGNED[t] for k, t in sized[0].items()}
        int_max, size_max = (1 << bits['int']) - 1, (1 << bits['size']) - 1
        how['private_record'] = 'dtype found in the module namespace by shape: %r' % (sized[0],)
        if bits['type'] != UNSIGNED[dt['type']] or bits['offset'] != UNSIGNED[dt['offset']]:
            raise RuntimeError('gen_c08: per-worker record %r and returned arrays %r disagree on type/offset widths' % (sized[0], dt))
    elif len(sized) == 0:
        sp = r['size_probe']
        big = [k for k in sp if int(k) > 65535]
        if sp.get('65535', ['?'])[0] != 'ok':
            raise RuntimeError('gen_c08: a 65535-byte message is not indexed: %r' % (sp,))
        if all(sp[k][0] == 'OverflowError' for k in big):
            size_max = 65535
        elif all(sp[k][0] == 'ok' for k in big):
            size_max = 24 + _max_expected()
        else:
            raise RuntimeError('gen_c08: size behaviour %r is neither a 16-bit column nor "every size fits"' % (sp,))
        int_max = (1 << 32) - 1
        if inv != int_max:
            raise RuntimeError('gen_c08: no-time marker %r is not 2^32-1' % inv)
        how['private_record'] = 'no (int,type,offset,size) dtype in the module; widths from behaviour: %r' % (sp,)
    else:
        raise RuntimeError('gen_c08: %d candidate per-worker record dtypes: %r' % (len(sized), sized))
    if inv != int_max:
        raise RuntimeError('gen_c08: no-time marker %r is not the all-ones value of the int column (max %r)' % (inv, int_max))
    vals = {'FI_TIME_INVALID': inv, 'FI_INT_MAX': int_max, 'FI_TYPE_MAX': (1 << UNSIGNED[dt['type']]) - 1,
            'FI_OFFSET_MAX': (1 << UNSIGNED[dt['offset']]) - 1, 'FI_SIZE_MAX': size_max}
    t = ('(* GENERATED on every run by /verif/translators/gen_c08.py by evaluating the working tree (import + behaviour probes) — do not edit. *)\n'
         'From Coq Require Import NArith.\nOpen Scope N_scope.\n')
    for k, v in vals.items():
        t += 'Definition %s : N := %d.\n' % (k, v)
    vf.write_if_changed(os.path.join(vf.THEORIES, 'Generated', 'FastIndexerConsts.v'), t)
    return dict(vals, **how)


def _max_expected():
    p = subprocess.run([vf.PY, '-c', 'from fusion_engine_client.messages import MessageHeader as H\n'
                        'print(int(getattr(H, "_MAX_EXPECTED_SIZE_BYTES", getattr(H, "MAX_EXPECTED_SIZE_BYTES", -1))))'],
                       capture_output=True, text=True, env=vf.IMPL_ENV, timeout=120)
    v = int(p.stdout.strip().split('\n')[-1])
    if v <= 0:
        raise RuntimeError('gen_c08: cannot read the payload size limit')
    return v


if __name__ == '__main__':
    print(generate())
