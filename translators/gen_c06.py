"""Generated/EncoderConsts.v for C06: the constants the encoder / CRC-validation models depend on.
  python/fusion_engine_client/messages/defs.py   MessageHeader.__init__ defaults (protocol_version, source id),
                                                 the byte at which calculate_crc / validate_crc start the CRC
  python/fusion_engine_client/parsers/encoder.py the statements of encode_message and how the counter advances
  src/.../messages/crc.cc, crc.h, defs.h         offsetof(protocol_version), sizeof(MessageHeader), field offsets
                                                 (from the compiler), the shape of CalculateCRC(buffer)/IsValid
Fail closed: anything not recognised raises."""
import ast, hashlib, os, re, subprocess, sys
sys.path.insert(0, os.path.join(os.path.dirname(__file__), '..', 'lib'))
import vf

DEFS = 'python/fusion_engine_client/messages/defs.py'
ENC = 'python/fusion_engine_client/parsers/encoder.py'
CRC_CC = 'src/point_one/fusion_engine/messages/crc.cc'
CRC_H = 'src/point_one/fusion_engine/messages/crc.h'
DEFS_H = 'src/point_one/fusion_engine/messages/defs.h'


def _method(tree, cls, name):
    for n in ast.walk(tree):
        if isinstance(n, ast.ClassDef) and n.name == cls:
            for st in n.body:
                if isinstance(st, ast.FunctionDef) and st.name == name:
                    return st
    raise RuntimeError('gen_c06: %s.%s not found' % (cls, name))


def _norm(node):
    return ast.unparse(node).strip()


def py_consts():
    tree = ast.parse(vf.repo_file(DEFS))
    init = _method(tree, 'MessageHeader', '__init__')
    defaults = {}
    for st in init.body:
        tgt = val = None
        if isinstance(st, ast.AnnAssign):
            tgt, val = st.target, st.value
        elif isinstance(st, ast.Assign) and len(st.targets) == 1:
            tgt, val = st.targets[0], st.value
        if tgt is not None and isinstance(tgt, ast.Attribute) and _norm(tgt.value) == 'self':
            defaults[tgt.attr] = _norm(val)
    want = {'reserved': '0', 'crc': '0', 'sequence_number': '0', 'message_version': '0', 'payload_size_bytes': '0',
            'message_type': 'message_type', 'source_identifier': 'MessageHeader.INVALID_SOURCE_ID'}
    for k, v in want.items():
        if defaults.get(k) != v:
            raise RuntimeError('gen_c06: MessageHeader.__init__ default of %s is %r, the model transcribes %r' % (k, defaults.get(k), v))
    try:
        proto = int(defaults['protocol_version'], 0)
    except Exception:
        raise RuntimeError('gen_c06: protocol_version default not a literal: %r' % defaults.get('protocol_version'))
    src = vf.repo_file(DEFS)
    m = re.search(r'INVALID_SOURCE_ID\s*=\s*(0[xX][0-9a-fA-F]+|\d+)', src)
    if not m:
        raise RuntimeError('gen_c06: INVALID_SOURCE_ID not recognised')
    # the byte at which calculate_crc / validate_crc start the CRC: the constant lower bound of the slice handed to crc32
    def crc_slices(fn):
        out = []
        for n in ast.walk(fn):
            if isinstance(n, ast.Call) and _norm(n.func) == 'crc32' and n.args and isinstance(n.args[0], ast.Subscript) \
                    and isinstance(n.args[0].slice, ast.Slice):
                out.append(n.args[0].slice)
        return out
    cs = crc_slices(_method(tree, 'MessageHeader', 'calculate_crc'))
    if len(cs) != 1 or cs[0].upper is not None or not isinstance(cs[0].lower, ast.Constant) or not isinstance(cs[0].lower.value, int):
        raise RuntimeError('gen_c06: calculate_crc: expected one crc32(<packed header>[K:]) call, got %r' % [_norm(c) for c in cs])
    m1 = cs[0].lower.value
    vs = crc_slices(_method(tree, 'MessageHeader', 'validate_crc'))
    lo = vs[0].lower if len(vs) == 1 else None
    if not (isinstance(lo, ast.BinOp) and isinstance(lo.op, ast.Add) and _norm(lo.left) == 'offset' and isinstance(lo.right, ast.Constant)
            and isinstance(lo.right.value, int) and vs[0].upper is not None):
        raise RuntimeError('gen_c06: validate_crc: expected one crc32(buffer[offset + K:<end>]) call, got %r' % [_norm(c) for c in vs])
    m2 = lo.right.value
    if not re.search(r'^from zlib import crc32$', src, re.M):
        raise RuntimeError('gen_c06: crc32 is not zlib.crc32 in defs.py')
    return {'PROTOCOL_VERSION': proto, 'INVALID_SOURCE_ID': int(m.group(1), 0),
            'PY_CALC_CRC_START': m1, 'PY_VALIDATE_CRC_START': m2}


def enc_consts():
    """how encode_message advances self.sequence_number (everything else about it is held by correspondence)"""
    tree = ast.parse(vf.repo_file(ENC))
    fn = _method(tree, 'FusionEngineEncoder', 'encode_message')
    ups = []
    for n in ast.walk(fn):
        if isinstance(n, ast.AugAssign) and _norm(n.target) == 'self.sequence_number':
            ups.append(n)
        elif isinstance(n, ast.Assign) and len(n.targets) == 1 and _norm(n.targets[0]) == 'self.sequence_number':
            ups.append(n)
    if len(ups) != 1:
        raise RuntimeError('gen_c06: encode_message: expected exactly one update of self.sequence_number, found %d' % len(ups))
    u = ups[0]
    if isinstance(u, ast.AugAssign):
        if not (isinstance(u.op, ast.Add) and isinstance(u.value, ast.Constant) and u.value.value == 1):
            raise RuntimeError('gen_c06: sequence counter update not recognised: %r' % _norm(u))
        mod = 0          # Python int, never reduced
    else:
        v = u.value
        ok = isinstance(v, ast.BinOp) and isinstance(v.op, (ast.Mod, ast.BitAnd)) and _norm(v.left) in ('self.sequence_number + 1', '1 + self.sequence_number')
        if not ok:
            raise RuntimeError('gen_c06: sequence counter update not recognised: %r' % _norm(u))
        try:
            k = eval(compile(ast.Expression(v.right), '<gen_c06>', 'eval'), {'__builtins__': {}})
        except Exception:
            raise RuntimeError('gen_c06: sequence counter modulus is not a constant expression: %r' % _norm(v.right))
        if isinstance(v.op, ast.BitAnd):
            if not isinstance(k, int) or k <= 0 or k & (k + 1):
                raise RuntimeError('gen_c06: sequence mask %r is not 2^k-1' % (k,))
            mod = k + 1
        else:
            if not isinstance(k, int) or k <= 0:
                raise RuntimeError('gen_c06: sequence modulus %r not a positive integer' % (k,))
            mod = k
    return {'ENC_SEQ_MODULUS': mod}


PROBE = r'''
#include <cstddef>
#include <cstdio>
#include "point_one/fusion_engine/messages/defs.h"
using point_one::fusion_engine::messages::MessageHeader;
int main() {
  printf("%zu %zu %zu %zu %zu %zu %zu %zu\n", sizeof(MessageHeader), offsetof(MessageHeader, protocol_version),
         offsetof(MessageHeader, crc), offsetof(MessageHeader, payload_size_bytes), sizeof(size_t) * 8,
         sizeof(MessageHeader::crc), sizeof(MessageHeader::payload_size_bytes), (size_t)MessageHeader::MAX_MESSAGE_SIZE_BYTES);
  unsigned x = 1; printf("%d\n", (int)*(unsigned char*)&x);
  return 0;
}
'''


def cpp_consts():
    cc = re.sub(r'\s+', ' ', re.sub(r'//[^\n]*', '', vf.repo_file(CRC_CC)))
    m = re.findall(r'offsetof\( ?MessageHeader, ?(\w+) ?\)', cc)
    if m != ['protocol_version']:
        raise RuntimeError('gen_c06: CalculateCRC(buffer) is expected to start at offsetof(MessageHeader, protocol_version); found %r' % m)
    if 'sizeof(MessageHeader)' not in cc or 'payload_size_bytes' not in cc:
        raise RuntimeError('gen_c06: CalculateCRC(buffer) size computation not recognised')
    h = re.sub(r'\s+', ' ', re.sub(r'//[^\n]*', '', vf.repo_file(CRC_H)))
    if not re.search(r'sizeof\(MessageHeader\) \+ header\.payload_size_bytes > MessageHeader::MAX_MESSAGE_SIZE_BYTES', h) \
            or not re.search(r'header\.crc == CalculateCRC\(buffer\)|CalculateCRC\(buffer\) == header\.crc', h):
        raise RuntimeError('gen_c06: IsValid() in crc.h: size test / CRC comparison not recognised')
    if not re.search(r'uint32_t initial_value = 0\)', h):
        raise RuntimeError('gen_c06: default initial_value of CalculateCRC not 0')
    key = hashlib.sha1((PROBE + vf.repo_file(DEFS_H) + vf.REPO).encode()).hexdigest()[:16]
    d = os.path.join(vf.BUILD, 'cpp')
    os.makedirs(d, exist_ok=True)
    cache = os.path.join(d, 'c06_probe_%s.txt' % key)
    if not os.path.exists(cache):
        src = os.path.join(d, 'c06_probe_%d.cc' % os.getpid())
        exe = src[:-3]
        with open(src, 'w') as f:
            f.write(PROBE)
        rc, so, se = vf.sh('clang++-14 -std=c++14 -I%s/src %s -o %s && %s' % (vf.REPO, src, exe, exe), timeout=120)
        for p in (src, exe):
            if os.path.exists(p):
                os.remove(p)
        if rc != 0:
            raise RuntimeError('gen_c06: layout probe failed: ' + se[-1500:])
        vf.write_if_changed(cache, so)
    lines = open(cache).read().split('\n')
    v = [int(x) for x in lines[0].split()]
    if len(v) != 8 or v[5] != 4 or v[6] != 4 or int(lines[1]) != 1:
        raise RuntimeError('gen_c06: unexpected layout probe output %r (crc / payload_size_bytes must be 4-byte fields on a little-endian target)' % lines)
    return {'CPP_HEADER_SIZE': v[0], 'CPP_CRC_OFFSET': v[1], 'CPP_OFF_CRC': v[2], 'CPP_OFF_PSIZE': v[3], 'CPP_SIZE_T_BITS': v[4],
            'CPP_MAX_MESSAGE_SIZE_PROBED': v[7]}


def generate():
    vals = {}
    vals.update(py_consts())
    vals.update(enc_consts())
    vals.update(cpp_consts())
    t = vf.gen_header([DEFS, ENC, CRC_CC, CRC_H, DEFS_H + ' (layout via clang++-14)'])
    t += 'From Coq Require Import NArith.\nOpen Scope N_scope.\n'
    nat_keys = ('PY_CALC_CRC_START', 'PY_VALIDATE_CRC_START', 'CPP_HEADER_SIZE', 'CPP_CRC_OFFSET', 'CPP_OFF_CRC', 'CPP_OFF_PSIZE')
    for k, v in vals.items():
        if k in nat_keys:
            t += 'Definition %s : nat := %d.\n' % (k, v)
        else:
            t += 'Definition %s : N := %d.\n' % (k, v)
    t += '(* ENC_SEQ_MODULUS = 0 means: the counter is a Python int that is never reduced *)\n'
    vf.write_if_changed(os.path.join(vf.THEORIES, 'Generated', 'EncoderConsts.v'), t)
    return vals


if __name__ == '__main__':
    print(generate())
