"""Generated/EncoderConsts.v for C06: the constants the encoder / CRC-validation models depend on.

They are obtained by *evaluating* the working tree, never by matching its text, so a behaviour-preserving rewrite
(named constants, renamed locals, reordered statements, early returns) leaves them unchanged:
  * Python (subprocess, vf.IMPL_ENV): MessageHeader() defaults are read from a fresh object; the byte at which
    calculate_crc() starts the CRC is the unique K for which its result equals zlib.crc32(packed_header[K:] + payload)
    on probe headers (random fields, random stale crc); the byte at which validate_crc() starts is the unique K for
    which a header whose crc field is zlib.crc32(buffer[off+K : off+24+size]) is accepted (offsets 0 and 5);
    the sequence-counter rule of FusionEngineEncoder is observed by presetting sequence_number around 2^8, 2^16,
    2^31, 2^32 and reading it back after one encode_message (modulus M if it always reads (s+1) mod M, 0 if it
    always reads s+1).
  * C++ (generated program compiled against the headers and linked with crc.cc): sizeof / offsetof of the public
    header fields, size_t width, endianness; the byte at which CalculateCRC(buffer) starts is the unique K for which
    it equals CalculateCRC(buffer + K, 24 - K + size, 0); IsValid() must accept a correct message of exactly
    MAX_MESSAGE_SIZE_BYTES and refuse one of MAX_MESSAGE_SIZE_BYTES + 1, accept iff the stored CRC matches otherwise;
    the default initial_value must behave as 0.
Fail closed (raise) only when the observed behaviour is not of the modelled shape."""
import hashlib, json, os, sys
sys.path.insert(0, os.path.join(os.path.dirname(__file__), '..', 'lib'))
import vf

PY_PROBE = r'''
import json, random, struct, sys, zlib, logging
logging.disable(logging.CRITICAL)
from fusion_engine_client.messages.defs import MessageHeader
from fusion_engine_client.parsers.encoder import FusionEngineEncoder
rng = random.Random(606)
out = {}
h = MessageHeader()
out['defaults'] = {k: int(getattr(h, k)) for k in ('reserved', 'crc', 'protocol_version', 'sequence_number', 'message_version',
                                                   'payload_size_bytes', 'source_identifier')}
out['default_type'] = int(h.message_type)
out['typed'] = int(MessageHeader(12345).message_type)
out['size'] = int(MessageHeader.calcsize())

def fresh():
    h = MessageHeader(rng.randrange(65536))
    h.message_version = rng.randrange(256); h.sequence_number = rng.getrandbits(32); h.source_identifier = rng.getrandbits(32)
    h.protocol_version = rng.randrange(256); h.crc = rng.getrandbits(32)
    return h

# calculate_crc: which K
cands = set(range(out['size'] + 1))
for _ in range(12):
    h = fresh(); p = bytes(rng.getrandbits(8) for _ in range(rng.choice([0, 1, 5, 40])))
    h.payload_size_bytes = len(p)
    pre = bytes(h.pack())
    got = h.calculate_crc(p)
    if h.crc != got or h.payload_size_bytes != len(p):
        raise SystemExit('gen_c06: calculate_crc does not store crc / payload_size_bytes')
    cands &= {K for K in cands if zlib.crc32(pre[K:] + p) == got}
out['calc_K'] = sorted(cands)

# validate_crc: which K, at offsets 0 and 5
cands = set(range(out['size'] + 1))
for off in (0, 5, 0, 5):
    h = fresh(); p = bytes(rng.getrandbits(8) for _ in range(rng.choice([0, 3, 17])))
    msg = bytes(h.pack(payload=p))
    buf = bytes(rng.getrandbits(8) for _ in range(off)) + msg + bytes(rng.getrandbits(8) for _ in range(3))
    ok = set()
    for K in cands:
        g = MessageHeader(); g.unpack(msg, warn_on_unrecognized=False)
        g.crc = zlib.crc32(buf[off + K:off + len(msg)])
        try:
            g.validate_crc(buf, off); ok.add(K)
        except ValueError:
            pass
    cands &= ok
out['valid_K'] = sorted(cands)

# the sequence counter
class Raw:
    def get_type(self): return 60000
    def get_version(self): return 0
    def pack(self, *a, **k): return b'\x01'
enc = FusionEngineEncoder()
out['seq_init'] = int(enc.sequence_number)
obs = []
for s in (0, 1, 254, 255, 256, 65534, 65535, 65536, 2**31 - 1, 2**31, 2**32 - 2, 2**32 - 1):
    enc = FusionEngineEncoder(); enc.sequence_number = s
    try:
        data = bytes(enc.encode_message(Raw(), 0))
        carried = struct.unpack_from('<I', data, 12)[0]
    except Exception as e:
        carried = 'ERR:' + type(e).__name__
    obs.append([s, carried, int(enc.sequence_number)])
out['seq_obs'] = obs
print(json.dumps(out))
'''

CPP_PROBE = r'''
#include <cstddef>
#include <cstdint>
#include <cstdio>
#include <cstdlib>
#include <cstring>
#include <vector>
#include "point_one/fusion_engine/messages/crc.h"
#include "point_one/fusion_engine/messages/defs.h"
using namespace point_one::fusion_engine::messages;
static uint32_t rnd() { static uint32_t s = 606; s = s * 1664525u + 1013904223u; return s >> 8; }
static std::vector<uint8_t> message(uint32_t psize, size_t extra = 0) {   // correct message of 24 + psize bytes
  std::vector<uint8_t> v(sizeof(MessageHeader) + psize + extra);
  for (auto& b : v) b = (uint8_t)rnd();
  MessageHeader* h = reinterpret_cast<MessageHeader*>(v.data());
  h->payload_size_bytes = psize;
  h->crc = CalculateCRC(v.data());
  return v;
}
int main() {
  unsigned x = 1;
  printf("L %zu %zu %zu %zu %zu %zu %zu %d %llu\n", sizeof(MessageHeader), offsetof(MessageHeader, crc),
         offsetof(MessageHeader, payload_size_bytes), sizeof(size_t) * 8, sizeof(MessageHeader::crc),
         sizeof(MessageHeader::payload_size_bytes), offsetof(MessageHeader, protocol_version), (int)*(unsigned char*)&x,
         (unsigned long long)MessageHeader::MAX_MESSAGE_SIZE_BYTES);
  // K: CalculateCRC(buffer) == CalculateCRC(buffer + K, 24 - K + psize, 0) on every probe
  printf("K");
  for (size_t K = 0; K <= sizeof(MessageHeader); ++K) {
    bool all = true;
    for (int t = 0; t < 8; ++t) {
      auto v = message((uint32_t)(t * 7 % 23));
      uint32_t ps = reinterpret_cast<MessageHeader*>(v.data())->payload_size_bytes;
      if (CalculateCRC(v.data()) != CalculateCRC(v.data() + K, sizeof(MessageHeader) - K + ps, 0)) all = false;
    }
    if (all) printf(" %zu", K);
  }
  printf("\n");
  // default initial value behaves as 0
  auto d = message(9);
  printf("D %d\n", CalculateCRC(d.data(), d.size()) == CalculateCRC(d.data(), d.size(), 0) ? 1 : 0);
  // IsValid: correct -> true, any single corrupted byte of crc field / region -> false
  int ok = 1;
  for (int t = 0; t < 6; ++t) {
    auto v = message((uint32_t)(t * 5));
    if (!IsValid(v.data())) ok = 0;
    size_t i = 4 + rnd() % (v.size() - 4);
    if (i >= 16 && i < 20) i = 20;
    v[i] ^= 0x10;
    if (IsValid(v.data())) ok = 0;
  }
  printf("V %d\n", ok);
  // size limit: exactly MAX accepted, MAX + 1 refused although its CRC is correct
  size_t mx = MessageHeader::MAX_MESSAGE_SIZE_BYTES;
  auto a = message((uint32_t)(mx - sizeof(MessageHeader)));
  auto b = message((uint32_t)(mx - sizeof(MessageHeader) + 1));
  printf("M %d %d\n", IsValid(a.data()) ? 1 : 0, IsValid(b.data()) ? 1 : 0);
  return 0;
}
'''


def _hash_files(paths):
    h = hashlib.sha1()
    for p in paths:
        h.update(open(p, 'rb').read())
    return h.hexdigest()[:16]


def py_consts():
    rc, so, se = vf.sh([vf.PY, '-c', PY_PROBE], env=vf.IMPL_ENV, timeout=180)
    if rc != 0:
        raise RuntimeError('gen_c06: the Python probe failed: ' + (so + se)[-800:])
    o = json.loads(so.strip().split('\n')[-1])
    d = o['defaults']
    want0 = {k: d[k] for k in ('reserved', 'crc', 'sequence_number', 'message_version', 'payload_size_bytes')}
    if any(v != 0 for v in want0.values()) or o['typed'] != 12345 or o['size'] != 24:
        raise RuntimeError('gen_c06: MessageHeader() defaults are not the transcribed ones (zero fields, type from the argument, 24 bytes): %r' % o)
    if len(o['calc_K']) != 1:
        raise RuntimeError('gen_c06: calculate_crc(payload) is not zlib.crc32(packed_header[K:] + payload) for a unique K (candidates %r)' % o['calc_K'])
    if len(o['valid_K']) != 1:
        raise RuntimeError('gen_c06: validate_crc() does not accept exactly crc32(buffer[offset+K : offset+size]) for a unique K (candidates %r)' % o['valid_K'])
    if o['seq_init'] != 0:
        raise RuntimeError('gen_c06: a new encoder starts at sequence number %r, the model transcribes 0' % o['seq_init'])
    obs = o['seq_obs']
    if any(c != s for s, c, _ in obs):
        raise RuntimeError('gen_c06: encode_message does not carry the current counter value: %r' % obs)
    if all(n == s + 1 for s, _, n in obs):
        mod = 0                                           # never reduced
    else:
        s, _, n = next(t for t in obs if t[2] != t[0] + 1)
        mod = s + 1 - n
        if mod <= 0 or any(nn != (ss + 1) % mod for ss, _, nn in obs if ss < mod):
            raise RuntimeError('gen_c06: the sequence counter does not advance as (s + 1) mod M: %r' % obs)
    return {'PROTOCOL_VERSION': d['protocol_version'], 'INVALID_SOURCE_ID': d['source_identifier'],
            'PY_CALC_CRC_START': o['calc_K'][0], 'PY_VALIDATE_CRC_START': o['valid_K'][0], 'ENC_SEQ_MODULUS': mod}


def cpp_consts():
    base = os.path.join(vf.REPO, 'src/point_one/fusion_engine')
    src = [os.path.join(base, 'messages', f) for f in ('crc.cc', 'crc.h', 'defs.h')] + [os.path.join(base, 'common/portability.h')]
    d = os.path.join(vf.BUILD, 'gen_c06')
    os.makedirs(d, exist_ok=True)
    key = _hash_files(src + [__file__])
    cache = os.path.join(d, 'cpp_%s.json' % key)
    if os.path.exists(cache):
        return json.load(open(cache))
    cc = os.path.join(d, 'probe_%s_%d.cc' % (key, os.getpid()))
    exe = cc[:-3]
    open(cc, 'w').write(CPP_PROBE)
    try:
        rc, so, se = vf.sh('clang++-14 -std=c++14 -O1 -I%s/src %s %s -o %s' % (vf.REPO, cc, src[0], exe), timeout=300)
        if rc != 0:
            raise RuntimeError('gen_c06: C++ probe does not compile: ' + se[-1500:])
        rc, so, se = vf.sh([exe], timeout=120)
    finally:
        for f in (cc, exe):
            try:
                os.remove(f)
            except OSError:
                pass
    ln = {l.split()[0]: l.split()[1:] for l in so.split('\n') if l.strip()}
    if rc != 0 or not all(k in ln for k in 'LKDVM'):
        raise RuntimeError('gen_c06: C++ probe failed: ' + (so + se)[-600:])
    L = [int(x) for x in ln['L']]
    if L[4] != 4 or L[5] != 4 or L[7] != 1:
        raise RuntimeError('gen_c06: crc / payload_size_bytes must be 4-byte fields on a little-endian target: %r' % L)
    if len(ln['K']) != 1:
        raise RuntimeError('gen_c06: CalculateCRC(buffer) is not CalculateCRC(buffer + K, 24 - K + size) for a unique K (candidates %r)' % ln['K'])
    if ln['D'] != ['1']:
        raise RuntimeError('gen_c06: the default initial_value of CalculateCRC does not behave as 0')
    if ln['V'] != ['1']:
        raise RuntimeError('gen_c06: IsValid() is not "stored crc == CalculateCRC(buffer)" on the probes')
    if ln['M'] != ['1', '0']:
        raise RuntimeError('gen_c06: IsValid() size limit is not "24 + payload_size > MAX_MESSAGE_SIZE_BYTES is refused": %r' % ln['M'])
    res = {'CPP_HEADER_SIZE': L[0], 'CPP_CRC_OFFSET': int(ln['K'][0]), 'CPP_OFF_CRC': L[1], 'CPP_OFF_PSIZE': L[2], 'CPP_SIZE_T_BITS': L[3],
           'CPP_MAX_MESSAGE_SIZE_PROBED': L[8]}
    json.dump(res, open(cache, 'w'))
    return res


def generate():
    vals = {}
    vals.update(py_consts())
    vals.update(cpp_consts())
    t = vf.gen_header(['python/fusion_engine_client/messages/defs.py (imported, probed)', 'python/fusion_engine_client/parsers/encoder.py (imported, probed)',
                       'src/point_one/fusion_engine/messages/crc.cc, crc.h, defs.h (compiled, probed)'])
    t += 'From Coq Require Import NArith.\nOpen Scope N_scope.\n'
    nat_keys = ('PY_CALC_CRC_START', 'PY_VALIDATE_CRC_START', 'CPP_HEADER_SIZE', 'CPP_CRC_OFFSET', 'CPP_OFF_CRC', 'CPP_OFF_PSIZE')
    order = ['PROTOCOL_VERSION', 'INVALID_SOURCE_ID', 'PY_CALC_CRC_START', 'PY_VALIDATE_CRC_START', 'ENC_SEQ_MODULUS', 'CPP_HEADER_SIZE',
             'CPP_CRC_OFFSET', 'CPP_OFF_CRC', 'CPP_OFF_PSIZE', 'CPP_SIZE_T_BITS', 'CPP_MAX_MESSAGE_SIZE_PROBED']
    for k in order:
        t += 'Definition %s : %s := %d.\n' % (k, 'nat' if k in nat_keys else 'N', vals[k])
    t += '(* ENC_SEQ_MODULUS = 0 means: the counter is a Python int that is never reduced *)\n'
    vf.write_if_changed(os.path.join(vf.THEORIES, 'Generated', 'EncoderConsts.v'), t)
    return vals


if __name__ == '__main__':
    print(generate())
