"""Generated/EncoderConsts.v for C06: the constants the encoder / CRC-validation models depend on.
  python/fusion_engine_client/messages/defs.py   MessageHeader.__init__ defaults (protocol_version, source id),
                                                 the byte at which calculate_crc / validate_crc start the CRC
  python/fusion_engine_client/parsers/encoder.py the statements of encode_message and how the counter advances
  src/.../messages/crc.cc, crc.h, defs.h         offsetof(protocol_version), sizeof(MessageHeader), field offsets
                                                 (from the compiler), the shape of CalculateCRC(buffer)/IsValid
Fail closed: anything not recognised raises."""
import ast, hashlib, os, re, subprocess, sys
sys.path.insert(0, os.path.join(os.path.dirname(__file__), '..', 'lib'))
import vf

DEFS = 'python/fusion_engine_client/messages/defs.py'
ENC = 'python/fusion_engine_client/parsers/encoder.py'
CRC_CC = 'src/point_one/fusion_engine/messages/crc.cc'
CRC_H = 'src/point_one/fusion_engine/messages/crc.h'
DEFS_H = 'src/point_one/fusion_engine/messages/defs.h'


def _method(tree, cls, name):
    for n in ast.walk(tree):
        if isinstance(n, ast.ClassDef) and n.name == cls:
            for st in n.body:
                if isinstance(st, ast.FunctionDef) and st.name == name:
                    return st
    raise RuntimeError('gen_c06: %s.%s not found' % (cls, name))


def _norm(node):
    return ast.unparse(node).strip()


def py_consts():
    tree = ast.parse(vf.repo_file(DEFS))
    init = _method(tree, 'MessageHeader', '__init__')
    defaults = {}
    for st in init.body:
        tgt = val = None
        if isinstance(st, ast.AnnAssign):
            tgt, val = st.target, st.value
        elif isinstance(st, ast.Assign) and len(st.targets) == 1:
            tgt, val = st.targets[0], st.value
        if tgt is not None and isinstance(tgt, ast.Attribute) and _norm(tgt.value) == 'self':
            defaults[tgt.attr] = _norm(val)
    want = {'reserved': '0', 'crc': '0', 'sequence_number': '0', 'message_version': '0', 'payload_size_bytes': '0',
            'message_type': 'message_type', 'source_identifier': 'MessageHeader.INVALID_SOURCE_ID'}
    for k, v in want.items():
        if defaults.get(k) != v:
            raise RuntimeError('gen_c06: MessageHeader.__init__ default of %s is %r, the model transcribes %r' % (k, defaults.get(k), v))
    try:
        proto = int(defaults['protocol_version'], 0)
    except Exception:
        raise RuntimeError('gen_c06: protocol_version default not a literal: %r' % defaults.get('protocol_version'))
    src = vf.repo_file(DEFS)
    m = re.search(r'INVALID_SOURCE_ID\s*=\s*(0[xX][0-9a-fA-F]+|\d+)', src)
    if not m:
        raise RuntimeError('gen_c06: INVALID_SOURCE_ID not recognised')
    calc = [_norm(s) for s in _method(tree, 'MessageHeader', 'calculate_crc').body if not isinstance(s, ast.Expr)]
    if len(calc) != 5 or calc[0] != 'self.payload_size_bytes = len(payload)' or calc[1] != 'header_buffer = self.pack()' \
            or calc[3] != 'self.crc = crc32(payload, self.crc)' or calc[4] != 'return self.crc':
        raise RuntimeError('gen_c06: calculate_crc body not the transcribed one: %r' % calc)
    m1 = re.fullmatch(r'self\.crc = crc32\(header_buffer\[(\d+):\]\)', calc[2])
    if not m1:
        raise RuntimeError('gen_c06: calculate_crc header slice not recognised: %r' % calc[2])
    val = [_norm(s) for s in _method(tree, 'MessageHeader', 'validate_crc').body]
    m2 = None
    for s in val:
        mm = re.fullmatch(r'crc = crc32\(buffer\[offset \+ (\d+):offset \+ message_size_bytes\]\)', s)
        if mm:
            m2 = mm
    if not m2 or 'message_size_bytes = MessageHeader._SIZE + self.payload_size_bytes' not in val:
        raise RuntimeError('gen_c06: validate_crc slice not recognised: %r' % val)
    if not any(s.startswith('if self.payload_size_bytes > MessageHeader._MAX_EXPECTED_SIZE_BYTES:') for s in val) \
            or not any(s.startswith('if crc != self.crc:') for s in val):
        raise RuntimeError('gen_c06: validate_crc tests not recognised: %r' % val)
    if not re.search(r'^from zlib import crc32$', src, re.M):
        raise RuntimeError('gen_c06: crc32 is not zlib.crc32 in defs.py')
    return {'PROTOCOL_VERSION': proto, 'INVALID_SOURCE_ID': int(m.group(1), 0),
            'PY_CALC_CRC_START': int(m1.group(1)), 'PY_VALIDATE_CRC_START': int(m2.group(1))}


ENC_BODY = ['header = MessageHeader(message.get_type())', 'header.message_version = message.get_version()',
            'header.sequence_number = self.sequence_number', 'header.source_identifier = source_identifier',
            None, 'message_data = message.pack()', 'return header.pack(payload=message_data)']


def enc_consts():
    tree = ast.parse(vf.repo_file(ENC))
    init = [_norm(s) for s in _method(tree, 'FusionEngineEncoder', '__init__').body if not isinstance(s, ast.Expr)]
    if init != ['self.sequence_number = 0']:
        raise RuntimeError('gen_c06: FusionEngineEncoder.__init__ not the transcribed one: %r' % init)
    body = [_norm(s) for s in _method(tree, 'FusionEngineEncoder', 'encode_message').body if not isinstance(s, ast.Expr)]
    if len(body) != len(ENC_BODY) or any(w is not None and w != b for w, b in zip(ENC_BODY, body)):
        raise RuntimeError('gen_c06: encode_message body not the transcribed one: %r' % body)
    inc = body[4]
    if inc == 'self.sequence_number += 1':
        mod = 0          # Python int, never wraps
    else:
        m = re.fullmatch(r'self\.sequence_number = \(self\.sequence_number \+ 1\) (?:% (\d+) \*\* (\d+)|% (0[xX][0-9a-fA-F]+|\d+)|& (0[xX][0-9a-fA-F]+))', inc)
        if not m:
            raise RuntimeError('gen_c06: sequence counter update not recognised: %r' % inc)
        if m.group(1):
            mod = int(m.group(1)) ** int(m.group(2))
        elif m.group(3):
            mod = int(m.group(3), 0)
        else:
            mask = int(m.group(4), 0)
            if mask & (mask + 1):
                raise RuntimeError('gen_c06: sequence mask %x is not 2^k-1' % mask)
            mod = mask + 1
    return {'ENC_SEQ_MODULUS': mod}


PROBE = r'''
#include <cstddef>
#include <cstdio>
#include "point_one/fusion_engine/messages/defs.h"
using point_one::fusion_engine::messages::MessageHeader;
int main() {
  printf("%zu %zu %zu %zu %zu %zu %zu %zu\n", sizeof(MessageHeader), offsetof(MessageHeader, protocol_version),
         offsetof(MessageHeader, crc), offsetof(MessageHeader, payload_size_bytes), sizeof(size_t) * 8,
         sizeof(MessageHeader::crc), sizeof(MessageHeader::payload_size_bytes), (size_t)MessageHeader::MAX_MESSAGE_SIZE_BYTES);
  unsigned x = 1; printf("%d\n", (int)*(unsigned char*)&x);
  return 0;
}
'''


def cpp_consts():
    cc = re.sub(r'\s+', ' ', vf.repo_file(CRC_CC))
    if 'static constexpr size_t offset = offsetof(MessageHeader, protocol_version);' not in cc \
            or 'size_t size_bytes = (sizeof(MessageHeader) - offset) + header.payload_size_bytes;' not in cc \
            or 'return CalculateCRC(reinterpret_cast<const uint8_t*>(&header) + offset, size_bytes);' not in cc:
        raise RuntimeError('gen_c06: CalculateCRC(const void* buffer) in crc.cc is not the transcribed one')
    if 'uint32_t c = initial_value ^ 0xFFFFFFFF;' not in cc or 'c = crc_table[(c ^ u[i]) & 0xFF] ^ (c >> 8);' not in cc \
            or 'return c ^ 0xFFFFFFFF;' not in cc:
        raise RuntimeError('gen_c06: CalculateCRC(buffer, length, initial_value) in crc.cc is not the transcribed one')
    h = re.sub(r'\s+', ' ', re.sub(r'//[^\n]*', '', vf.repo_file(CRC_H)))
    if 'if (sizeof(MessageHeader) + header.payload_size_bytes > MessageHeader::MAX_MESSAGE_SIZE_BYTES) { return false; } else { return header.crc == CalculateCRC(buffer); }' not in h:
        raise RuntimeError('gen_c06: IsValid() in crc.h is not the transcribed one')
    if not re.search(r'uint32_t initial_value = 0\)', h):
        raise RuntimeError('gen_c06: default initial_value of CalculateCRC not 0')
    key = hashlib.sha1((PROBE + vf.repo_file(DEFS_H) + vf.REPO).encode()).hexdigest()[:16]
    d = os.path.join(vf.BUILD, 'cpp')
    os.makedirs(d, exist_ok=True)
    cache = os.path.join(d, 'c06_probe_%s.txt' % key)
    if not os.path.exists(cache):
        src = os.path.join(d, 'c06_probe_%d.cc' % os.getpid())
        exe = src[:-3]
        with open(src, 'w') as f:
            f.write(PROBE)
        rc, so, se = vf.sh('clang++-14 -std=c++14 -I%s/src %s -o %s && %s' % (vf.REPO, src, exe, exe), timeout=120)
        for p in (src, exe):
            if os.path.exists(p):
                os.remove(p)
        if rc != 0:
            raise RuntimeError('gen_c06: layout probe failed: ' + se[-1500:])
        vf.write_if_changed(cache, so)
    lines = open(cache).read().split('\n')
    v = [int(x) for x in lines[0].split()]
    if len(v) != 8 or v[5] != 4 or v[6] != 4 or int(lines[1]) != 1:
        raise RuntimeError('gen_c06: unexpected layout probe output %r (crc / payload_size_bytes must be 4-byte fields on a little-endian target)' % lines)
    return {'CPP_HEADER_SIZE': v[0], 'CPP_CRC_OFFSET': v[1], 'CPP_OFF_CRC': v[2], 'CPP_OFF_PSIZE': v[3], 'CPP_SIZE_T_BITS': v[4],
            'CPP_MAX_MESSAGE_SIZE_PROBED': v[7]}


def generate():
    vals = {}
    vals.update(py_consts())
    vals.update(enc_consts())
    vals.update(cpp_consts())
    t = vf.gen_header([DEFS, ENC, CRC_CC, CRC_H, DEFS_H + ' (layout via clang++-14)'])
    t += 'From Coq Require Import NArith.\nOpen Scope N_scope.\n'
    nat_keys = ('PY_CALC_CRC_START', 'PY_VALIDATE_CRC_START', 'CPP_HEADER_SIZE', 'CPP_CRC_OFFSET', 'CPP_OFF_CRC', 'CPP_OFF_PSIZE')
    for k, v in vals.items():
        if k in nat_keys:
            t += 'Definition %s : nat := %d.\n' % (k, v)
        else:
            t += 'Definition %s : N := %d.\n' % (k, v)
    t += '(* ENC_SEQ_MODULUS = 0 means: the counter is a Python int that is never reduced *)\n'
    vf.write_if_changed(os.path.join(vf.THEORIES, 'Generated', 'EncoderConsts.v'), t)
    return vals


if __name__ == '__main__':
    print(generate())
