"""Generated/DataLoaderConsts.v from analysis/data_loader.py and the message registry.

* the keys of the `params` dictionary that DataLoader._read() stores with every cache entry and compares on later
  reads (dict literal + any `params.update({...})` / `params['k'] = ...` before the comparison), via `ast`;
* whether source_ids=None is replaced by the reader's sampled source identifiers or kept as "no source filter";
* whether the max_messages index pre-slice is skipped when a source filter or require_p1_time is active;
* whether the loop's "maximum reached" break is guarded so that it does not fire while the last-N circular buffer is in
  use (structural test on the `if message_count == abs(max_messages)` statement), via `ast`;
* the message-type tables the function consults: message_type_to_class keys, messages_with_p1_time,
  messages_with_system_time, the classes whose to_numpy() output has a 'p1_time' key, the classes whose default
  instance has 'p1_time' in its __dict__ (the test time_align_data uses), TimeAlignmentMode values and the
  number of messages per type the reader samples for source identifiers, via the interpreter.
Fail closed: anything not recognised raises."""
import ast, json, os, subprocess, sys
sys.path.insert(0, os.path.join(os.path.dirname(__file__), '..', 'lib'))
import vf

SRC = 'python/fusion_engine_client/analysis/data_loader.py'

PROBE = r'''
import json, inspect, logging
logging.disable(logging.CRITICAL)
from fusion_engine_client.messages import message_type_to_class, messages_with_p1_time, messages_with_system_time, MessageType
from fusion_engine_client.analysis.data_loader import TimeAlignmentMode, DataLoader
from fusion_engine_client.parsers.mixed_log_reader import MixedLogReader
np_p1 = []
for t, c in message_type_to_class.items():
    try:
        if 'p1_time' in c.to_numpy([]):
            np_p1.append(int(t))
    except Exception:
        pass
sig = inspect.signature(DataLoader._read)
print(json.dumps({
  'all': [int(t) for t in message_type_to_class.keys()],
  'p1': sorted(int(t) for t in messages_with_p1_time),
  'sys': sorted(int(t) for t in messages_with_system_time),
  'np_p1': sorted(np_p1),
  'dict_p1': sorted(int(t) for t, c in message_type_to_class.items() if 'p1_time' in c().__dict__),
  'names': {t.name: int(t) for t in MessageType},
  'align': {m.name: int(m) for m in TimeAlignmentMode},
  'probe': inspect.signature(MixedLogReader._populate_available_source_ids).parameters['num_messages_to_read'].default,
  'defaults': {k: repr(p.default) for k, p in sig.parameters.items() if p.default is not inspect.Parameter.empty},
}))
'''

EXPECTED_BASE = ['time_range', 'max_messages', 'max_bytes', 'require_p1_time', 'require_system_time', 'return_bytes',
                 'return_message_index', 'remove_nan_times', 'source_ids']
EXPECTED_DEFAULTS = {'message_types': 'None', 'time_range': 'None', 'source_ids': 'None', 'ignore_cache': 'False',
                     'max_messages': 'None', 'max_bytes': 'None', 'require_p1_time': 'False', 'require_system_time': 'False',
                     'return_in_order': 'False', 'return_bytes': 'False', 'return_message_index': 'False',
                     'return_numpy': 'False', 'keep_messages': 'False', 'remove_nan_times': 'True',
                     'aligned_message_types': 'None'}


def _read_func(tree):
    for n in tree.body:
        if isinstance(n, ast.ClassDef) and n.name == 'DataLoader':
            for f in n.body:
                if isinstance(f, ast.FunctionDef) and f.name == '_read':
                    return f
    raise RuntimeError('gen_c12: DataLoader._read not found')


def _keys_of_dict(d):
    if not isinstance(d, ast.Dict) or not all(isinstance(k, ast.Constant) and isinstance(k.value, str) for k in d.keys):
        raise RuntimeError('gen_c12: params dictionary with non-literal keys')
    return [k.value for k in d.keys]


def params_keys(f):
    keys, seen_literal, compare_line = [], False, None
    for n in ast.walk(f):
        if isinstance(n, ast.Compare) and isinstance(n.comparators[0], ast.Name) and n.comparators[0].id == 'params' \
                and isinstance(n.left, ast.Attribute) and n.left.attr == 'params':
            compare_line = n.lineno if compare_line is None else min(compare_line, n.lineno)
    if compare_line is None:
        raise RuntimeError('gen_c12: the cache comparison `self.data[t].params != params` was not found')
    for n in ast.walk(f):
        if isinstance(n, ast.Assign) and len(n.targets) == 1:
            t = n.targets[0]
            if isinstance(t, ast.Name) and t.id == 'params':
                if seen_literal:
                    raise RuntimeError('gen_c12: params assigned twice')
                seen_literal = True
                keys += _keys_of_dict(n.value)
                if n.lineno > compare_line:
                    raise RuntimeError('gen_c12: params built after the comparison')
            elif isinstance(t, ast.Subscript) and isinstance(t.value, ast.Name) and t.value.id == 'params':
                if not (isinstance(t.slice, ast.Constant) and isinstance(t.slice.value, str)):
                    raise RuntimeError('gen_c12: params[...] with a non-literal key')
                if n.lineno < compare_line:
                    keys.append(t.slice.value)
        elif isinstance(n, ast.Call) and isinstance(n.func, ast.Attribute) and isinstance(n.func.value, ast.Name) \
                and n.func.value.id == 'params':
            if n.func.attr != 'update' or len(n.args) != 1 or n.keywords:
                raise RuntimeError('gen_c12: unrecognised call on params: %s' % n.func.attr)
            if n.lineno < compare_line:
                keys += _keys_of_dict(n.args[0])
    if not seen_literal:
        raise RuntimeError('gen_c12: `params = {...}` not found')
    if len(set(keys)) != len(keys):
        raise RuntimeError('gen_c12: duplicate params keys %r' % keys)
    if not set(EXPECTED_BASE) <= set(keys):
        raise RuntimeError('gen_c12: params lost one of its known keys: %r' % keys)
    unknown = set(keys) - set(EXPECTED_BASE) - {'message_types', 'return_numpy', 'keep_messages', 'time_align', 'aligned_message_types'}
    if unknown:
        raise RuntimeError('gen_c12: params has keys the model does not know: %r' % sorted(unknown))
    return keys


def break_guarded(f):
    """True when the `message_count == abs(max_messages)` break cannot fire while `newest_messages` (the last-N deque)
    is in use: the nearest enclosing `if` tests mention newest_messages."""
    hits = []

    def walk(node, guards):
        for ch in ast.iter_child_nodes(node):
            if isinstance(ch, ast.If):
                src = ast.unparse(ch.test)
                if 'message_count == abs(max_messages)' in src.replace('  ', ' '):
                    hits.append(any('newest_messages' in g for g in guards + [src]))
                walk(ch, guards + [src])
            else:
                walk(ch, guards)
    walk(f, [])
    if len(hits) != 1:
        raise RuntimeError('gen_c12: expected exactly one `message_count == abs(max_messages)` test, found %d' % len(hits))
    return hits[0]


def none_sources_sampled(f):
    """True when `_read` replaces source_ids=None by the reader's sampled set (`source_ids = ...get_available_source_ids()`
    under `if source_ids is None`); False when None is kept (no source filter)."""
    hits = []
    for n in ast.walk(f):
        if isinstance(n, ast.If) and ast.unparse(n.test).replace(' ', '') == 'source_idsisNone':
            body = ' ; '.join(ast.unparse(b) for b in n.body)
            hits.append('get_available_source_ids' in body and 'source_ids =' in body)
            if not hits[-1] and not all(isinstance(b, (ast.Pass, ast.Expr)) or 'requested_source_ids = None' in ast.unparse(b) for b in n.body):
                raise RuntimeError('gen_c12: unrecognised handling of source_ids is None: %s' % body[:200])
    if not hits:
        raise RuntimeError('gen_c12: `if source_ids is None` not found in _read')
    return hits[0]


def preslice_guarded(f):
    """True when the index pre-slice (`reader_max_messages_applied = True`) is only taken with no source filter and
    without require_p1_time: its `if` test mentions `source_ids is None` and `not require_p1_time`."""
    hits = []
    for n in ast.walk(f):
        if isinstance(n, ast.If) and any(isinstance(b, ast.Assign) and ast.unparse(b) == 'reader_max_messages_applied = True' for b in n.body):
            t = ast.unparse(n.test)
            if 'max_messages is not None' not in t or 'require_system_time and system_time_messages_requested' not in t:
                raise RuntimeError('gen_c12: unrecognised pre-slice condition: %s' % t)
            extra = t.replace('max_messages is not None', '').replace('self.reader.have_index()', '') \
                     .replace('not (require_system_time and system_time_messages_requested)', '')
            g = 'source_ids is None' in extra and 'not require_p1_time' in extra
            rest = extra.replace('source_ids is None', '').replace('not require_p1_time', '').replace('and', '').replace('(', '').replace(')', '').strip()
            if rest:
                raise RuntimeError('gen_c12: pre-slice condition has terms the model does not know: %r' % rest)
            if not g and ('source_ids' in extra or 'require_p1_time' in extra):
                raise RuntimeError('gen_c12: partially guarded pre-slice condition: %s' % t)
            hits.append(g)
    if len(hits) != 1:
        raise RuntimeError('gen_c12: expected one pre-slice `if`, found %d' % len(hits))
    return hits[0]


def open_clears_cache(tree):
    """True when DataLoader.open() assigns an empty dict to self.data (before or after creating the reader)"""
    for n in tree.body:
        if isinstance(n, ast.ClassDef) and n.name == 'DataLoader':
            for f in n.body:
                if isinstance(f, ast.FunctionDef) and f.name == 'open':
                    for st in ast.walk(f):
                        if isinstance(st, ast.Assign) and any(ast.unparse(t) == 'self.data' for t in st.targets):
                            v = ast.unparse(st.value).replace(' ', '')
                            if v in ('{}', 'dict()'):
                                return True
                            raise RuntimeError('gen_c12: open() assigns %s to self.data' % v)
                    return False
    raise RuntimeError('gen_c12: DataLoader.open not found')


def generate():
    txt = vf.repo_file(SRC)
    f = _read_func(ast.parse(txt))
    keys = params_keys(f)
    guarded = break_guarded(f)
    sampled = none_sources_sampled(f)
    psg = preslice_guarded(f)
    ocl = open_clears_cache(ast.parse(txt))
    # the reader (C10's file): does filter_in_place() intersect explicitly requested source ids with the sampled set?
    import re
    rtxt = vf.repo_file('python/fusion_engine_client/parsers/mixed_log_reader.py')
    m = re.search(r'def filter_in_place\(.*?\n    def ', rtxt, re.S)
    if not m or 'requested_source_ids' not in m.group(0):
        raise RuntimeError('gen_c12: MixedLogReader.filter_in_place / requested_source_ids not found')
    intersects = re.search(r'source_ids\s*=\s*[^\n]*intersection\(self\.available_source_ids\)', m.group(0)) is not None
    rc, so, se = vf.sh([vf.PY, '-c', PROBE], env=vf.IMPL_ENV, timeout=120)
    if rc != 0:
        raise RuntimeError('gen_c12: probing the message registry failed: ' + se[-1500:])
    info = json.loads(so.strip().split('\n')[-1])
    for k, v in EXPECTED_DEFAULTS.items():
        if info['defaults'].get(k) != v:
            raise RuntimeError('gen_c12: default of _read(%s) is %r, the model assumes %s' % (k, info['defaults'].get(k), v))
    if 'NONE' not in info['defaults'].get('time_align', ''):
        raise RuntimeError('gen_c12: default of time_align is not NONE')
    if sorted(info['align']) != ['DROP', 'INSERT', 'NONE']:
        raise RuntimeError('gen_c12: TimeAlignmentMode members changed: %r' % info['align'])
    nl = lambda xs: '[' + '; '.join(str(int(x)) for x in xs) + ']%N'
    text = vf.gen_header([SRC, 'python/fusion_engine_client/messages/__init__.py']) + \
        'From Coq Require Import NArith List String.\nImport ListNotations.\nOpen Scope string_scope.\n'
    text += 'Definition params_keys : list string := [' + '; '.join('"%s"' % k for k in keys) + '].\n'
    for k in ('message_types', 'return_numpy', 'keep_messages', 'time_align', 'aligned_message_types'):
        text += 'Definition key_has_%s : bool := %s.\n' % (k, 'true' if k in keys else 'false')
    text += 'Definition break_guarded_by_deque : bool := %s.\n' % ('true' if guarded else 'false')
    text += 'Definition preslice_guarded_by_read_time_tests : bool := %s.\n' % ('true' if psg else 'false')
    text += 'Definition reader_intersects_sampled_sources : bool := %s.\n' % ('true' if intersects else 'false')
    text += 'Definition open_clears_cache : bool := %s.\n' % ('true' if ocl else 'false')
    text += 'Definition none_sources_sampled : bool := %s.\n' % ('true' if sampled else 'false')
    text += 'Definition all_types : list N := %s.\n' % nl(info['all'])
    text += 'Definition p1_types : list N := %s.\n' % nl(info['p1'])
    text += 'Definition sys_types : list N := %s.\n' % nl(info['sys'])
    text += 'Definition np_p1_types : list N := %s.\n' % nl(info['np_p1'])
    text += 'Definition dict_p1_types : list N := %s.\n' % nl(info['dict_p1'])
    text += 'Definition align_none : N := %d%%N.\nDefinition align_drop : N := %d%%N.\nDefinition align_insert : N := %d%%N.\n' % (
        info['align']['NONE'], info['align']['DROP'], info['align']['INSERT'])
    text += 'Definition source_probe_count : nat := %d.\n' % int(info['probe'])
    vf.write_if_changed(os.path.join(vf.THEORIES, 'Generated', 'DataLoaderConsts.v'), text)
    return {'params_keys': keys, 'break_guarded_by_deque': guarded, 'none_sources_sampled': sampled, 'preslice_guarded': psg, 'open_clears_cache': ocl, 'reader_intersects_sampled_sources': intersects, 'names': info['names'], 'n_types': len(info['all']),
            'probe': int(info['probe'])}


if __name__ == '__main__':
    r = generate(); r.pop('names'); print(r)
