"""Generated/FileIndexConsts.v: constants of the .p1i index file format used by C09 and C18:
the raw record layout FileIndex._RAW_DTYPE (field names, order, little-endian unsigned widths), the "no P1 time"
value Timestamp._INVALID and the numeric value of MessageType.INVALID (the EOF-marker type).  Fail closed."""
import ast, os, re, sys
sys.path.insert(0, os.path.join(os.path.dirname(__file__), '..', 'lib'))
import vf
from translators import gen_fe

FI = 'python/fusion_engine_client/parsers/file_index.py'
TS = 'python/fusion_engine_client/messages/timestamp.py'
DEFS = 'python/fusion_engine_client/messages/defs.py'
EXPECTED_FIELDS = ['int', 'type', 'offset']     # the order Models/FileIndexIOM.v transcribes


def raw_dtype():
    tree = ast.parse(vf.repo_file(FI))
    for n in ast.walk(tree):
        if isinstance(n, ast.ClassDef) and n.name == 'FileIndex':
            for st in n.body:
                if isinstance(st, ast.Assign) and len(st.targets) == 1 and getattr(st.targets[0], 'id', None) == '_RAW_DTYPE':
                    call = st.value
                    if not (isinstance(call, ast.Call) and isinstance(call.func, ast.Attribute) and call.func.attr == 'dtype'
                            and len(call.args) == 1 and isinstance(call.args[0], ast.List)):
                        raise RuntimeError('gen_c09: FileIndex._RAW_DTYPE is not np.dtype([...])')
                    out = []
                    for e in call.args[0].elts:
                        name, code = ast.literal_eval(e)
                        m = re.fullmatch(r'<u([1248])', code)
                        if not m:
                            raise RuntimeError('gen_c09: raw field %r has type %r, expected little-endian unsigned' % (name, code))
                        out.append((name, int(m.group(1))))
                    return out
    raise RuntimeError('gen_c09: FileIndex._RAW_DTYPE not found')


def generate():
    fields = raw_dtype()
    if [f for f, _ in fields] != EXPECTED_FIELDS:
        raise RuntimeError('gen_c09: raw record fields %r are not the (int, type, offset) layout the model transcribes' % (fields,))
    ts = gen_fe.class_consts(TS, 'Timestamp', ['_INVALID'])['_INVALID']
    src = vf.repo_file(DEFS)
    m = re.search(r'class MessageType\(IntEnum\):(.*?)\n(?:class |def )', src, re.S)
    if not m:
        raise RuntimeError('gen_c09: class MessageType not found')
    mi = re.search(r'^\s+INVALID\s*=\s*(\d+)\s*$', m.group(1), re.M)
    if not mi:
        raise RuntimeError('gen_c09: MessageType.INVALID not found')
    vals = {'TIME_INVALID': ts, 'TYPE_INVALID': int(mi.group(1)),
            'REC_TIME_BYTES': fields[0][1], 'REC_TYPE_BYTES': fields[1][1], 'REC_OFF_BYTES': fields[2][1]}
    t = vf.gen_header([FI, TS, DEFS])
    t += 'From Coq Require Import NArith.\nOpen Scope N_scope.\n'
    t += 'Definition TIME_INVALID : N := %d.\nDefinition TYPE_INVALID : N := %d.\n' % (vals['TIME_INVALID'], vals['TYPE_INVALID'])
    t += 'Definition REC_TIME_BYTES : nat := %d.\nDefinition REC_TYPE_BYTES : nat := %d.\nDefinition REC_OFF_BYTES : nat := %d.\n' % (
        vals['REC_TIME_BYTES'], vals['REC_TYPE_BYTES'], vals['REC_OFF_BYTES'])
    vf.write_if_changed(os.path.join(vf.THEORIES, 'Generated', 'FileIndexConsts.v'), t)
    return vals


if __name__ == '__main__':
    print(generate())
