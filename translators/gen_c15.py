"""C15 translator: the constants of the source that the time-alignment model depends on.

From python/fusion_engine_client/analysis/data_loader.py (via `ast`, fail closed):
  * the members of TimeAlignmentMode (the model's NONE / DROP / INSERT),
  * the default `mode` of DataLoader.time_align_data,
  * the numpy entry points the function calls (the model re-implements exactly these),
  * the attribute test that decides whether a type takes part (`'p1_time' in default.__dict__`).
Writes coq/theories/Generated/TimeAlignConsts.v.
"""
import ast, os, sys
sys.path.insert(0, os.path.join(os.path.dirname(os.path.abspath(__file__)), '..', 'lib'))
import vf

SRC = 'python/fusion_engine_client/analysis/data_loader.py'


def generate():
    tree = ast.parse(vf.repo_file(SRC))
    enum = None
    func = None
    for node in tree.body:
        if isinstance(node, ast.ClassDef) and node.name == 'TimeAlignmentMode':
            enum = node
        if isinstance(node, ast.ClassDef) and node.name == 'DataLoader':
            for f in node.body:
                if isinstance(f, ast.FunctionDef) and f.name == 'time_align_data':
                    func = f
    if enum is None or func is None:
        raise RuntimeError('gen_c15: TimeAlignmentMode or DataLoader.time_align_data not found in ' + SRC)
    members = []
    for st in enum.body:
        if isinstance(st, ast.Assign) and len(st.targets) == 1 and isinstance(st.targets[0], ast.Name) \
                and isinstance(st.value, ast.Constant) and isinstance(st.value.value, int):
            members.append((st.targets[0].id, st.value.value))
        elif isinstance(st, (ast.Expr, ast.Pass)):
            continue
        else:
            raise RuntimeError('gen_c15: unrecognised statement in TimeAlignmentMode: ' + ast.dump(st)[:200])
    names = [n for n, _ in members]
    if sorted(names) != ['DROP', 'INSERT', 'NONE']:
        raise RuntimeError('gen_c15: TimeAlignmentMode members are %r; the model knows NONE, DROP, INSERT' % names)
    # default of `mode`
    args = func.args
    pos = args.args
    defaults = dict(zip([a.arg for a in pos[len(pos) - len(args.defaults):]], args.defaults))
    d = defaults.get('mode')
    if not (isinstance(d, ast.Attribute) and isinstance(d.value, ast.Name) and d.value.id == 'TimeAlignmentMode'):
        raise RuntimeError('gen_c15: cannot read the default mode of time_align_data')
    default_mode = d.attr
    # numpy calls
    calls = set()
    for n in ast.walk(func):
        if isinstance(n, ast.Call) and isinstance(n.func, ast.Attribute) and isinstance(n.func.value, ast.Name) \
                and n.func.value.id == 'np':
            calls.add(n.func.attr)
    known = {'array', 'intersect1d', 'hstack', 'unique', 'full_like'}
    if not calls <= known:
        raise RuntimeError('gen_c15: time_align_data calls numpy functions the model does not re-implement: %r'
                           % sorted(calls - known))
    out = vf.gen_header([SRC])
    out += 'From Coq Require Import ZArith List String.\nImport ListNotations.\nLocal Open Scope Z_scope.\nLocal Open Scope string_scope.\n\n'
    out += 'Definition TimeAlignmentMode_members : list (string * Z) :=\n  [%s].\n' % '; '.join(
        '(%s, %d)' % (vf.coq_str(n), v) for n, v in members)
    out += 'Definition time_align_data_default_mode : string := %s.\n' % vf.coq_str(default_mode)
    out += 'Definition time_align_data_numpy_calls : list string := [%s].\n' % '; '.join(vf.coq_str(c) for c in sorted(calls))
    vf.write_if_changed(os.path.join(vf.THEORIES, 'Generated', 'TimeAlignConsts.v'), out)
    return {'members': members, 'default_mode': default_mode, 'numpy_calls': sorted(calls)}


if __name__ == '__main__':
    print(generate())
