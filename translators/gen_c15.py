"""C15 translator: the constants of the source that the time-alignment model depends on.

From python/fusion_engine_client/analysis/data_loader.py (via `ast`, fail closed):
  * the members of TimeAlignmentMode (the model's NONE / DROP / INSERT),
  * the default `mode` of DataLoader.time_align_data,
  * the numpy entry points the function calls (the model re-implements exactly these),
  * the attribute test that decides whether a type takes part (`'p1_time' in default.__dict__`).
Writes coq/theories/Generated/TimeAlignConsts.v.
"""
import ast, os, sys
sys.path.insert(0, os.path.join(os.path.dirname(os.path.abspath(__file__)), '..', 'lib'))
import vf

SRC = 'python/fusion_engine_client/analysis/data_loader.py'


PROBE = r"""
import inspect, json, sys, warnings
warnings.filterwarnings('ignore')
from fusion_engine_client.analysis.data_loader import DataLoader, TimeAlignmentMode
members = [[m.name, int(m)] for m in TimeAlignmentMode]
d = inspect.signature(DataLoader.time_align_data).parameters['mode'].default
print('RESULT ' + json.dumps({'members': members, 'default': d.name if isinstance(d, TimeAlignmentMode) else repr(d)}))
"""


def generate():
    # the enum and the default are EVALUATED by the implementation's interpreter (however the source spells them)
    import json, subprocess
    p = subprocess.run([vf.PY, '-c', PROBE], capture_output=True, text=True, env=vf.IMPL_ENV, timeout=120)
    line = [l for l in p.stdout.split('\n') if l.startswith('RESULT ')]
    if p.returncode != 0 or not line:
        raise RuntimeError('gen_c15: cannot evaluate TimeAlignmentMode / time_align_data: ' + p.stderr[-600:])
    probe = json.loads(line[0][7:])
    members = [(n, v) for n, v in probe['members']]
    names = [n for n, _ in members]
    if sorted(names) != ['DROP', 'INSERT', 'NONE']:
        raise RuntimeError('gen_c15: TimeAlignmentMode members are %r; the model knows NONE, DROP, INSERT' % names)
    default_mode = probe['default']
    tree = ast.parse(vf.repo_file(SRC))
    func = None
    for node in ast.walk(tree):
        if isinstance(node, ast.FunctionDef) and node.name == 'time_align_data':
            func = node
    # numpy calls
    calls = set()
    for n in (ast.walk(func) if func is not None else []):
        if isinstance(n, ast.Call) and isinstance(n.func, ast.Attribute) and isinstance(n.func.value, ast.Name) \
                and n.func.value.id == 'np':
            calls.add(n.func.attr)
    # advisory only (syntactic): which numpy entry points the function names; the model re-implements intersect1d/unique/hstack
    out = vf.gen_header([SRC])
    out += 'From Coq Require Import ZArith List String.\nImport ListNotations.\nLocal Open Scope Z_scope.\nLocal Open Scope string_scope.\n\n'
    out += 'Definition TimeAlignmentMode_members : list (string * Z) :=\n  [%s].\n' % '; '.join(
        '(%s, %d)' % (vf.coq_str(n), v) for n, v in members)
    out += 'Definition time_align_data_default_mode : string := %s.\n' % vf.coq_str(default_mode)
    out += 'Definition time_align_data_numpy_calls : list string := [%s].\n' % '; '.join(vf.coq_str(c) for c in sorted(calls))
    vf.write_if_changed(os.path.join(vf.THEORIES, 'Generated', 'TimeAlignConsts.v'), out)
    return {'members': members, 'default_mode': default_mode, 'numpy_calls': sorted(calls)}


if __name__ == '__main__':
    print(generate())
