"""C16 translator: key -> source table of every `to_numpy` classmethod, by `ast`.

For every class in python/fusion_engine_client/messages/*.py that defines `to_numpy` it records, per output key,
the normalised source expression:
    Each path     np.array([<m.path | float(m.path) | int(m.path) | bool(m.path)> for m in messages] [, dtype=..]) [.T]
    First path    messages[0].path if len(messages) > 0 else <anything>          (value of the first message)
    Opaque        anything else (handled by the dynamic check only; counted)
together with the `not_time_dependent` metadata, the class's field list (the `self.x = ...` of `__init__`,
inherited if the class has none) and, for rows merged in through
`result.update(Other.to_numpy([m.attr for m in messages]))`, the attribute prefix and Other's field list.
Classes whose `to_numpy` is `return cls._message_to_numpy(messages)` are recorded as generic.
A `to_numpy` whose overall shape it does not understand contributes no rows and is listed under `unanalysed`
(the dynamic check still compares all of its outputs); source that does not parse at all raises (fail closed).
Writes coq/theories/Generated/NumpyTables.v and returns the table (also used by the dynamic check).
"""
import ast, glob, os, sys
sys.path.insert(0, os.path.join(os.path.dirname(os.path.abspath(__file__)), '..', 'lib'))
import vf

PKG = 'python/fusion_engine_client/messages'


class Unsupported(Exception):
    pass


class StmtUnknown(Exception):
    """a statement inside to_numpy whose effect the translator cannot state with certainty"""
    pass


def _self_fields(cls_node):
    for f in cls_node.body:
        if isinstance(f, ast.FunctionDef) and f.name == '__init__':
            out = []
            for n in ast.walk(f):
                tg = []
                if isinstance(n, ast.Assign):
                    tg = n.targets
                elif isinstance(n, ast.AnnAssign):
                    tg = [n.target]
                for t in tg:
                    for tt in (t.elts if isinstance(t, ast.Tuple) else [t]):
                        if isinstance(tt, ast.Attribute) and isinstance(tt.value, ast.Name) and tt.value.id == 'self' \
                                and tt.attr not in out:
                            out.append(tt.attr)
            return out
    return None


def _attr_path(e, var):
    """m.a.b -> ['a','b'] when rooted at Name var, else None"""
    path = []
    while isinstance(e, ast.Attribute):
        path.append(e.attr)
        e = e.value
    if isinstance(e, ast.Name) and e.id == var and path:
        return list(reversed(path))
    return None


def _norm_elt(e, var):
    cast = ''
    if isinstance(e, ast.Call) and isinstance(e.func, ast.Name) and e.func.id in ('float', 'int', 'bool') \
            and len(e.args) == 1 and not e.keywords:
        cast = e.func.id
        e = e.args[0]
    p = _attr_path(e, var)
    return (p, cast) if p else (None, '')


def _is_len_messages_gt0(t):
    return (isinstance(t, ast.Compare) and len(t.ops) == 1 and isinstance(t.ops[0], ast.Gt)
            and isinstance(t.left, ast.Call) and isinstance(t.left.func, ast.Name) and t.left.func.id == 'len'
            and len(t.left.args) == 1 and isinstance(t.left.args[0], ast.Name) and t.left.args[0].id == 'messages'
            and isinstance(t.comparators[0], ast.Constant) and t.comparators[0].value == 0)


def _norm_value(e, env, mutated):
    """-> dict(kind, path, cast, transposed, text)"""
    text = ast.unparse(e)
    transposed = False
    if isinstance(e, ast.Name):
        if e.id in mutated or e.id not in env:
            return dict(kind='Opaque', path=[], cast='', transposed=False, text=text + '   (local variable, modified after creation)')
        return dict(_norm_value(env[e.id], env, mutated), text=text + ' = ' + ast.unparse(env[e.id]))
    if isinstance(e, ast.Attribute) and e.attr == 'T':
        transposed = True
        e = e.value
    if isinstance(e, ast.Call) and isinstance(e.func, ast.Attribute) and isinstance(e.func.value, ast.Name) \
            and e.func.value.id == 'np' and e.func.attr == 'array' and len(e.args) == 1 \
            and isinstance(e.args[0], ast.ListComp) and all(k.arg == 'dtype' for k in e.keywords):
        lc = e.args[0]
        if len(lc.generators) == 1 and not lc.generators[0].ifs and isinstance(lc.generators[0].target, ast.Name) \
                and isinstance(lc.generators[0].iter, ast.Name) and lc.generators[0].iter.id == 'messages':
            p, cast = _norm_elt(lc.elt, lc.generators[0].target.id)
            if p:
                return dict(kind='Each', path=p, cast=cast, transposed=transposed, text=text)
    if isinstance(e, ast.IfExp) and _is_len_messages_gt0(e.test) and not transposed:
        b = e.body
        path = []
        while isinstance(b, ast.Attribute):
            path.append(b.attr)
            b = b.value
        if path and isinstance(b, ast.Subscript) and isinstance(b.value, ast.Name) and b.value.id == 'messages' \
                and isinstance(b.slice, ast.Constant) and b.slice.value == 0:
            return dict(kind='First', path=list(reversed(path)), cast='', transposed=False, text=text)
    return dict(kind='Opaque', path=[], cast='', transposed=False, text=text)


def _analyse(cls_node, modname):
    fn = next(f for f in cls_node.body if isinstance(f, ast.FunctionDef) and f.name == 'to_numpy')
    if not any(isinstance(d, ast.Name) and d.id == 'classmethod' for d in fn.decorator_list):
        raise Unsupported('%s.to_numpy is not a classmethod' % cls_node.name)
    body = [s for s in fn.body if not (isinstance(s, ast.Expr) and isinstance(s.value, ast.Constant))]
    # generic: return cls._message_to_numpy(messages ...)
    if len(body) == 1 and isinstance(body[0], ast.Return) and isinstance(body[0].value, ast.Call) \
            and isinstance(body[0].value.func, ast.Attribute) and body[0].value.func.attr == '_message_to_numpy':
        return dict(cls=cls_node.name, module=modname, generic=True, rows=[], merges=[], rebinds_messages=False, ntd=[])
    env, mutated, rebinds = {}, set(), False
    dict_node, late, merges = None, [], []
    unknown_stmts, all_uncertain = [], False

    def handle(s, conditional):
        nonlocal dict_node, rebinds
        if isinstance(s, ast.Assign) and len(s.targets) == 1:
            t = s.targets[0]
            if isinstance(t, ast.Name):
                if t.id == 'messages':
                    rebinds = True
                elif t.id == 'result' and isinstance(s.value, ast.Dict) and not conditional and dict_node is None:
                    dict_node = s.value
                elif t.id == 'result':
                    raise Unsupported('%s.to_numpy: `result` assigned in a way the translator does not understand' % cls_node.name)
                else:
                    if t.id in env or conditional:
                        mutated.add(t.id)
                    env[t.id] = s.value
            elif isinstance(t, ast.Subscript) and isinstance(t.value, ast.Name):
                if t.value.id == 'result':
                    if not (isinstance(t.slice, ast.Constant) and isinstance(t.slice.value, str)):
                        raise StmtUnknown()
                    late.append((t.slice.value, s.value, conditional))
                else:
                    mutated.add(t.value.id)
            else:
                raise StmtUnknown()
        elif isinstance(s, ast.If):
            visit(s.body, True)
            visit(s.orelse, True)
        elif isinstance(s, ast.Expr) and isinstance(s.value, ast.Call) and isinstance(s.value.func, ast.Attribute) \
                and isinstance(s.value.func.value, ast.Name) and s.value.func.value.id == 'result' and s.value.func.attr == 'update':
            a = s.value.args[0] if len(s.value.args) == 1 else None
            ok = False
            if isinstance(a, ast.Call) and isinstance(a.func, ast.Attribute) and a.func.attr == 'to_numpy' \
                    and isinstance(a.func.value, ast.Name) and len(a.args) == 1 and isinstance(a.args[0], ast.ListComp):
                lc = a.args[0]
                if len(lc.generators) == 1 and isinstance(lc.generators[0].iter, ast.Name) and lc.generators[0].iter.id == 'messages' \
                        and isinstance(lc.generators[0].target, ast.Name) and not lc.generators[0].ifs:
                    p = _attr_path(lc.elt, lc.generators[0].target.id)
                    if p and not conditional:
                        merges.append((a.func.value.id, p))
                        ok = True
            if not ok:
                raise StmtUnknown()
        elif isinstance(s, ast.Return):
            if isinstance(s.value, ast.Dict) and dict_node is None and not conditional:
                dict_node = s.value
            elif isinstance(s.value, ast.Name) and s.value.id == 'result':
                pass
            else:
                raise Unsupported('%s.to_numpy: return %s' % (cls_node.name, ast.unparse(s.value)[:120] if s.value else ''))
        else:
            raise StmtUnknown()

    def visit(stmts, conditional):
        nonlocal all_uncertain, rebinds
        for s in stmts:
            try:
                handle(s, conditional)
            except StmtUnknown:
                # Effect not understood: every local it mentions may have been changed by it; if it mentions `result` or
                # `messages`, nothing the dict literal says can be relied on any more.
                unknown_stmts.append(ast.unparse(s).split('\n')[0][:100])
                if any(isinstance(n, ast.Return) for n in ast.walk(s)):
                    raise Unsupported('%s.to_numpy: return inside a statement the translator does not understand' % cls_node.name)
                names = {n.id for n in ast.walk(s) if isinstance(n, ast.Name)}
                if 'result' in names or 'messages' in names:
                    all_uncertain = True
                if 'messages' in {n.id for n in ast.walk(s) if isinstance(n, ast.Name) and isinstance(n.ctx, ast.Store)}:
                    rebinds = True
                mutated.update(names - {'result', 'messages', 'cls', 'np'})
    visit(body, False)
    if dict_node is None:
        raise Unsupported('%s.to_numpy: no result dict literal found' % cls_node.name)
    rows, ntd = [], []
    for k, v in zip(dict_node.keys, dict_node.values):
        if not (isinstance(k, ast.Constant) and isinstance(k.value, str)):
            raise Unsupported('%s.to_numpy: non-literal key' % cls_node.name)
        if k.value == '__metadata__':
            if not isinstance(v, ast.Dict):
                raise Unsupported('%s.to_numpy: __metadata__ is not a dict literal' % cls_node.name)
            for mk, mv in zip(v.keys, v.values):
                if isinstance(mk, ast.Constant) and mk.value == 'not_time_dependent':
                    if not (isinstance(mv, (ast.List, ast.Tuple)) and all(isinstance(x, ast.Constant) and isinstance(x.value, str) for x in mv.elts)):
                        raise Unsupported('%s.to_numpy: not_time_dependent is not a list of literals' % cls_node.name)
                    ntd = [x.value for x in mv.elts]
                else:
                    raise Unsupported('%s.to_numpy: unknown __metadata__ entry %s' % (cls_node.name, ast.unparse(mk)))
            continue
        rows.append(dict(key=k.value, **_norm_value(v, env, mutated)))
    for key, v, cond in late:
        r = dict(key=key, kind='Opaque', path=[], cast='', transposed=False,
                 text=ast.unparse(v) + ('   (assigned after the dict literal%s)' % (', conditionally' if cond else '')))
        rows = [x for x in rows if x['key'] != key] + [r]
    if all_uncertain:
        for r in rows:
            if r['kind'] != 'Opaque':
                r.update(kind='Opaque', path=[], text=r['text'] + '   (a later statement the translator does not understand touches result/messages)')
        ntd = []
    return dict(cls=cls_node.name, module=modname, generic=False, rows=rows, merges=merges, rebinds_messages=rebinds, ntd=ntd,
                unknown_stmts=unknown_stmts, all_uncertain=all_uncertain)


def build_table():
    files = sorted(glob.glob(os.path.join(vf.REPO, PKG, '*.py')))
    if not files:
        raise RuntimeError('gen_c16: no sources under ' + PKG)
    classes, analysed, unanalysed = {}, {}, {}
    for f in files:
        mod = os.path.basename(f)[:-3]
        tree = ast.parse(open(f).read(), filename=f)      # SyntaxError propagates: fail closed
        for c in tree.body:
            if isinstance(c, ast.ClassDef):
                classes[c.name] = (c, mod)
    def fields_of(name, depth=0):
        if name not in classes or depth > 8:
            return []
        node = classes[name][0]
        own = _self_fields(node)
        if own is not None:
            return own
        for b in node.bases:
            if isinstance(b, ast.Name) and b.id in classes:
                return fields_of(b.id, depth + 1)
        return []
    for name, (node, mod) in classes.items():
        if any(isinstance(f, ast.FunctionDef) and f.name == 'to_numpy' for f in node.body):
            try:
                a = _analyse(node, mod)
            except Unsupported as e:
                # a body shape the translator does not understand: the whole class is left to the dynamic comparison
                unanalysed[name] = str(e)
                a = dict(cls=name, module=mod, generic=False, rows=[], merges=[], rebinds_messages=False, ntd=[], unanalysed=True)
            a['fields'] = fields_of(name)
            analysed[name] = a
    if 'MessagePayload' not in analysed or not analysed['MessagePayload']['generic']:
        raise RuntimeError('gen_c16: MessagePayload.to_numpy is no longer the generic _message_to_numpy path')
    # flatten merges (result.update(Other.to_numpy([m.details ...])))
    table = []
    for name, a in sorted(analysed.items()):
        if a['generic']:
            continue
        rows = {}
        for r in a['rows']:
            rows[r['key']] = dict(r, prefix=[], fields=a['fields'], ntd=r['key'] in a['ntd'], via='')
        for other, prefix in a['merges']:
            if other not in analysed or analysed[other]['generic'] or analysed[other]['merges'] or analysed[other].get('unanalysed'):
                unanalysed[name + ' (merged part)'] = 'merges %s.to_numpy which the translator cannot resolve' % other
                continue
            for r in analysed[other]['rows']:
                r = dict(r)
                if a.get('all_uncertain') and r['kind'] != 'Opaque':
                    r.update(kind='Opaque', path=[])
                rows[r['key']] = dict(r, path=(prefix + r['path']) if r['path'] else [], prefix=prefix, fields=analysed[other]['fields'],
                                      ntd=r['key'] in analysed[other]['ntd'], via=other)
        if a.get('unknown_stmts'):
            unanalysed[name + ' (statements)'] = 'not understood: ' + ' ;; '.join(a['unknown_stmts']) + (' -> all rows Opaque' if a.get('all_uncertain') else ' -> locals involved treated as modified')
        table.append(dict(cls=name, module=a['module'], rebinds_messages=a['rebinds_messages'], fields=a['fields'],
                          ntd=a['ntd'], rows=list(rows.values())))
    # classes inheriting a non-generic to_numpy from a base in the package
    inherits = {}
    for name, (node, mod) in classes.items():
        if name in analysed:
            continue
        seen, cur = 0, node
        while cur is not None and seen < 8:
            seen += 1
            nxt = None
            for b in cur.bases:
                if isinstance(b, ast.Name) and b.id in classes:
                    nxt = b.id
            if nxt is None:
                break
            if nxt in analysed:
                if not analysed[nxt]['generic']:
                    inherits[name] = nxt
                break
            cur = classes[nxt][0]
    return dict(classes=table, generic_base='MessagePayload', inherits=inherits, unanalysed=unanalysed)


def _cs(s):
    return vf.coq_str(s)


def _cl(xs):
    return '[' + '; '.join(_cs(x) for x in xs) + ']'


def generate():
    t = build_table()
    out = vf.gen_header([PKG + '/*.py'])
    out += 'From Coq Require Import List String Bool.\nImport ListNotations.\nLocal Open Scope string_scope.\n\n'
    out += ('Inductive np_source := Each (path : list string) | First (path : list string) | Opaque.\n'
            'Record np_row := { r_class : string; r_key : string; r_src : np_source; r_ntd : bool;\n'
            '                   r_prefix : list string;   (* attribute through which another class\'s rows were merged in *)\n'
            '                   r_fields : list string }. (* fields of the class the key is compared with *)\n\n')
    fieldsets = {}
    defs, rows = [], []
    for c in t['classes']:
        for r in c['rows']:
            fs = tuple(r['fields'])
            if fs not in fieldsets:
                fieldsets[fs] = 'np_fields_%d' % len(fieldsets)
                defs.append('Definition %s : list string := %s.' % (fieldsets[fs], _cl(fs)))
            src = 'Opaque' if r['kind'] == 'Opaque' else '%s %s' % (r['kind'], _cl(r['path']))
            rows.append('  {| r_class := %s; r_key := %s; r_src := %s; r_ntd := %s; r_prefix := %s; r_fields := %s |}'
                        % (_cs(c['cls']), _cs(r['key']), src, 'true' if r['ntd'] else 'false', _cl(r['prefix']), fieldsets[fs]))
    out += '\n'.join(defs) + '\n\n'
    out += 'Definition np_rows : list np_row := [\n' + ';\n'.join(rows) + '\n].\n\n'
    out += 'Definition np_declared_ntd : list (string * list string) := [%s].\n' % '; '.join(
        '(%s, %s)' % (_cs(c['cls']), _cl(c['ntd'])) for c in t['classes'] if c['ntd'])
    out += 'Definition np_rebinds_messages : list string := %s.\n' % _cl([c['cls'] for c in t['classes'] if c['rebinds_messages']])
    vf.write_if_changed(os.path.join(vf.THEORIES, 'Generated', 'NumpyTables.v'), out)
    return t


if __name__ == '__main__':
    import json
    t = generate()
    n = sum(len(c['rows']) for c in t['classes'])
    print('%d classes, %d rows, %d opaque' % (len(t['classes']), n, sum(1 for c in t['classes'] for r in c['rows'] if r['kind'] == 'Opaque')))
    for c in t['classes']:
        for r in c['rows']:
            if r['kind'] == 'Opaque':
                print('  opaque', c['cls'], r['key'], '<-', r['text'][:90])
    print('inherits', t['inherits'])
