"""Generated/DynEnumTables.v: the member table (name, value — aliases included, in definition order) of every
IntEnum subclass defined in the fusion_engine_client package, the parameters of every enum_bitmask helper, the
reserved prefix / separator of hidden member names and the list of names enum_bitmask treats as internals.

Tables come from importing the package in a fresh IMPL interpreter (harness/py/c17_tables.py); the prefix constant
is read from the source text and from the imported class (they must agree), the separator of hidden member names
from the name a scratch class gives to an unknown value.  Fail closed: anything unexpected raises."""
import json, os, re, subprocess, sys
sys.path.insert(0, os.path.join(os.path.dirname(__file__), '..', 'lib'))
import vf

SRC = 'python/fusion_engine_client/utils/enum_utils.py'
OUT = os.path.join(vf.THEORIES, 'Generated', 'DynEnumTables.v')
NAME_OK = re.compile(r'^[A-Za-z_][A-Za-z0-9_]*$')


def introspect():
    p = subprocess.run([vf.PY, os.path.join(vf.VERIF, 'harness/py/c17_tables.py')], env=vf.IMPL_ENV,
                       capture_output=True, text=True, timeout=300)
    if p.returncode != 0 or not p.stdout.strip():
        raise RuntimeError('gen_c17: introspection failed rc=%s\n%s' % (p.returncode, p.stderr[-2000:]))
    return json.loads(p.stdout)


def key(e):
    return e['module'] + ':' + e['qualname']


def coq_members(ms):
    return '[' + '; '.join('(%s, %s)' % (vf.coq_str(n), zlit(v)) for n, v in ms) + ']'


def zlit(v):
    return '(%d)' % v if v < 0 else '%d' % v


def wide_enum_names(info):
    """enums that travel in a 16-bit (or wider) wire field: AutoEnum(Int16u?/Int32u?, X) in the package source, and
    MessageType (uint16 field of the message header)."""
    names = set()
    root = os.path.join(vf.REPO, 'python', 'fusion_engine_client')
    for dp, _, fs in os.walk(root):
        for f in fs:
            if f.endswith('.py'):
                txt = open(os.path.join(dp, f), encoding='utf-8', errors='replace').read()
                for m in re.finditer(r'AutoEnum\(\s*Int(?:16|32|64)[us][lb]\s*,\s*([A-Za-z_][A-Za-z0-9_.]*)', txt):
                    names.add(m.group(1).split('.')[-1])
    names.add('MessageType')
    return sorted(k for k in (key(e) for e in info['enums']) if k.split(':')[1].split('.')[-1] in names)


def generate():
    txt = vf.repo_file(SRC)
    m = re.search(r"UNRECOGNIZED_PREFIX\s*=\s*'([^'\\]*)'", txt)
    if not m:
        raise RuntimeError('gen_c17: UNRECOGNIZED_PREFIX literal not found in enum_utils.py')
    prefix = m.group(1)
    info = introspect()
    sep = info['sep']
    if info['prefix'] != prefix:
        raise RuntimeError('gen_c17: prefix in source %r differs from the imported class attribute %r' % (prefix, info['prefix']))
    for mod, why in info['skipped_modules']:
        path = os.path.join(vf.REPO, 'python', *mod.split('.')) + '.py'
        src = open(path).read() if os.path.exists(path) else open(os.path.join(os.path.dirname(path), mod.split('.')[-1], '__init__.py')).read()
        if re.search(r'\bIntEnum\b|enum_bitmask', src):
            raise RuntimeError('gen_c17: module %s could not be imported (%s) but mentions IntEnum' % (mod, why))
    enums = info['enums']
    if not enums:
        raise RuntimeError('gen_c17: no IntEnum subclasses found')
    keys = [key(e) for e in enums]
    if len(set(keys)) != len(keys):
        raise RuntimeError('gen_c17: duplicate enum names')
    for e in enums:
        for n, v in e['members']:
            if not NAME_OK.match(n) or not isinstance(v, int):
                raise RuntimeError('gen_c17: member %r=%r of %s is outside the modelled name alphabet' % (n, v, key(e)))
    for n in info['internals'] + [prefix, sep]:
        if not n.isascii():
            raise RuntimeError('gen_c17: non-ASCII constant %r' % n)
    masks = []
    for e in enums:
        if 'mask' in e:
            mk = e['mask']
            if mk['enum'] is None or mk['enum'] not in keys:
                raise RuntimeError('gen_c17: mask %s derives from an enum that is not in the tables: %r' % (key(e), mk['enum']))
            src = next(x for x in enums if key(x) == mk['enum'])
            src_names = {n for n, _ in src['members']}
            base = sorted([[n, v] for n, v in e['members'] if n not in src_names])
            masks.append({'mask': key(e), 'enum': mk['enum'], 'offset': mk['offset'], 'values': mk['values'], 'base': base})
    wide = wide_enum_names(info)
    t = vf.gen_header([SRC, 'import of every module of fusion_engine_client']) + \
        'From Coq Require Import ZArith List String.\nImport ListNotations.\nLocal Open Scope Z_scope.\nLocal Open Scope string_scope.\n\n'
    t += '(* DynamicEnumMeta.UNRECOGNIZED_PREFIX and the separator of f"{prefix}<sep>{value}" *)\n'
    t += 'Definition unrecognized_prefix : string := %s.\nDefinition hidden_sep : string := %s.\n\n' % (vf.coq_str(prefix), vf.coq_str(sep))
    t += '(* names inspect.getmembers reports for an empty IntEnum subclass (skipped by enum_bitmask) *)\n'
    t += 'Definition enum_internals : list string := [%s].\n\n' % '; '.join(vf.coq_str(n) for n in info['internals'])
    t += '(* (module:qualname, _member_map_ items in insertion order) *)\n'
    t += 'Definition enum_tables : list (string * list (string * Z)) := [\n'
    t += ';\n'.join('  (%s, %s)' % (vf.coq_str(key(e)), coq_members(e['members'])) for e in enums) + '\n].\n\n'
    t += '(* enum_bitmask helpers found in the package: ((mask, enum), offset, extra members of the template class, _enum_values) *)\n'
    t += 'Definition mask_tables : list ((string * string) * Z * list (string * Z) * list (string * Z)) := [\n'
    t += ';\n'.join('  ((%s, %s), %s, %s, %s)' % (vf.coq_str(mk['mask']), vf.coq_str(mk['enum']), zlit(mk['offset']),
                                                coq_members(mk['base']), coq_members(mk['values'])) for mk in masks) + '\n].\n'
    vf.write_if_changed(OUT, t)
    return {'prefix': prefix, 'sep': sep, 'enums': enums, 'masks': masks, 'wide': wide, 'internals': info['internals'],
            'skipped_modules': info['skipped_modules']}


if __name__ == '__main__':
    r = generate()
    print(len(r['enums']), 'enums;', len(r['masks']), 'masks; wide:', r['wide'], '; skipped:', r['skipped_modules'])
