"""C01 translator.  Generates, from /repo's working tree, on every run:

  Generated/LayoutPy.v     one wire description per payload class (py_descriptions : list (N * Codec_desc)),
                           derived by harness/py/c01_describe.py inside the implementation's interpreter
                           (construct objects walked; struct-based classes probed)
  Generated/CodecConsts.v  the constants of Timestamp.pack/unpack and TimestampAdapter (sentinel, 1e-9, 1e9, carry
                           threshold), after checking that the four function bodies still have the statements
                           Models/CodecTs.v and Models/TimestampF.v transcribe (fail closed otherwise)
  build/c01/descriptions.json  the same descriptions with attribute paths, for the correspondence run

Fail closed: a class the description language cannot express is *listed* (it is then covered by the law
evaluation only); an error in the back end, or Timestamp code that no longer matches, raises.
"""
import ast, json, os, struct, subprocess, sys
sys.path.insert(0, os.path.join(os.path.dirname(os.path.abspath(__file__)), '..', 'lib'))
import vf

DESCRIBE = os.path.join(vf.VERIF, 'harness/py/c01_describe.py')
TS_SRC = 'python/fusion_engine_client/messages/timestamp.py'

EXPECT = {
    ('Timestamp', 'pack'): [
        'if math.isnan(self.seconds):\n    int_part = Timestamp._INVALID\n    frac_part_ns = Timestamp._INVALID\nelse:\n    int_part = int(self.seconds)\n'
        '    frac_part_ns = int(round((self.seconds - int_part) * {ENC}))\n    if frac_part_ns >= {CARRY}:\n        int_part += 1\n        frac_part_ns -= {CARRY}',
        'if buffer is None:\n    buffer = struct.pack(Timestamp._FORMAT, int_part, frac_part_ns)\nelse:\n    args = (int_part, frac_part_ns)\n'
        '    struct.pack_into(Timestamp._FORMAT, buffer, offset, *args)',
        'if return_buffer:\n    return buffer\nelse:\n    return self.calcsize()'],
    ('Timestamp', 'unpack'): [
        'int_part, frac_part_ns = struct.unpack_from(Timestamp._FORMAT, buffer, offset)',
        'if int_part == Timestamp._INVALID or frac_part_ns == Timestamp._INVALID:\n    self.seconds = math.nan\nelse:\n    self.seconds = int_part + frac_part_ns * {DEC}',
        'return Timestamp._SIZE'],
    ('TimestampAdapter', '_decode'): [
        'if obj.int_part == Timestamp._INVALID or obj.frac_part_ns == Timestamp._INVALID:\n    seconds = math.nan\nelse:\n    seconds = obj.int_part + obj.frac_part_ns * {DEC}',
        'return Timestamp(seconds)'],
    ('TimestampAdapter', '_encode'): [
        'if math.isnan(obj.seconds):\n    int_part = Timestamp._INVALID\n    frac_part_ns = Timestamp._INVALID\nelse:\n    int_part = int(obj.seconds)\n'
        '    frac_part_ns = int(round((obj.seconds - int_part) * {ENC}))\n    if frac_part_ns >= {CARRY}:\n        int_part += 1\n        frac_part_ns -= {CARRY}',
        "return {'int_part': int_part, 'frac_part_ns': frac_part_ns}"],
}


def _consts_of(node, kinds):
    return [n.value for n in ast.walk(node) if isinstance(n, ast.Constant) and isinstance(n.value, kinds) and not isinstance(n.value, bool)]


def timestamp_consts():
    tree = ast.parse(vf.repo_file(TS_SRC))
    got, inv, fmt = {}, None, None
    for node in tree.body:
        if isinstance(node, ast.ClassDef) and node.name in ('Timestamp', 'TimestampAdapter'):
            for f in node.body:
                if isinstance(f, ast.FunctionDef) and (node.name, f.name) in EXPECT:
                    body = [s for s in f.body if not (isinstance(s, ast.Expr) and isinstance(s.value, ast.Constant))]   # drop docstrings/comments
                    got[(node.name, f.name)] = body
                if node.name == 'Timestamp' and isinstance(f, ast.Assign) and len(f.targets) == 1 and isinstance(f.targets[0], ast.Name):
                    if f.targets[0].id == '_INVALID':
                        inv = ast.literal_eval(f.value)
                    if f.targets[0].id == '_FORMAT':
                        fmt = ast.literal_eval(f.value)
    if set(got) != set(EXPECT) or inv is None or fmt != '<II':
        raise RuntimeError('gen_c01: Timestamp / TimestampAdapter functions not found as expected (format %r, invalid %r, found %r)' % (fmt, inv, sorted(got)))
    # constants: the float factors and the integer carry threshold
    floats_dec = set(_consts_of(got[('Timestamp', 'unpack')][1], float)) | set(_consts_of(got[('TimestampAdapter', '_decode')][0], float))
    floats_enc = set(_consts_of(got[('Timestamp', 'pack')][0], float)) | set(_consts_of(got[('TimestampAdapter', '_encode')][0], float))
    ints_enc = set(x for x in _consts_of(got[('Timestamp', 'pack')][0], int) if x > 1) | set(x for x in _consts_of(got[('TimestampAdapter', '_encode')][0], int) if x > 1)
    if len(floats_dec) != 1 or len(floats_enc) != 1 or len(ints_enc) != 1:
        raise RuntimeError('gen_c01: Timestamp constants not unique: %r %r %r' % (floats_dec, floats_enc, ints_enc))
    dec, enc, carry = floats_dec.pop(), floats_enc.pop(), ints_enc.pop()
    for key, want in EXPECT.items():
        have = [ast.unparse(s) for s in got[key]]
        want = [w.replace('{DEC}', repr(dec)).replace('{ENC}', repr(enc)).replace('{CARRY}', repr(carry)) for w in want]
        if have != want:
            raise RuntimeError('gen_c01: %s.%s no longer has the statements the timestamp models transcribe:\n--- source\n%s\n--- expected\n%s'
                               % (key[0], key[1], '\n'.join(have), '\n'.join(want)))
    bits = lambda x: struct.unpack('<Q', struct.pack('<d', x))[0]
    return {'ts_invalid': inv, 'ts_dec_factor_bits': bits(dec), 'ts_enc_factor_bits': bits(enc), 'ts_carry_at': carry,
            'dec_factor': dec, 'enc_factor': enc}


def run_describe():
    p = subprocess.run([vf.PY, DESCRIBE], capture_output=True, text=True, timeout=600, env=vf.IMPL_ENV)
    lines = [l for l in p.stdout.split('\n') if l.startswith('{')]
    if p.returncode != 0 or not lines:
        raise RuntimeError('gen_c01: description back end failed (rc=%s): %s' % (p.returncode, p.stderr[-2000:]))
    return json.loads(lines[-1])


def coq_adapter(ad, ids):
    t = ad[0]
    if t == 'id': return 'AId'
    if t == 'bool': return 'ABool'
    if t == 'quiet32': return 'AQuiet32'
    if t == 'strict': return '(AStrict [%s])' % '; '.join('(%d)' % m for m in ad[1])
    if t == 'sentinel': return '(ASentinel (%d))' % ad[1]
    if t == 'count': return '(ACount %d)' % ids[ad[1]]
    if t == 'ts': return 'ATimestamp'
    raise RuntimeError('gen_c01: adapter %r' % (ad,))


def _number_record(items):
    m = 0
    for b in items:
        if b['t'] in ('field', 'str'):
            m += 1; b['id'] = m


def assign_ids(desc):
    """number the fields / parts 1.. in wire order (the records of counted / conditional / tagged parts have their own numbering)"""
    ids, n = {}, 0
    for it in desc['items']:
        if it['t'] in ('field', 'counted', 'bytes', 'switch', 'tagged', 'str'):
            n += 1
            it['id'] = n
            ids[it['name']] = n
        if it['t'] == 'counted':
            _number_record(it['body'])
        if it['t'] == 'switch':
            for c in it['cases'].values():
                _number_record(c['items'])
        if it['t'] == 'tagged':
            for c in it['cases'].values():
                _number_record(c['items'])
            if it['sub']:
                _number_record(it['sub']['hdr'])
                for c in it['sub']['cases'].values():
                    _number_record(c['items'])
    return ids


def coq_item(it, ids):
    if it['t'] == 'pad':
        return 'IPad [%s]' % '; '.join(str(b) for b in it['bytes'])
    if it['t'] == 'str':
        return 'IStr %d %d' % (it['id'], it['n'])
    return 'IField %d %s %s' % (it['id'], it['kind'], coq_adapter(it['adapter'], ids))


def coq_items(items, ids):
    return '[%s]' % '; '.join(coq_item(b, ids) for b in items)


def coq_cases(cases, ids):
    return '[%s]' % '; '.join('(%d, %s)' % (int(v), coq_items(c['items'], ids)) for v, c in sorted(cases.items(), key=lambda kv: int(kv[0])))


def coq_desc(desc):
    ids = assign_ids(desc)
    out = []
    for it in desc['items']:
        if it['t'] in ('field', 'pad', 'str'):
            c = 'WItem (%s)' % coq_item(it, ids)
            if it['t'] == 'field':
                c += '   (* %s *)' % (it['paths'][0] if it.get('paths') else it['name'])
        elif it['t'] == 'counted':
            cnt = ids[it['cnt']]
            c = 'WCounted %d %d %s   (* %s *)' % (it['id'], cnt, coq_items(it['body'], ids), it['path'])
            it['cnt_id'] = cnt
        elif it['t'] == 'bytes':
            l = it['len']
            ln = 'LGreedy' if l[0] == 'greedy' else ('(LFixed %d)' % l[1] if l[0] == 'fixed' else '(LCount %d)' % ids[l[1]])
            if l[0] == 'count':
                it['cnt_id'] = ids[l[1]]
            m = it.get('mode', ['raw'])
            if m[0] == 'raw':
                md = 'BRaw'
            elif m[0] == 'str':
                md = 'BStr'
            elif m[0] == 'rewrite':
                it['rewrite_tag_id'] = ids[m[1]]
                md = '(BRewrite %d [%s] [%s] [%s])' % (ids[m[1]], '; '.join(str(v) for v in m[2]), '; '.join(str(v) for v in m[3]), '; '.join(str(v) for v in m[4]))
            else:
                raise RuntimeError('gen_c01: byte mode %r' % (m,))
            c = 'WBytes %d %s %s   (* %s *)' % (it['id'], ln, md, it['path'])
        elif it['t'] == 'switch':
            it['tag_id'] = ids[it['tag']]
            c = 'WSwitch %d %d %s   (* %s *)' % (it['id'], ids[it['tag']], coq_cases(it['cases'], ids), it['name'])
        elif it['t'] == 'tagged':
            it['tag_id'], it['len_id'] = ids[it['tag']], ids[it['len']]
            skip = 'None'
            if it['skip']:
                it['skip_id'] = ids[it['skip'][0]]
                skip = 'Some (%d%%N, %d)' % (ids[it['skip'][0]], it['skip'][1])
            sub = 'None'
            if it['sub']:
                sidf = next(h for h in it['sub']['hdr'] if h['t'] == 'field' and h['name'] == it['sub']['sid'])
                it['sub']['sid_id'] = sidf['id']
                sub = 'Some (%d, %s, %d%%N, %s)' % (it['sub']['tag_value'], coq_items(it['sub']['hdr'], ids), sidf['id'], coq_cases(it['sub']['cases'], ids))
            c = ('WTagged %d {| tg_tag := %d; tg_len := %d; tg_skip := %s;\n        tg_cases := %s;\n        tg_sub := %s;\n        tg_opaque := %s |}   (* %s *)'
                 % (it['id'], ids[it['tag']], ids[it['len']], skip, coq_cases(it['cases'], ids), sub, 'true' if it['opaque'] else 'false', it['name']))
        else:
            raise RuntimeError('gen_c01: item type %r' % it['t'])
        out.append(c)
    # separators must precede the trailing comment
    lines = []
    for i, c in enumerate(out):
        code, _, com = c.partition('   (*')
        lines.append('    ' + code + (';' if i + 1 < len(out) else '') + ('   (*' + com if com else ''))
    return '[\n' + '\n'.join(lines) + '\n  ]'


def generate():
    ts_error, consts = None, None
    try:
        consts = timestamp_consts()
        text = vf.gen_header([TS_SRC]) + 'From Coq Require Import ZArith.\nOpen Scope Z_scope.\n'
        for k in ('ts_invalid', 'ts_dec_factor_bits', 'ts_enc_factor_bits', 'ts_carry_at'):
            text += 'Definition %s : Z := %d.\n' % (k, consts[k])
        vf.write_if_changed(os.path.join(vf.THEORIES, 'Generated', 'CodecConsts.v'), text)
    except RuntimeError as e:
        ts_error = e        # raised at the end, after the descriptions (which do not depend on it) have been written

    descs = run_describe()
    keys = [k for k in descs if 'inexpressible' not in descs[k]]
    text = vf.gen_header(['python/fusion_engine_client/messages/*.py (via harness/py/c01_describe.py)'])
    text += 'From Coq Require Import ZArith NArith List.\nFrom FEC Require Import Models.CodecM.\nImport ListNotations.\nOpen Scope Z_scope.\n\n'
    names = []
    for i, k in enumerate(keys, 1):
        d = descs[k]
        d['index'] = i
        cname = 'py_d_' + ''.join(ch if ch.isalnum() else '_' for ch in k)
        names.append((i, cname))
        text += '(* %s — %s *)\nDefinition %s : Codec_desc := %s.\n\n' % (k, d['source'], cname, coq_desc(d))
    text += 'Definition py_descriptions : list (N * Codec_desc) := [\n' + ';\n'.join('  (%d%%N, %s)' % (i, n) for i, n in names) + '\n].\n'
    inexp = {k: descs[k]['inexpressible'] for k in descs if 'inexpressible' in descs[k]}
    text += '\n(* not expressible in the description language (law evaluation only):\n' + ''.join('   %s: %s\n' % (k, v.replace('*)', '* )')) for k, v in inexp.items()) + '*)\n'
    vf.write_if_changed(os.path.join(vf.THEORIES, 'Generated', 'LayoutPy.v'), text)
    out = {'consts': consts, 'descriptions': {k: descs[k] for k in keys}, 'inexpressible': inexp}
    os.makedirs(os.path.join(vf.BUILD, 'c01'), exist_ok=True)
    vf.write_if_changed(os.path.join(vf.BUILD, 'c01', 'descriptions.json'), json.dumps(out))
    if ts_error is not None:
        raise ts_error
    return out


if __name__ == '__main__':
    r = generate()
    print('described %d classes; inexpressible: %s' % (len(r['descriptions']), ', '.join(r['inexpressible'])))
