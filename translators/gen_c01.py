"""C01 translator.  Generates, from /repo's working tree, on every run:

  Generated/LayoutPy.v     one wire description per payload class (py_descriptions : list (N * Codec_desc)),
                           derived by harness/py/c01_describe.py inside the implementation's interpreter
                           (construct objects walked; struct-based classes probed)
  Generated/CodecConsts.v  the constants of Timestamp.pack/unpack and TimestampAdapter (sentinel, 1e-9, 1e9, carry
                           threshold), obtained by evaluating the working tree (attribute read + probing), after
                           confirming on a probe set that the behaviour has the shape Models/CodecTs.v and
                           Models/TimestampF.v transcribe (fail closed otherwise)
  build/c01/descriptions.json  the same descriptions with attribute paths, for the correspondence run

Fail closed: a class the description language cannot express is *listed* (it is then covered by the law
evaluation only); an error in the back end, or Timestamp code that no longer matches, raises.
"""
import json, os, struct, subprocess, sys
sys.path.insert(0, os.path.join(os.path.dirname(os.path.abspath(__file__)), '..', 'lib'))
import vf

DESCRIBE = os.path.join(vf.VERIF, 'harness/py/c01_describe.py')
TS_SRC = 'python/fusion_engine_client/messages/timestamp.py'

def _bits(x):
    return struct.unpack('<Q', struct.pack('<d', x))[0]


def _float(b):
    return struct.unpack('<d', struct.pack('<Q', b))[0]


def _model_dec(sec, ns, inv, c):
    """the computation Models/CodecTs.v / TimestampF.v transcribe: NaN on a sentinel field, else sec + ns * c"""
    if sec == inv or ns == inv:
        return None
    return _bits(sec + (ns * c))


def _model_enc(bits, inv, k, carry):
    """NaN -> sentinel pair; else int part, fraction * k rounded to nearest (ties to even), carry at `carry`; struct range errors"""
    if bits is None:
        return [inv, inv]
    x = _float(bits)
    try:
        ip = int(x)
        fr = int(round((x - ip) * k))
    except (OverflowError, ValueError):
        return 'raise'
    if fr >= carry:
        ip += 1; fr -= carry
    if not (0 <= ip < (1 << 32) and 0 <= fr < (1 << 32)):
        return 'raise'
    return [ip, fr]


def timestamp_consts():
    """The constants of Timestamp.pack/unpack and TimestampAdapter, obtained by EVALUATING the working tree (no source
    text is matched): the sentinel is read and confirmed by probing, the decode factor is what unpack makes of
    (0 s, 1 ns), and the shape the models transcribe (sec + ns * c; int part, fraction * 1e9 rounded to nearest-even,
    carry at 10^9; struct range errors) is confirmed on a probe set.  Fail closed only if the behaviour is not of
    that shape."""
    import random
    r = random.Random(12345)
    dec_probe = [(0, 1), (0, 0), (1, 0), (0, 999999999), (529378, 273878287), (4294967294, 999999999), (7, 4294967294), (123, 1000000000)]
    dec_probe += [(r.randrange(1 << 32), r.randrange(1 << 32)) for _ in range(40)] + [(r.randrange(1 << 31), r.randrange(10 ** 9)) for _ in range(60)]
    dec_probe += [(0xFFFFFFFF, 5), (5, 0xFFFFFFFF), (0xFFFFFFFF, 0xFFFFFFFF)]
    enc_probe = [None] + [_bits(x) for x in (0.0, 1.0, 1.5e-9, 2.5e-9, 3.5e-9, 0.5e-9, 0.9999999996, 0.9999999994, 1.9999999999, 529378.273878287, 1e9 + 0.123456789,
                                            4294967294.5, 4294967295.0, 4294967295.9999995, 4294967296.0, 1e12, -1.0, -0.25, 8388607.999999999, 16777216.000000004,
                                            float('inf'))]
    enc_probe += [_bits(r.uniform(0, 2 ** e)) for e in range(1, 33) for _ in range(3)]
    p = subprocess.run([vf.PY, os.path.join(vf.VERIF, 'harness/py/c01_laws.py'), 'tsprobe'], input=json.dumps({'dec': dec_probe, 'enc': enc_probe}),
                       capture_output=True, text=True, timeout=300, env=vf.IMPL_ENV)
    lines = [l for l in p.stdout.split('\n') if l.startswith('{')]
    if p.returncode != 0 or not lines:
        raise RuntimeError('gen_c01: timestamp probe failed (rc=%s): %s' % (p.returncode, p.stderr[-1500:]))
    out = json.loads(lines[-1])
    if out['size'] != 8:
        raise RuntimeError('gen_c01: a serialized Timestamp is %d bytes, the models assume two 32-bit fields' % out['size'])
    c_bits = out['dec'][0][0]
    if c_bits is None or out['dec'][0][1] != c_bits:
        raise RuntimeError('gen_c01: unpack of (0 s, 1 ns) gives %r / %r' % tuple(out['dec'][0]))
    c = _float(c_bits)
    inv = out['invalid_attr']
    if not (0 < inv < (1 << 32)) or out['dec'][-1] != [None, None] or out['dec'][-2] != [None, None] or out['dec'][-3] != [None, None]:
        raise RuntimeError('gen_c01: sentinel %r is not confirmed by unpack' % inv)
    for (sec, ns), (a, b) in zip(dec_probe, out['dec']):
        want = _model_dec(sec, ns, inv, c)
        if a != want or b != want:
            raise RuntimeError('gen_c01: Timestamp unpack is not of the modelled shape sec + ns * %r: (%d, %d) -> %r / %r, model %r' % (c, sec, ns, a, b, want))
    k, carry = 1e9, 10 ** 9
    for bits, (a, b) in zip(enc_probe, out['enc']):
        want = _model_enc(bits, inv, k, carry)
        got_a = 'raise' if isinstance(a, str) else a
        got_b = 'raise' if isinstance(b, str) else b
        if got_a != want or got_b != want:
            raise RuntimeError('gen_c01: Timestamp pack is not of the modelled shape (int part; round((x - int) * 1e9) to nearest-even; carry at 10^9): '
                               '%r -> %r / %r, model %r' % (None if bits is None else _float(bits), a, b, want))
    return {'ts_invalid': inv, 'ts_dec_factor_bits': c_bits, 'ts_enc_factor_bits': _bits(k), 'ts_carry_at': carry, 'dec_factor': c, 'enc_factor': k}


def run_describe():
    p = subprocess.run([vf.PY, DESCRIBE], capture_output=True, text=True, timeout=600, env=vf.IMPL_ENV)
    lines = [l for l in p.stdout.split('\n') if l.startswith('{')]
    if p.returncode != 0 or not lines:
        raise RuntimeError('gen_c01: description back end failed (rc=%s): %s' % (p.returncode, p.stderr[-2000:]))
    return json.loads(lines[-1])


def coq_adapter(ad, ids):
    t = ad[0]
    if t == 'id': return 'AId'
    if t == 'bool': return 'ABool'
    if t == 'quiet32': return 'AQuiet32'
    if t == 'strict': return '(AStrict [%s])' % '; '.join('(%d)' % m for m in ad[1])
    if t == 'sentinel': return '(ASentinel (%d))' % ad[1]
    if t == 'count': return '(ACount %d)' % ids[ad[1]]
    if t == 'ts': return 'ATimestamp'
    raise RuntimeError('gen_c01: adapter %r' % (ad,))


def _number_record(items):
    m = 0
    for b in items:
        if b['t'] in ('field', 'str'):
            m += 1; b['id'] = m


def assign_ids(desc):
    """number the fields / parts 1.. in wire order (the records of counted / conditional / tagged parts have their own numbering)"""
    ids, n = {}, 0
    for it in desc['items']:
        if it['t'] in ('field', 'counted', 'bytes', 'switch', 'tagged', 'str'):
            n += 1
            it['id'] = n
            ids[it['name']] = n
        if it['t'] == 'counted':
            _number_record(it['body'])
        if it['t'] == 'switch':
            for c in it['cases'].values():
                _number_record(c['items'])
        if it['t'] == 'tagged':
            for c in it['cases'].values():
                _number_record(c['items'])
            if it['sub']:
                _number_record(it['sub']['hdr'])
                for c in it['sub']['cases'].values():
                    _number_record(c['items'])
    return ids


def coq_item(it, ids):
    if it['t'] == 'pad':
        return 'IPad [%s]' % '; '.join(str(b) for b in it['bytes'])
    if it['t'] == 'str':
        return 'IStr %d %d' % (it['id'], it['n'])
    return 'IField %d %s %s' % (it['id'], it['kind'], coq_adapter(it['adapter'], ids))


def coq_items(items, ids):
    return '[%s]' % '; '.join(coq_item(b, ids) for b in items)


def coq_cases(cases, ids):
    return '[%s]' % '; '.join('(%d, %s)' % (int(v), coq_items(c['items'], ids)) for v, c in sorted(cases.items(), key=lambda kv: int(kv[0])))


def coq_desc(desc):
    ids = assign_ids(desc)
    out = []
    for it in desc['items']:
        if it['t'] in ('field', 'pad', 'str'):
            c = 'WItem (%s)' % coq_item(it, ids)
            if it['t'] == 'field':
                c += '   (* %s *)' % (it['paths'][0] if it.get('paths') else it['name'])
        elif it['t'] == 'counted':
            cnt = ids[it['cnt']]
            c = 'WCounted %d %d %s   (* %s *)' % (it['id'], cnt, coq_items(it['body'], ids), it['path'])
            it['cnt_id'] = cnt
        elif it['t'] == 'bytes':
            l = it['len']
            ln = 'LGreedy' if l[0] == 'greedy' else ('(LFixed %d)' % l[1] if l[0] == 'fixed' else '(LCount %d)' % ids[l[1]])
            if l[0] == 'count':
                it['cnt_id'] = ids[l[1]]
            m = it.get('mode', ['raw'])
            if m[0] == 'raw':
                md = 'BRaw'
            elif m[0] == 'str':
                md = 'BStr'
            elif m[0] == 'rewrite':
                it['rewrite_tag_id'] = ids[m[1]]
                md = '(BRewrite %d [%s] [%s] [%s])' % (ids[m[1]], '; '.join(str(v) for v in m[2]), '; '.join(str(v) for v in m[3]), '; '.join(str(v) for v in m[4]))
            else:
                raise RuntimeError('gen_c01: byte mode %r' % (m,))
            c = 'WBytes %d %s %s   (* %s *)' % (it['id'], ln, md, it['path'])
        elif it['t'] == 'switch':
            it['tag_id'] = ids[it['tag']]
            c = 'WSwitch %d %d %s   (* %s *)' % (it['id'], ids[it['tag']], coq_cases(it['cases'], ids), it['name'])
        elif it['t'] == 'tagged':
            it['tag_id'], it['len_id'] = ids[it['tag']], ids[it['len']]
            skip = 'None'
            if it['skip']:
                it['skip_id'] = ids[it['skip'][0]]
                skip = 'Some (%d%%N, %d)' % (ids[it['skip'][0]], it['skip'][1])
            sub = 'None'
            if it['sub']:
                sidf = next(h for h in it['sub']['hdr'] if h['t'] == 'field' and h['name'] == it['sub']['sid'])
                it['sub']['sid_id'] = sidf['id']
                sub = 'Some (%d, %s, %d%%N, %s)' % (it['sub']['tag_value'], coq_items(it['sub']['hdr'], ids), sidf['id'], coq_cases(it['sub']['cases'], ids))
            c = ('WTagged %d {| tg_tag := %d; tg_len := %d; tg_skip := %s;\n        tg_cases := %s;\n        tg_sub := %s;\n        tg_opaque := %s |}   (* %s *)'
                 % (it['id'], ids[it['tag']], ids[it['len']], skip, coq_cases(it['cases'], ids), sub, 'true' if it['opaque'] else 'false', it['name']))
        else:
            raise RuntimeError('gen_c01: item type %r' % it['t'])
        out.append(c)
    # separators must precede the trailing comment
    lines = []
    for i, c in enumerate(out):
        code, _, com = c.partition('   (*')
        lines.append('    ' + code + (';' if i + 1 < len(out) else '') + ('   (*' + com if com else ''))
    return '[\n' + '\n'.join(lines) + '\n  ]'


def generate():
    ts_error, consts = None, None
    try:
        consts = timestamp_consts()
        text = vf.gen_header([TS_SRC]) + 'From Coq Require Import ZArith.\nOpen Scope Z_scope.\n'
        for k in ('ts_invalid', 'ts_dec_factor_bits', 'ts_enc_factor_bits', 'ts_carry_at'):
            text += 'Definition %s : Z := %d.\n' % (k, consts[k])
        vf.write_if_changed(os.path.join(vf.THEORIES, 'Generated', 'CodecConsts.v'), text)
    except RuntimeError as e:
        ts_error = e        # raised at the end, after the descriptions (which do not depend on it) have been written

    descs = run_describe()
    keys = [k for k in descs if 'inexpressible' not in descs[k]]
    text = vf.gen_header(['python/fusion_engine_client/messages/*.py (via harness/py/c01_describe.py)'])
    text += 'From Coq Require Import ZArith NArith List.\nFrom FEC Require Import Models.CodecM.\nImport ListNotations.\nOpen Scope Z_scope.\n\n'
    names = []
    for i, k in enumerate(keys, 1):
        d = descs[k]
        d['index'] = i
        cname = 'py_d_' + ''.join(ch if ch.isalnum() else '_' for ch in k)
        names.append((i, cname))
        text += '(* %s — %s *)\nDefinition %s : Codec_desc := %s.\n\n' % (k, d['source'], cname, coq_desc(d))
    text += 'Definition py_descriptions : list (N * Codec_desc) := [\n' + ';\n'.join('  (%d%%N, %s)' % (i, n) for i, n in names) + '\n].\n'
    inexp = {k: descs[k]['inexpressible'] for k in descs if 'inexpressible' in descs[k]}
    text += '\n(* not expressible in the description language (law evaluation only):\n' + ''.join('   %s: %s\n' % (k, v.replace('*)', '* )')) for k, v in inexp.items()) + '*)\n'
    vf.write_if_changed(os.path.join(vf.THEORIES, 'Generated', 'LayoutPy.v'), text)
    out = {'consts': consts, 'descriptions': {k: descs[k] for k in keys}, 'inexpressible': inexp}
    os.makedirs(os.path.join(vf.BUILD, 'c01'), exist_ok=True)
    vf.write_if_changed(os.path.join(vf.BUILD, 'c01', 'descriptions.json'), json.dumps(out))
    if ts_error is not None:
        raise ts_error
    return out


if __name__ == '__main__':
    r = generate()
    print('described %d classes; inexpressible: %s' % (len(r['descriptions']), ', '.join(r['inexpressible'])))
