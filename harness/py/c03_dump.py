"""C03 Python side: run under the implementation interpreter (PYTHONPATH=<repo>/python).
Prints one JSON object: every IntEnum subclass of the package (members AND aliases, with the interpreter's
values), is_command()/is_response() on every MessageType member, COMMAND_MESSAGES, RESPONSE_MESSAGES, every
MessagePayload subclass with MESSAGE_TYPE/MESSAGE_VERSION, and message_type_to_class."""
import enum, importlib, inspect, json, os, pkgutil, sys

sys.path.insert(0, os.path.dirname(os.path.abspath(__file__)))

OUT_FD = os.dup(1)      # some application modules re-point sys.stdout on import

import fusion_engine_client
from fusion_engine_client import messages as M
from fusion_engine_client.messages import defs

notes = []
mods = []
PUBLIC_ONLY = os.environ.get('C03_PUBLIC_ONLY') == '1'
if PUBLIC_ONLY:
    # what a user of the library has after the public imports the decoder itself relies on: nothing else is imported here
    exec('from fusion_engine_client.messages import *', {})
    import fusion_engine_client.parsers        # noqa: F401
    mods = [m for n, m in sorted(sys.modules.items()) if n.startswith('fusion_engine_client.') and m is not None]
else:
    for m in pkgutil.walk_packages(fusion_engine_client.__path__, 'fusion_engine_client.'):
        try:
            mods.append(importlib.import_module(m.name))
        except Exception as e:
            if m.name.startswith('fusion_engine_client.messages'):
                raise
            notes.append('module %s not importable (%s): skipped' % (m.name, type(e).__name__))

enum_classes = {}
import re
UNRECOGNIZED = re.compile(r'^_U_-?\d+$')     # members the library adds for unrecognized VALUES ('_U_<value>')


def enum_access_failure(E, name, member, listed):
    """a member counts only if every public way of reaching it works: attribute, E[name], E(name), E(value), iteration,
    name and str()"""
    try:
        value = int(member.value)
        canonical = member.name == name                      # False for an alias (second name of a value)
        if getattr(E, name) is not member:
            return 'getattr(E, name) is another member'
        if E[name] is not member:
            return 'E[name] is another member'
        if E(name) is not member:
            return 'E(name) is another member'
        by_value = E(value)
        if by_value is not member:
            return 'E(value) gives %s' % by_value.name
        if int(member) != value or int(by_value) != value:
            return 'int(member) differs from its value'
        if canonical and not any(m is member for m in listed):
            return 'not listed by iteration'
        if canonical and member.name != name:
            return 'member.name differs'
        str(member); repr(member)
        if hasattr(member, 'is_unrecognized') and member.is_unrecognized():
            return 'is_unrecognized() is true for a defined member'
        return None
    except Exception as e:
        return '%s: %s' % (type(e).__name__, str(e)[:80])


def snapshot():
    """every table C03 is about, as plain values (copied now, so later mutation by library code shows)"""
    notes_local = []
    enums = {}
    canonical = {}
    access_failures = []
    for mod in mods:
        if not mod.__name__.startswith('fusion_engine_client.messages'):
            continue        # protocol enumerations live in the messages package (others: TimeAlignmentMode, WarnOnError)

        def visit(ns, depth):
            for n, v in list(vars(ns).items()):
                if not inspect.isclass(v) or v.__module__ != mod.__name__:
                    continue
                if issubclass(v, enum.Enum):
                    key = mod.__name__.split('.')[-1] + '.' + v.__qualname__
                    if key not in enums:
                        rows = []
                        listed = list(v)                                    # iteration order
                        if len(v) != len(listed):
                            access_failures.append([key, '', 0, 'len(E) = %d but iteration yields %d members' % (len(v), len(listed))])
                        for name, member in v.__members__.items():          # includes aliases
                            if UNRECOGNIZED.match(name) or int(member.value) < 0:
                                continue        # placeholders for unrecognized values (_U...) / names (negative): never on the wire
                            why = enum_access_failure(v, name, member, listed)
                            if why:
                                access_failures.append([key, name, int(member.value), why])     # not a usable member: left out of the table
                            else:
                                rows.append([name, int(member.value)])
                        enums[key] = rows
                        enum_classes[key] = v
                        canonical[key] = sorted({(int(m.value), v(int(m.value)).name) for nm, m in v.__members__.items()
                                                 if [nm, int(m.value)] in rows} if not any(f[0] == key for f in access_failures) else [])
                elif depth < 3:
                    visit(v, depth + 1)
        visit(mod, 0)

    MT = defs.MessageType
    import numpy as _np
    classification = []
    members = [(n, t) for n, t in MT.__members__.items() if not UNRECOGNIZED.match(n) and int(t) >= 0]
    extra = [v for v in json.loads(os.environ.get('C03_EXTRA_VALUES', '[]')) if v not in {int(t) for _, t in members}]
    for n, t in members + [('(%d)' % v, v) for v in extra]:
        # every argument form the functions accept must give the same answer
        forms = [('member', t)] if not isinstance(t, int) or isinstance(t, enum.Enum) else []
        forms += [('int', int(t)), ('numpy.uint16', _np.uint16(int(t)))]
        if not isinstance(t, enum.Enum):
            try:
                forms.append(('lenient member', MT(int(t), raise_on_unrecognized=False)))
            except Exception:
                pass
        answers = {}
        for fname, arg in forms:
            try:
                answers[fname] = (bool(defs.is_command(arg)), bool(defs.is_response(arg)))
            except Exception as e:
                answers[fname] = 'raises %s' % type(e).__name__
        first = answers[forms[0][0]]
        if any(a != first for a in answers.values()):
            access_failures.append(['defs.MessageType', n, int(t), 'is_command/is_response depend on the argument form: %r' % (answers,)])
        if isinstance(first, tuple) and [int(t), first[0], first[1]] not in classification:
            classification.append([int(t), first[0], first[1]])

    def all_subclasses(c):
        out = []
        for s in c.__subclasses__():
            out.append(s)
            out += all_subclasses(s)
        return out


    classes = []
    for c in dict.fromkeys(all_subclasses(defs.MessagePayload)):
        if 'MESSAGE_TYPE' not in vars(c) and not hasattr(c, 'MESSAGE_TYPE'):
            notes_local.append('MessagePayload subclass %s has no MESSAGE_TYPE' % c.__qualname__)
            continue
        name = c.__module__.split('.')[-1] + '.' + c.__qualname__
        classes.append([name, int(c.MESSAGE_TYPE), int(c.MESSAGE_VERSION), int(c.get_type()), int(c.get_version())])
    for row in classes:
        if row[1] != row[3] or row[2] != row[4]:
            raise SystemExit('get_type()/get_version() differ from MESSAGE_TYPE/MESSAGE_VERSION for %s' % row[0])

    registry = [[int(t), c.__module__.split('.')[-1] + '.' + c.__qualname__] for t, c in M.message_type_to_class.items()]
    if defs.MessagePayload.message_type_to_class is not M.message_type_to_class:
        raise SystemExit('messages.message_type_to_class is not MessagePayload.message_type_to_class')

    return {'enums': enums, 'classification': classification,
            'command_messages': sorted(int(t) for t in defs.COMMAND_MESSAGES),
            'response_messages': sorted(int(t) for t in defs.RESPONSE_MESSAGES),
            'classes': [r[:3] for r in classes], 'registry': registry, 'access_failures': access_failures,
            'canonical': {k: [list(x) for x in v] for k, v in canonical.items()},
            'by_name_classes': sorted([c.__name__, c.__module__.split('.')[-1] + '.' + c.__qualname__, int(c.MESSAGE_TYPE)] for c in dict.fromkeys(all_subclasses(defs.MessagePayload)) if hasattr(c, 'MESSAGE_TYPE')),
            'by_name': sorted([n, int(t)] for n, t in M.message_type_by_name.items()),
            'object_ids': {'COMMAND_MESSAGES': id(defs.COMMAND_MESSAGES), 'RESPONSE_MESSAGES': id(defs.RESPONSE_MESSAGES),
                           'message_type_to_class': id(M.message_type_to_class), 'message_type_by_name': id(M.message_type_by_name)},
            'notes': notes_local}


at_import = snapshot()
if PUBLIC_ONLY:
    os.write(OUT_FD, json.dumps(dict({'c03': 1}, **dict(at_import, notes=notes + at_import['notes'], loaded_modules=[m.__name__ for m in mods]))).encode() + b'\n')
    sys.exit(0)

# ---- use the library in this same interpreter, then look again ------------------------------------------------
import c03_exercise            # noqa: E402  (same directory)
exercised = c03_exercise.exercise(enum_classes)
after_use = snapshot()
static_hits = c03_exercise.static_scan(os.path.dirname(fusion_engine_client.__file__))

out = {'c03': 1}
out.update(at_import)
out.update({'notes': notes + at_import['notes'], 'after_use': after_use, 'exercised': exercised, 'static_hits': static_hits})
os.write(OUT_FD, json.dumps(out).encode() + b'\n')
