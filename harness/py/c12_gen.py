"""C12 case generator (pure Python, no library import): small logs and histories of read() calls."""
import itertools

TYPES = ['POSE', 'POSE_AUX', 'GNSS_INFO', 'EVENT_NOTIFICATION']
UNSUPPORTED = 'DEPRECATED_HEADING_OUTPUT'     # a MessageType member without a payload class
T0 = 10                                       # first P1 second used in generated logs

DEFAULT_CALL = {'types': None, 'tr': None, 'src': None, 'max': None, 'p1': False, 'sys': False, 'num': False,
                'keep': False, 'order': False, 'ign': False, 'align': 0, 'atypes': None, 'idx': False, 'bytes': False,
                'nan': True, 'trf': 'obj', 'tyf': 'list'}


def call(**kw):
    c = dict(DEFAULT_CALL)
    c.update(kw)
    return c


def fixed_log():
    """the 8-message shape of the library's own loader test (event, pose, pose, aux, gnss, event, aux, gnss, event)"""
    L = [('EVENT_NOTIFICATION', None, 1), ('POSE', 11, 0), ('POSE', 12, 0), ('POSE_AUX', 12, 0), ('GNSS_INFO', 12, 0),
         ('EVENT_NOTIFICATION', None, 3), ('POSE_AUX', 13, 0), ('GNSS_INFO', 13, 0), ('POSE', 13, 0), ('EVENT_NOTIFICATION', None, 4)]
    return [{'t': t, 'p1': p, 'src': 0, 'sys': s if t == 'EVENT_NOTIFICATION' else 0} for t, p, s in L]


def log_t0(log):
    ts = [m['p1'] for m in log if m['p1'] is not None]
    return min(ts) if ts else T0


def gen_log(r, late_source=False):
    n = r.randint(5, 14) if not late_source else r.randint(24, 30)
    t = r.choice([T0, T0, T0 + 0.5, 2.25, 3, 7.75])        # first P1 time: never 0, often not a whole second
    log = []
    nsrc = r.choice([1, 1, 2])
    for i in range(n):
        if r.random() < 0.45:
            t += r.choice([1, 1, 1, 0.5, 1.25])
        ty = r.choice(['POSE', 'POSE', 'POSE_AUX', 'GNSS_INFO', 'EVENT_NOTIFICATION']) if not late_source else r.choice(['POSE', 'POSE', 'POSE_AUX'])
        p1 = t
        if ty == 'EVENT_NOTIFICATION':
            p1 = None
        elif r.random() < 0.08:
            p1 = None            # a P1-stamped type with an invalid (NaN) stamp
        src = r.randrange(nsrc)
        log.append({'t': ty, 'p1': p1, 'src': src, 'sys': i})
    if late_source:
        # a source id that first appears after more than ten messages of every type
        for k in range(len(log) - 6, len(log)):
            if r.random() < 0.6:
                log[k]['src'] = 5
        log[-1]['src'] = 5
    return log


def gen_call(r, log, rich=True):
    """one read() argument set; weights keep a good share of cache hits (few distinct values per key)"""
    c = dict(DEFAULT_CALL)
    x = r.random()
    if x < 0.12:
        c['types'] = None
    else:
        k = r.choice([1, 1, 2, 2, 3])
        c['types'] = sorted(r.sample(TYPES, k), key=TYPES.index)
        if r.random() < 0.04:
            c['types'].append(UNSUPPORTED)
    x = r.random()
    t0 = log_t0(log)
    tmax = max([m['p1'] for m in log if m['p1'] is not None] + [t0])
    if x < 0.25:
        a = r.choice([None, 0, 1, 2, 0.5]); b = r.choice([None, 1, 2, 3, 2.5, int(tmax - t0) + 1])
        if a is None and b is None:
            b = 2
        c['tr'] = [a, b, False]
    elif x < 0.34:
        f0 = int(t0)
        a = r.choice([None, f0, f0 + 1, f0 + 2, f0 + 0.5]); b = r.choice([None, f0 + 1, f0 + 2, f0 + 2.5, int(tmax) + 1])
        if a is None and b is None:
            a = f0 + 1
        c['tr'] = [a, b, True]
    elif x < 0.40:
        # numbers that make sense both relative to t0 and as absolute P1 times
        a = r.choice([None, 1, 2, int(t0)]); b = r.choice([int(t0) + 1, int(t0) + 2, 4, 6])
        c['tr'] = [a, b, r.random() < 0.5]
    if c['tr'] is not None:
        c['trf'] = r.choice(['obj', 'obj', 'str', 'tuple'] + (['ts'] if c['tr'][2] else []))
    if c['types'] is not None:
        c['tyf'] = r.choice(['list', 'list', 'set', 'tuple', 'cls'] + (['single', 'cls1'] if len(c['types']) == 1 else []))
        if UNSUPPORTED in c['types'] and c['tyf'] in ('cls', 'cls1'):
            c['tyf'] = 'list'
    n = len(log)
    if r.random() < 0.45:
        c['max'] = r.choice([1, -1, 2, -2, 2, -2, 3, n + 3, -(n + 3), 0])
    c['p1'] = r.random() < 0.2
    c['sys'] = r.random() < 0.06
    c['num'] = r.random() < 0.35
    c['keep'] = r.random() < 0.4
    c['order'] = r.random() < 0.12
    c['ign'] = r.random() < 0.12
    if r.random() < 0.22:
        c['align'] = r.choice([1, 2])
        if r.random() < 0.3 and c['types']:
            c['atypes'] = sorted(r.sample([t for t in c['types'] if t != UNSUPPORTED], max(1, len(c['types']) - 1)), key=TYPES.index)
    c['idx'] = r.random() < 0.15
    c['bytes'] = r.random() < 0.08
    if r.random() < 0.08:
        c['nan'] = False
    srcs = sorted({m['src'] for m in log})
    if len(srcs) > 1 and r.random() < 0.3:
        c['src'] = sorted(r.sample(srcs, r.randint(1, len(srcs) - 1)))
    elif r.random() < 0.03:
        c['src'] = [9]          # an id not present in the log
    return c


def mutate_call(r, c, log):
    """a call that shares most of its arguments with c (so cache keys collide / nearly collide)"""
    d = dict(c)
    k = r.choice(['types', 'types', 'max', 'num', 'keep', 'align', 'p1', 'same', 'ign', 'order', 'tr', 'idx', 'src',
                  'tr-absrel', 'tr-form', 'types-form', 'max-sign', 'src-full'])
    if k == 'types':
        base = [t for t in (c['types'] or TYPES) if t != UNSUPPORTED]
        other = [t for t in TYPES if t not in base]
        if other and r.random() < 0.6:
            d['types'] = sorted(base + [r.choice(other)], key=TYPES.index)
        elif len(base) > 1:
            d['types'] = sorted(r.sample(base, len(base) - 1), key=TYPES.index)
        else:
            d['types'] = sorted(r.sample(TYPES, 2), key=TYPES.index)
        if d.get('atypes'):
            d['atypes'] = None
    elif k == 'max':
        d['max'] = r.choice([None, 1, -1, 2, -2]) if c['max'] is None or r.random() < 0.5 else None
    elif k in ('num', 'keep', 'p1', 'ign', 'order', 'idx'):
        d[k] = not c[k]
    elif k == 'align':
        d['align'] = r.choice([a for a in (0, 1, 2) if a != c['align']]); d['atypes'] = None
    elif k == 'tr':
        d['tr'] = None if c['tr'] is not None else [1, 3, False]
    elif k == 'src':
        srcs = sorted({m['src'] for m in log})
        d['src'] = None if c['src'] is not None else [r.choice(srcs)]
    # "equal-looking but different" values of one argument
    elif k == 'tr-absrel':
        if c['tr'] is None:
            d['tr'] = [1, int(log_t0(log)) + 2, r.random() < 0.5]
        else:
            d['tr'] = [c['tr'][0], c['tr'][1], not c['tr'][2]]
        d['trf'] = r.choice(['obj', 'str', 'tuple'])
    elif k == 'tr-form':
        if c['tr'] is not None:
            d['trf'] = r.choice([f for f in ['obj', 'str', 'tuple'] + (['ts'] if c['tr'][2] else []) if f != c['trf']])
    elif k == 'types-form':
        if c['types'] is not None and UNSUPPORTED not in c['types']:
            d['tyf'] = r.choice([f for f in ['list', 'set', 'tuple', 'cls'] + (['single', 'cls1'] if len(c['types']) == 1 else []) if f != c['tyf']])
    elif k == 'max-sign':
        d['max'] = -c['max'] if c['max'] else r.choice([2, -2])
    elif k == 'src-full':
        d['src'] = None if c['src'] is not None else sorted({m['src'] for m in log})
    return d


def interleaved_log():
    """16 messages, four types interleaved (4-5 of each), one source: per-type and cross-type first/last N differ"""
    seq = ['POSE', 'POSE_AUX', 'GNSS_INFO', 'EVENT_NOTIFICATION', 'POSE', 'POSE', 'POSE_AUX', 'GNSS_INFO',
           'EVENT_NOTIFICATION', 'POSE_AUX', 'GNSS_INFO', 'POSE', 'EVENT_NOTIFICATION', 'GNSS_INFO', 'POSE_AUX', 'POSE']
    return [{'t': t, 'p1': None if t == 'EVENT_NOTIFICATION' else T0 + i // 3, 'src': 0, 'sys': i} for i, t in enumerate(seq)]


def partial_invalidation_histories():
    """structured family A ; B ; A: A reads a type set S with some parameters, B replaces the cache entries of a
    proper subset S' of S (same types, other parameters), then A again - the second A meets a partially valid cache.
    Several S / S' / maxima of both signs / post-processing choices."""
    out = []
    sets = [['POSE', 'POSE_AUX'], ['POSE', 'POSE_AUX', 'GNSS_INFO'], ['POSE', 'POSE_AUX', 'EVENT_NOTIFICATION'],
            ['POSE_AUX', 'GNSS_INFO', 'EVENT_NOTIFICATION'], None]
    a_params = [{}, {'num': True, 'keep': True}, {'num': True}, {'align': 1, 'keep': True}, {'p1': True}, {'idx': True}]
    b_params = [{}, {'num': True}, {'max': 1}, {'tr': [1, 4, False]}]
    for S in sets:
        full = S if S is not None else TYPES
        subs = [[t] for t in full[:3]] + ([full[:2]] if len(full) > 2 else []) + ([full[1:]] if len(full) > 2 else [])
        for Sp in subs:
            for n in (None, 1, -1, 2, -2, 3, -3, 5, -5):
                for ai, ap in enumerate(a_params):
                    if n is None and ai not in (0, 1, 3):
                        continue
                    a = call(types=S, max=n, **ap)
                    for bi, bp in enumerate(b_params):
                        if (ai + bi + (n or 0)) % 2 and not (ai == 0 and bi == 0):
                            continue          # thin the product; the plain A / plain B pair is always kept
                        b = call(types=Sp, **bp)
                        if {k: b[k] for k in b if k != 'types'} == {k: a[k] for k in a if k != 'types'}:
                            b = call(types=Sp, idx=not a['idx'], **{k: v for k, v in bp.items()})
                        out.append([a, b, dict(a)])
    return out


def lookalike_log(frac):
    """the interleaved 16-message log with a first P1 time that is not 0 (and, with frac, not a whole second)"""
    log = interleaved_log()
    for i, m in enumerate(log):
        if m['p1'] is not None:
            m['p1'] = (2.5 if frac else 3) + (i // 2) * (0.75 if frac else 1)
    log[5]['src'] = 1; log[11]['src'] = 1
    return log


def lookalike_histories(log):
    """for every argument, pairs of values that look equal but mean something different (or look different and mean
    the same), each as A;B, B;A and A;B;A: same numbers as a relative / absolute range in every accepted form, the same
    type set as list / set / tuple / classes / single value, max_messages N vs -N, no source_ids vs the full set"""
    f0 = int(log_t0(log))
    srcs = sorted({m['src'] for m in log})
    out = []
    bases = [call(types=['POSE', 'POSE_AUX']), call(types=['POSE', 'GNSS_INFO'], num=True, keep=True), call(types=['POSE'], idx=True),
             call(types=None), call(types=['POSE', 'POSE_AUX', 'EVENT_NOTIFICATION'], max=3)]
    variants = []
    for a, b in ((1, 3), (2, 4), (f0, f0 + 2), (None, f0 + 1), (f0 + 1, None), (1.5, f0 + 1.5)):
        forms = [dict(tr=[a, b, False], trf='obj'), dict(tr=[a, b, True], trf='obj'), dict(tr=[a, b, False], trf='str'),
                 dict(tr=[a, b, True], trf='str'), dict(tr=[a, b, True], trf='tuple'), dict(tr=[a, b, False], trf='tuple'),
                 dict(tr=[a, b, True], trf='ts')]
        variants.append(forms)
    variants.append([dict(max=n) for n in (1, -1, 2, -2, 3, -3)])
    variants.append([dict(src=None), dict(src=srcs), dict(src=srcs[:1])])
    for base in bases:
        vs = list(variants)
        if base['types'] is not None:
            tf = ['list', 'set', 'tuple', 'cls'] + (['single', 'cls1'] if len(base['types']) == 1 else [])
            vs.append([dict(tyf=f) for f in tf])
        for group in vs:
            for i, x in enumerate(group):
                for y in group[i + 1:]:
                    A = dict(base); A.update(x); B = dict(base); B.update(y)
                    out += [[A, B], [B, A], [A, B, dict(A)]]
    return out


def disorder_log():
    """repeated and out-of-order P1 times within a type (single-type aligned vs unaligned reads differ)"""
    L = [('POSE', 12), ('POSE_AUX', 11), ('POSE', 11), ('EVENT_NOTIFICATION', None), ('POSE', 11), ('GNSS_INFO', 12),
         ('POSE_AUX', 11), ('POSE', 13), ('POSE', 12), ('POSE_AUX', 12), ('GNSS_INFO', 11), ('EVENT_NOTIFICATION', None), ('POSE', None)]
    return [{'t': t, 'p1': p, 'src': 0, 'sys': i} for i, (t, p) in enumerate(L)]


def times_nondecreasing(log):
    ts = [m['p1'] for m in log if m['p1'] is not None]
    return all(a <= b for a, b in zip(ts, ts[1:]))


def checklist_histories(log):
    """shapes from the builders' harness checklist: a narrowly filtered read followed by a read whose limit must not
    depend on the reader's stale filtered index; maxima 0 and |N| >= number of matching messages with require_p1_time /
    require_system_time; numpy reads that find messages followed by numpy reads of the same types that find none (and
    back); aligned reads after other types were cached (the cached entries of the other types must stay untouched);
    single-type aligned vs unaligned reads"""
    t0 = int(log_t0(log)); n = len(log)
    out = []
    narrow = [call(types=['EVENT_NOTIFICATION'], tr=[1, 2, False]), call(types=['POSE'], src=[1]),
              call(types=['GNSS_INFO'], tr=[t0 + 1, t0 + 2, True], max=1), call(types=['POSE_AUX'], tr=[0, 1, False], num=True)]
    wide = [call(types=None, max=m) for m in (2, -2, 0, n + 5, -(n + 5), n, -n)] + \
           [call(types=['POSE', 'POSE_AUX', 'EVENT_NOTIFICATION'], max=m, p1=True) for m in (0, 2, -2, n + 5, -(n + 5))] + \
           [call(types=['POSE', 'EVENT_NOTIFICATION'], max=m, sys=True) for m in (0, 1, -1, n + 5, -(n + 5))] + \
           [call(types=['POSE', 'POSE_AUX'], max=m, order=True) for m in (0, 3, -3, -(n + 5))]
    for a in narrow:
        for b in wide:
            out += [[a, b], [a, b, a]]
    nothing = [dict(tr=[500, 501, False]), dict(src=[9]), dict(tr=[t0 + 500, None, True])]
    for T in (['POSE'], ['POSE', 'GNSS_INFO'], None):
        for keep in (False, True):
            full = call(types=T, num=True, keep=keep)
            for e in nothing:
                empty = call(types=T, num=True, keep=keep, **e)
                out += [[full, empty], [empty, full], [full, empty, full], [full, empty, call(types=T)]]
    for mode in (1, 2):
        for other in (['GNSS_INFO'], ['POSE'], ['GNSS_INFO', 'EVENT_NOTIFICATION']):
            for al in (call(types=['POSE', 'POSE_AUX'], align=mode, keep=True), call(types=['POSE', 'POSE_AUX'], align=mode, num=True, keep=True),
                       call(types=['POSE_AUX'], align=mode), call(types=['POSE'], align=mode, atypes=['POSE'])):
                o = call(types=other)
                out += [[o, al, o], [o, al], [al, o, al]]
        for T in (['POSE'], ['POSE_AUX'], ['GNSS_INFO']):
            out += [[call(types=T), call(types=T, align=mode)], [call(types=T, align=mode), call(types=T)],
                    [call(types=T, align=mode, num=True, keep=True), call(types=T, num=True, keep=True)]]
    return out


def mutation_histories():
    """every way a result can be obtained (first read, cached read, ignore_cache=True, return_in_order=True; with and
    without numpy / alignment / a maximum), followed by the identical read and by the same read without ignore_cache;
    used with a caller that mutates each returned object"""
    out = []
    bases = [call(types=['POSE', 'POSE_AUX']), call(types=['POSE']), call(types=['POSE', 'POSE_AUX'], num=True, keep=True),
             call(types=['POSE', 'GNSS_INFO'], num=True), call(types=['POSE', 'POSE_AUX'], align=1, keep=True),
             call(types=['POSE', 'POSE_AUX'], align=2, num=True, keep=True), call(types=['POSE', 'POSE_AUX', 'EVENT_NOTIFICATION'], max=-3),
             call(types=['POSE'], idx=True, bytes=True), call(types=None)]
    for b in bases:
        ign = dict(b, ign=True)
        order = dict(b, order=True)
        out += [[b, dict(b)], [b, dict(b), dict(b)],                 # miss then hits
                [ign, dict(b)], [ign, dict(ign)], [ign, dict(ign), dict(b)], [ign, dict(b), dict(b)],
                [b, ign, dict(b)], [b, dict(b), ign, dict(b)],
                [order, dict(b)], [order, dict(order), dict(b)], [b, order, dict(b)]]
    return out


def gen_aba(r, log):
    """random member of the A ; partial invalidation ; A family"""
    a = gen_call(r, log)
    a['order'] = False; a['ign'] = False
    if a['types'] is None or len([t for t in a['types'] if t != UNSUPPORTED]) < 2:
        a['types'] = sorted(r.sample(TYPES, r.choice([2, 3, 3, 4])), key=TYPES.index)
        a['atypes'] = None
    if r.random() < 0.8:
        a['max'] = r.choice([1, -1, 2, -2, 3, -3, 4, -4])
    base = [t for t in a['types'] if t != UNSUPPORTED]
    sp = sorted(r.sample(base, r.randint(1, len(base) - 1)), key=TYPES.index)
    b = dict(a); b['types'] = sp; b['atypes'] = None
    k = r.choice(['max', 'num', 'keep', 'p1', 'idx', 'tr', 'align'])
    if k == 'max':
        b['max'] = None if a['max'] is not None else 2
    elif k == 'tr':
        b['tr'] = None if a['tr'] is not None else [1, 3, False]
    elif k == 'align':
        b['align'] = (a['align'] + 1) % 3
    else:
        b[k] = not a[k]
    return [a, b, dict(a)]


def gen_history(r, log, length):
    if length >= 3 and r.random() < 0.3:
        h = gen_aba(r, log)
        while len(h) < length:
            h.insert(r.randrange(len(h)), mutate_call(r, r.choice(h), log)) if r.random() < 0.5 else h.append(dict(r.choice(h)))
        return h
    h = [gen_call(r, log)]
    while len(h) < length:
        x = r.random()
        if x < 0.55:
            h.append(mutate_call(r, r.choice(h), log))
        elif x < 0.7:
            h.append(dict(r.choice(h)))
        else:
            h.append(gen_call(r, log))
    return h


def small_scope_histories():
    """bounded-exhaustive: every ordered pair (and the triples a;b;a) over a small call alphabet on the fixed log"""
    alpha = []
    for types in (['POSE'], ['POSE', 'POSE_AUX'], ['POSE', 'EVENT_NOTIFICATION'], None):
        for mx in (None, 2, -2):
            for num, keep in ((False, False), (True, False), (True, True)):
                alpha.append(call(types=types, max=mx, num=num, keep=keep))
        alpha.append(call(types=types, align=1))
        alpha.append(call(types=types, align=2, num=True, keep=True))
        alpha.append(call(types=types, p1=True))
        alpha.append(call(types=types, order=True, max=2))
    return alpha
