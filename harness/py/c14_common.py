"""Shared by props/c07.py and props/c14.py: message builders, chunkings, the line protocol of the C++ framer
harnesses / extracted drivers, comparison and shrinking of framer histories."""
import struct, zlib

# ---- CRC-24Q (independent Python implementation, bit-serial from the polynomial) --------------------
def crc24q(data):
    c = 0
    for b in data:
        c ^= b << 16
        for _ in range(8):
            c <<= 1
            if c & 0x1000000:
                c ^= 0x1864CFB
    return c & 0xFFFFFF


def rtcm_frame(payload, reserved=0):
    n = len(payload)
    assert n <= 1023
    h = bytes([0xD3, ((reserved & 0x3F) << 2) | (n >> 8), n & 0xFF])
    body = h + bytes(payload)
    c = crc24q(body)
    return body + bytes([c >> 16, (c >> 8) & 0xFF, c & 0xFF])


def rtcm_payload(rng, n, msgnum=None):
    p = bytearray(rng.getrandbits(8) for _ in range(n))
    if msgnum is not None and n >= 2:
        p[0] = (msgnum >> 4) & 0xFF
        p[1] = ((msgnum & 0xF) << 4) | (p[1] & 0xF)
    return bytes(p)


# ---- FusionEngine messages (own header + CRC builder; layout '<BBHIBBHIII') -------------------------
def fe_message(payload, mtype=10000, seq=0, source=0, reserved=0, proto=2, msgver=0, psize=None, crc=None, sync=b'.1'):
    psize = len(payload) if psize is None else psize
    tail = struct.pack('<BBHIII', proto, msgver, mtype, seq & 0xFFFFFFFF, psize & 0xFFFFFFFF, source & 0xFFFFFFFF) + bytes(payload)
    c = zlib.crc32(tail) & 0xFFFFFFFF if crc is None else crc
    return bytes(sync) + struct.pack('<HI', reserved, c) + tail


# ---- chunkings -------------------------------------------------------------------------------------
def chunk_single(s):
    return [s]


def chunk_bytewise(s):
    return [s[i:i + 1] for i in range(len(s))]


def chunk_split(s, k):
    return [s[:k], s[k:]]


def chunk_random(s, rng, mean=None):
    out, i = [], 0
    mean = mean or rng.choice([1, 2, 3, 7, 24, 25, 64, 300])
    while i < len(s):
        n = rng.randint(0, 2 * mean) if rng.random() < 0.9 else rng.randint(0, 4)
        out.append(s[i:i + n]); i += n
    return out or [b'']


# ---- line protocol -----------------------------------------------------------------------------------
def make_line(mode, cap, align, ops, opts=0, for_model=False):
    """ops: list of ('D', bytes) | ('R',) | ('B', mode, cap, align).  cap may be int or 'claimed/real'.
    opts (implementation harness only): 1 WarnOnError(true), 2 std::function callback, 4 callback calls Reset().
    B mode 'S' = SetBuffer again on the same user memory (for the model: a user buffer at the same alignment)."""
    toks = ['O%d' % opts] if (opts and not for_model) else []
    for o in ops:
        if o[0] == 'B' and for_model and o[1] == 'S':
            o = ('B', 'U') + tuple(o[2:])
        if o[0] == 'K':
            if not for_model:
                toks.append('K%d' % o[1])
        elif o[0] == 'D':
            toks.append('D' + bytes(o[1]).hex())
        elif o[0] == 'R':
            toks.append('R')
        else:
            toks.append('B%s,%s,%d' % (o[1], o[2], o[3]))
    return '%s %s %d %s' % (mode, cap, align, ' '.join(toks))


def spec_line(mode, cap, align, ops):
    def claimed(c):
        return str(c).split('/')[0]
    ops2 = [o if o[0] != 'B' else ('B', o[1], claimed(o[2]), o[3]) for o in ops]
    return 'SPEC ' + make_line(mode, claimed(cap), align, ops2, for_model=True)


def parse_cbs(s):
    if s == '~':
        return None          # no callback registered for this call
    if s == '-':
        return []
    out = []
    for t in s.split(','):
        num, hx, pm = t.split(':')
        out.append((int(num), hx, int(pm)))
    return out


def parse_out(line):
    """-> list of dict(kind, ret, cbs, decoded, errors, flag, adv)"""
    segs = []
    for seg in line.split('|'):
        f = seg.split(';')
        d = {'kind': f[0]}
        if f[0] == 'D':
            d['ret'] = int(f[1]); d['cbs'] = parse_cbs(f[2]); d['decoded'] = int(f[3])
            if len(f) > 4:
                d['errors'] = int(f[4]); d['flag'] = f[5]; d['adv'] = f[6]
        elif len(f) > 1:
            d['adv'] = f[1]
        segs.append(d)
    return segs


def public(seg, with_count=True):
    if seg['kind'] != 'D':
        return (seg['kind'],)
    return ('D', seg['ret'], tuple(seg['cbs']) if seg['cbs'] is not None else None, seg['decoded'] if with_count else 0)


def blind(seg, other):
    """when no callback was registered on the implementation side, the expected callbacks are not observable"""
    if other['kind'] == 'D' and other.get('cbs') is None and seg['kind'] == 'D':
        return dict(seg, cbs=None)
    return seg


def classify(isegs, ssegs, with_count=True):
    """first difference between implementation and SPEC on public observables -> (index, class) or None"""
    for k, (a, b) in enumerate(zip(isegs, ssegs)):
        if a['kind'] == 'D' and a.get('flag') == 'ASAN':
            return k, 'sanitizer-report'
        if a['kind'] == 'D' and a.get('flag') == 'INMOD':
            return k, 'caller-data-modified'
        if a['kind'] == 'D' and a.get('flag') == 'CBDIFF':
            return k, 'registered-callbacks-not-all-invoked-identically'
        b = blind(b, a)
        if a['kind'] != 'D':
            continue
        if public(a, with_count) == public(b, with_count):
            continue
        if a['cbs'] is None:
            return k, 'wrong-return-value' if a['ret'] != b['ret'] else 'wrong-decoded-count'
        ia = [(n, h) for n, h, _ in a['cbs']]; sb = [(n, h) for n, h, _ in b['cbs']]
        if ia == sb:
            if any(pm & 16 for _, _, pm in a['cbs']):
                return k, 'callback-pointer-outside-framer-buffer'
            if any(pm & 12 for _, _, pm in a['cbs']):
                return k, 'payload-pointer-not-header-plus-24'
            if any(pm != 0 for _, _, pm in a['cbs']):
                return k, 'misaligned-callback'
            if a['ret'] != b['ret']:
                return k, 'wrong-return-value'
            return k, 'wrong-decoded-count'
        if [h for _, h in ia] == [h for _, h in sb]:
            return k, 'wrong-message-number'
        if len(ia) < len(sb):
            return k, 'missing-callback'
        if len(ia) > len(sb):
            return k, 'extra-callback'
        return k, 'wrong-callback-bytes'
    if len(isegs) != len(ssegs):
        return min(len(isegs), len(ssegs)), 'segment-count'
    return None


def shrink(case, fails, budget=150):
    """case: dict(mode, cap, align, tokens=[bytes], cuts=[int] chunk boundaries, resets=set(chunk idx)).
    fails(case) -> bool.  Greedy: fewer tokens, single chunk, fewer resets, shorter tokens."""
    n = [0]

    def ok(c):
        n[0] += 1
        return n[0] <= budget and fails(c)
    cur = dict(case)
    c = dict(cur, cuts=[], resets=[], setbufs=[])
    if ok(c):
        cur = c
    else:
        c = dict(cur, resets=[], setbufs=[])
        if ok(c):
            cur = c
    changed = True
    while changed and n[0] < budget:
        changed = False
        for i in range(len(cur['tokens'])):
            c = dict(cur, tokens=cur['tokens'][:i] + cur['tokens'][i + 1:])
            if c['tokens'] and ok(c):
                cur = c; changed = True
                break
    for i in range(len(cur['tokens'])):
        t = cur['tokens'][i]
        while len(t) > 1 and n[0] < budget:
            t2 = t[:len(t) // 2]
            c = dict(cur, tokens=cur['tokens'][:i] + [t2] + cur['tokens'][i + 1:])
            if ok(c):
                cur = c; t = t2
            else:
                break
    return cur


def case_ops(case):
    """materialise the operation list of a case"""
    s = b''.join(case['tokens'])
    cuts = sorted(k for k in case.get('cuts', []) if 0 <= k <= len(s))
    bounds = [0] + cuts + [len(s)]
    ops = []
    resets = set(case.get('resets', []))
    setbufs = {}
    for k, v in case.get('setbufs', []):
        setbufs.setdefault(k, []).append(v)
    regs = dict(case.get('regs', []))
    for i in range(len(bounds) - 1):
        if i in regs:
            ops.append(('K', regs[i]))
        if i in resets:
            ops.append(('R',))
        for v in setbufs.get(i, []):
            ops.append(('B',) + tuple(v))
        ops.append(('D', s[bounds[i]:bounds[i + 1]]))
    return ops


def cuts_of(chunks):
    out, k = [], 0
    for c in chunks[:-1]:
        k += len(c); out.append(k)
    return out


def token_cuts(tokens, rng, around=(-2, -1, 0, 1, 2)):
    """chunk boundaries at and around the token boundaries (a call that ends on / just before / just after the end of a token)"""
    out, k = [], 0
    total = sum(len(t) for t in tokens)
    for t in tokens[:-1]:
        k += len(t)
        d = rng.choice(around)
        if 0 < k + d < total:
            out.append(k + d)
    return sorted(out)


def gen_setbufs(rng, nchunks, mode, cap, align, caps, min_cap):
    """SetBuffer() calls between chunks: same memory again, smaller, larger, user <-> managed, too small (refused)"""
    out = []
    cur = (mode, cap, align)
    last_user = (cap, align) if mode == 'U' and isinstance(cap, int) else None     # the harness re-uses the last user block
    for idx in sorted(rng.randrange(nchunks) for _ in range(rng.choice([1, 1, 2, 3]))):
        v = rng.choice(['same', 'same', 'smaller', 'larger', 'swap', 'refused', 'any'])
        m, c, a = cur
        if not isinstance(c, int):
            c = 64
        if v == 'same' and last_user is not None:
            lc, la = last_user
            nb = ('S', rng.choice([lc, lc, max(0, lc - rng.randint(0, 5))]), la)
        elif v == 'smaller':
            nb = (m, max(0, c - rng.choice([1, 2, 3, 4, 8, c // 2 + 1])), rng.randrange(4) if m == 'U' else 0)
        elif v == 'larger':
            nb = (m, c + rng.choice([1, 2, 3, 4, 64, 1000]), rng.randrange(4) if m == 'U' else 0)
        elif v == 'swap':
            m2 = 'M' if m == 'U' else 'U'
            nb = (m2, rng.choice(caps), rng.randrange(4) if m2 == 'U' else 0)
        elif v == 'refused':
            nb = (rng.choice(['U', 'M']), rng.randrange(0, min_cap), 0)
        else:
            m2 = rng.choice(['U', 'M'])
            nb = (m2, rng.choice(caps), rng.randrange(4) if m2 == 'U' else 0)
        if nb[0] == 'U':
            last_user = (nb[1], nb[2])
        if nb[1] >= min_cap:
            cur = ('U' if nb[0] == 'S' else nb[0], nb[1], nb[2])
        out.append((idx, nb))
    return out
