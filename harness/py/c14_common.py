"""Shared by props/c07.py and props/c14.py: message builders, chunkings, the line protocol of the C++ framer
harnesses / extracted drivers, comparison and shrinking of framer histories."""
import struct, zlib

# ---- CRC-24Q (independent Python implementation, bit-serial from the polynomial) --------------------
def crc24q(data):
    c = 0
    for b in data:
        c ^= b << 16
        for _ in range(8):
            c <<= 1
            if c & 0x1000000:
                c ^= 0x1864CFB
    return c & 0xFFFFFF


def rtcm_frame(payload, reserved=0):
    n = len(payload)
    assert n <= 1023
    h = bytes([0xD3, ((reserved & 0x3F) << 2) | (n >> 8), n & 0xFF])
    body = h + bytes(payload)
    c = crc24q(body)
    return body + bytes([c >> 16, (c >> 8) & 0xFF, c & 0xFF])


def rtcm_payload(rng, n, msgnum=None):
    p = bytearray(rng.getrandbits(8) for _ in range(n))
    if msgnum is not None and n >= 2:
        p[0] = (msgnum >> 4) & 0xFF
        p[1] = ((msgnum & 0xF) << 4) | (p[1] & 0xF)
    return bytes(p)


# ---- FusionEngine messages (own header + CRC builder; layout '<BBHIBBHIII') -------------------------
def fe_message(payload, mtype=10000, seq=0, source=0, reserved=0, proto=2, msgver=0, psize=None, crc=None, sync=b'.1'):
    psize = len(payload) if psize is None else psize
    tail = struct.pack('<BBHIII', proto, msgver, mtype, seq & 0xFFFFFFFF, psize & 0xFFFFFFFF, source & 0xFFFFFFFF) + bytes(payload)
    c = zlib.crc32(tail) & 0xFFFFFFFF if crc is None else crc
    return bytes(sync) + struct.pack('<HI', reserved, c) + tail


# ---- chunkings -------------------------------------------------------------------------------------
def chunk_single(s):
    return [s]


def chunk_bytewise(s):
    return [s[i:i + 1] for i in range(len(s))]


def chunk_split(s, k):
    return [s[:k], s[k:]]


def chunk_random(s, rng, mean=None):
    out, i = [], 0
    mean = mean or rng.choice([1, 2, 3, 7, 24, 25, 64, 300])
    while i < len(s):
        n = rng.randint(0, 2 * mean) if rng.random() < 0.9 else rng.randint(0, 4)
        out.append(s[i:i + n]); i += n
    return out or [b'']


# ---- line protocol -----------------------------------------------------------------------------------
def make_line(mode, cap, align, ops):
    """ops: list of ('D', bytes) | ('R',) | ('B', mode, cap, align).  cap may be int or 'claimed/real'."""
    toks = []
    for o in ops:
        if o[0] == 'D':
            toks.append('D' + bytes(o[1]).hex())
        elif o[0] == 'R':
            toks.append('R')
        else:
            toks.append('B%s,%s,%d' % (o[1], o[2], o[3]))
    return '%s %s %d %s' % (mode, cap, align, ' '.join(toks))


def spec_line(mode, cap, align, ops):
    def claimed(c):
        return str(c).split('/')[0]
    ops2 = [o if o[0] != 'B' else ('B', o[1], claimed(o[2]), o[3]) for o in ops]
    return 'SPEC ' + make_line(mode, claimed(cap), align, ops2)


def parse_cbs(s):
    if s == '-':
        return []
    out = []
    for t in s.split(','):
        num, hx, pm = t.split(':')
        out.append((int(num), hx, int(pm)))
    return out


def parse_out(line):
    """-> list of dict(kind, ret, cbs, decoded, errors, flag, adv)"""
    segs = []
    for seg in line.split('|'):
        f = seg.split(';')
        d = {'kind': f[0]}
        if f[0] == 'D':
            d['ret'] = int(f[1]); d['cbs'] = parse_cbs(f[2]); d['decoded'] = int(f[3])
            if len(f) > 4:
                d['errors'] = int(f[4]); d['flag'] = f[5]; d['adv'] = f[6]
        elif len(f) > 1:
            d['adv'] = f[1]
        segs.append(d)
    return segs


def public(seg, with_count=True):
    if seg['kind'] != 'D':
        return (seg['kind'],)
    return ('D', seg['ret'], tuple(seg['cbs']), seg['decoded'] if with_count else 0)


def classify(isegs, ssegs, with_count=True):
    """first difference between implementation and SPEC on public observables -> (index, class) or None"""
    for k, (a, b) in enumerate(zip(isegs, ssegs)):
        if a['kind'] == 'D' and a.get('flag') == 'ASAN':
            return k, 'sanitizer-report'
        if a['kind'] != 'D':
            continue
        if public(a, with_count) == public(b, with_count):
            continue
        ia = [(n, h) for n, h, _ in a['cbs']]; sb = [(n, h) for n, h, _ in b['cbs']]
        if ia == sb:
            if any(pm != 0 for _, _, pm in a['cbs']):
                return k, 'misaligned-callback'
            if a['ret'] != b['ret']:
                return k, 'wrong-return-value'
            return k, 'wrong-decoded-count'
        if [h for _, h in ia] == [h for _, h in sb]:
            return k, 'wrong-message-number'
        if len(ia) < len(sb):
            return k, 'missing-callback'
        if len(ia) > len(sb):
            return k, 'extra-callback'
        return k, 'wrong-callback-bytes'
    if len(isegs) != len(ssegs):
        return min(len(isegs), len(ssegs)), 'segment-count'
    return None


def shrink(case, fails, budget=150):
    """case: dict(mode, cap, align, tokens=[bytes], cuts=[int] chunk boundaries, resets=set(chunk idx)).
    fails(case) -> bool.  Greedy: fewer tokens, single chunk, fewer resets, shorter tokens."""
    n = [0]

    def ok(c):
        n[0] += 1
        return n[0] <= budget and fails(c)
    cur = dict(case)
    c = dict(cur, cuts=[], resets=[], setbufs=[])
    if ok(c):
        cur = c
    else:
        c = dict(cur, resets=[], setbufs=[])
        if ok(c):
            cur = c
    changed = True
    while changed and n[0] < budget:
        changed = False
        for i in range(len(cur['tokens'])):
            c = dict(cur, tokens=cur['tokens'][:i] + cur['tokens'][i + 1:])
            if c['tokens'] and ok(c):
                cur = c; changed = True
                break
    for i in range(len(cur['tokens'])):
        t = cur['tokens'][i]
        while len(t) > 1 and n[0] < budget:
            t2 = t[:len(t) // 2]
            c = dict(cur, tokens=cur['tokens'][:i] + [t2] + cur['tokens'][i + 1:])
            if ok(c):
                cur = c; t = t2
            else:
                break
    return cur


def case_ops(case):
    """materialise the operation list of a case"""
    s = b''.join(case['tokens'])
    cuts = sorted(k for k in case.get('cuts', []) if 0 <= k <= len(s))
    bounds = [0] + cuts + [len(s)]
    ops = []
    resets = set(case.get('resets', []))
    setbufs = dict((k, v) for k, v in case.get('setbufs', []))
    for i in range(len(bounds) - 1):
        if i in resets:
            ops.append(('R',))
        if i in setbufs:
            ops.append(('B',) + tuple(setbufs[i]))
        ops.append(('D', s[bounds[i]:bounds[i + 1]]))
    return ops


def cuts_of(chunks):
    out, k = [], 0
    for c in chunks[:-1]:
        k += len(c); out.append(k)
    return out
