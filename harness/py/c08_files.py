"""C08: log files as compact recipes.  A case is a JSON-able list of segments expanded deterministically to
bytes by build(); shrinking and replay work on the recipe.  No dependency on /repo (the wire layout used
here — '.1', u16 reserved, u32 crc, '<BBHIII' — is the one Base/FEFormat.v transcribes and gen_fe checks).

segments
  ["z", n, byte]      n copies of one byte
  ["r", seed, n]      n pseudo-random bytes (random.Random(seed))
  ["h", hex]          literal bytes
  ["m", {...}]        a FusionEngine message: type, ver, seq, src, reserved, proto, payload (a recipe), and the
                      deliberate corruptions crc_xor (flip CRC bits), claim (payload_size field differs from
                      the bytes present), crc_len (CRC computed over only the first crc_len bytes of the
                      protected region — what a truncating slice sees)
  ["t", recipe, n]    the first n bytes of the expansion of a recipe (a message cut off, e.g. by the end of the file)
  ["p", recipe, k]    the expansion of a recipe repeated k times (period-READ repetition when it is READ bytes long)
  ["x", {...}]        the overlap construct of DESIGN 21 #15: wrapper A whose payload holds the head of a
                      CRC-valid message B that runs past A's end; after A come `mid`, a real message `c`
                      and `post` filler, all inside B
"""
import random
import struct
import zlib

SYNC = b'.1'
HDR = 24


def header(mtype, psize, body_rest, ver=0, seq=0, src=0xFFFFFFFF, reserved=0, crc_xor=0, crc_len=None, proto=2):
    body = struct.pack('<BBHIII', proto & 255, ver & 255, mtype & 0xFFFF, seq & 0xFFFFFFFF, psize & 0xFFFFFFFF,
                       src & 0xFFFFFFFF) + body_rest
    region = body if crc_len is None else body[:crc_len]
    crc = (zlib.crc32(region) ^ crc_xor) & 0xFFFFFFFF
    return SYNC + struct.pack('<HI', reserved & 0xFFFF, crc) + body


def build_msg(p):
    payload = build(p.get('payload', []))
    psize = p['claim'] if p.get('claim') is not None else len(payload)
    return header(p.get('type', 10000), psize, payload, ver=p.get('ver', 0), seq=p.get('seq', 0),
                  src=p.get('src', 0xFFFFFFFF), reserved=p.get('reserved', 0), crc_xor=p.get('crc_xor', 0),
                  crc_len=p.get('crc_len'), proto=p.get('proto', 2))


def build_overlap(p):
    tail = build(p.get('mid', [])) + build([p['c']]) + build(p.get('post', []))
    inner = build(p.get('inner', []))
    b = header(p.get('b_type', 10001), len(inner) + len(tail), inner + tail)
    a_payload = build(p.get('pre', [])) + b[:HDR + len(inner)]
    a = header(p.get('a_type', 10002), len(a_payload), a_payload)
    return a + tail


def build_seg(s):
    k = s[0]
    if k == 'z':
        return bytes([s[2] if len(s) > 2 else 0]) * s[1]
    if k == 'r':
        return random.Random(s[1]).randbytes(s[2])
    if k == 'h':
        return bytes.fromhex(s[1])
    if k == 'm':
        return build_msg(s[1])
    if k == 'x':
        return build_overlap(s[1])
    if k == 't':
        return build(s[1])[:s[2]]
    if k == 'p':
        return build(s[1]) * s[2]
    raise ValueError('c08_files: unknown segment %r' % (s,))


def build(recipe):
    return b''.join(build_seg(s) for s in recipe)


def seg_len(s):
    return len(build_seg(s))


def msg(mtype=10000, payload=None, **kw):
    d = {'type': mtype, 'payload': payload if payload is not None else []}
    d.update(kw)
    return ['m', d]


def describe(recipe, limit=12):
    """one-line human summary of a recipe"""
    out = []
    off = 0
    for s in recipe:
        n = seg_len(s)
        if s[0] == 'm':
            out.append('msg(type=%d,size=%d%s)@%d' % (s[1].get('type', 10000), n,
                       ''.join(',%s=%s' % (k, s[1][k]) for k in ('claim', 'crc_len', 'crc_xor') if s[1].get(k)), off))
        elif s[0] == 'x':
            out.append('overlap(size=%d)@%d' % (n, off))
        elif s[0] == 'h':
            out.append('bytes(%d)@%d' % (n, off))
        elif s[0] == 't':
            out.append('first%d(%s)@%d' % (s[2], describe(s[1], 4), off))
        elif s[0] == 'p':
            out.append('%dx(%s)@%d' % (s[2], describe(s[1], 4), off))
        else:
            out.append('%s(%d)@%d' % ('fill' if s[0] == 'z' else 'rand', n, off))
        off += n
    if len(out) > limit:
        out = out[:limit // 2] + ['...'] + out[-limit // 2:]
    return ' '.join(out) + ' total=%d' % off
