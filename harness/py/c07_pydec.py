"""IMPL runner for the Python side of C07: FusionEngineDecoder(max_payload_len_bytes=N, return_bytes, return_offset)
fed the same chunks.  stdin: one JSON object per line {"max": N, "chunks": [hex,...]} (or {"probe": [hex,...]} -> list of booleans);
stdout: one JSON list per line, per chunk the list of [offset, hex] it returned."""
import json, sys, logging
logging.disable(logging.CRITICAL)
from fusion_engine_client.parsers.decoder import FusionEngineDecoder

from fusion_engine_client.messages import MessageHeader, message_type_to_class


def unparseable_known(hx):
    """CRC-valid message of a known type whose payload does not unpack (the Python decoder drops these: C04 known finding)"""
    b = bytes.fromhex(hx)
    h = MessageHeader()
    h.unpack(b, warn_on_unrecognized=False)
    cls = message_type_to_class.get(h.message_type, None)
    if cls is None:
        return False
    try:
        cls().unpack(buffer=b, offset=MessageHeader.calcsize())
        return False
    except Exception:
        return True


for line in sys.stdin:
    rec = json.loads(line)
    if 'probe' in rec:
        print(json.dumps([unparseable_known(h) for h in rec['probe']]))
        sys.stdout.flush()
        continue
    dec = FusionEngineDecoder(max_payload_len_bytes=rec['max'], warn_on_error=False, return_bytes=True, return_offset=True)
    out = []
    for h in rec['chunks']:
        try:
            res = dec.on_data(bytes.fromhex(h))
            out.append([[r[3], bytes(r[2]).hex()] for r in res])
        except Exception as e:   # noqa
            out.append({'error': repr(e)})
            break
    print(json.dumps(out))
    sys.stdout.flush()
