"""C12 IMPL runner: builds small logs with the library's own encoder, runs histories of DataLoader.read() calls on one
loader and the same calls on fresh loaders, prints canonical public observables as JSON.

usage: c12_impl.py <jobs.json> <out.json> <workdir>
jobs.json = [{"log": [msgspec...], "histories": [[call, call, ...], ...],
              optional "pre": {"log": [...], "calls": [...]}  (the loader first reads another file, then open()s this one),
              optional "twin": true  (a second DataLoader on the same file is alive and reads the history in reverse),
              optional "mutate": kind  (after every read the RETURNED object is changed by the caller: clear / append /
                                        popkey / to_numpy / align on the containers, array-write / payload-write in place)}, ...]
msgspec   = {"t": type name, "p1": int seconds | null (invalid P1 time), "src": int, "sys": int seconds (events only)}
call      = {"types": [names]|null, "tyf": "list"|"set"|"tuple"|"cls"|"single"|"cls1" (how message_types is passed),
             "tr": null|[start|null, end|null, absolute(bool)], "trf": "obj"|"str"|"tuple"|"ts" (TimeRange object,
             "a:b:abs|rel" string, (a, b, "abs"|"rel") tuple, TimeRange(Timestamp(a), Timestamp(b))), "src": null|[ints],
             "max": null|int, "p1": bool, "sys": bool, "num": bool, "keep": bool, "order": bool, "ign": bool,
             "align": 0|1|2, "atypes": null|[names], "idx": bool, "bytes": bool, "nan": bool}
output    = [{"hist": [[outcome per call] per history], "fresh": {callkey: outcome}, "nomax": {callkey: outcome},
              "avail": [source ids], "need": [need_t0, need_system_t0],
              "geom": {"off": [...], "size": [...], "fsize": n},
              "nn": [ordinals kept by the reader's remove_nans selection],
              "tt": {json(tr): [ordinals selected by the reader's FileIndex[TimeRange]] | {"exc":..}}}]

Only public observables are canonicalised: the dict / MessageData returned by read().  Every logged message carries its
file ordinal in a payload field (marker), so returned messages are identified by ordinal without asking the loader for
message indices; messages synthesised by time alignment are identified as D:<type>:<p1 time>.
"""
import hashlib
import json
import logging
import os
import sys

import numpy as np

logging.disable(logging.CRITICAL)

from fusion_engine_client.analysis.data_loader import DataLoader, MessageData, TimeAlignmentMode
from fusion_engine_client.messages import (MessageType, PoseMessage, PoseAuxMessage, GNSSInfoMessage,
                                           EventNotificationMessage, Timestamp, message_type_to_class)
from fusion_engine_client.parsers import FusionEngineEncoder
from fusion_engine_client.utils.time_range import TimeRange

CLS = {'POSE': PoseMessage, 'POSE_AUX': PoseAuxMessage, 'GNSS_INFO': GNSSInfoMessage,
       'EVENT_NOTIFICATION': EventNotificationMessage}


def make_message(spec, ordinal):
    m = CLS[spec['t']]()
    mark = float(ordinal + 1)
    if spec['t'] == 'EVENT_NOTIFICATION':
        m.system_time_ns = int(spec.get('sys', 0)) * 1000000000
        m.event_flags = ordinal + 1
        return m
    if spec['p1'] is not None:
        m.p1_time = Timestamp(float(spec['p1']))
    if spec['t'] == 'POSE':
        m.aggregate_protection_level_m = mark
    elif spec['t'] == 'POSE_AUX':
        m.position_std_body_m = np.array([mark, 0.0, 0.0])
    elif spec['t'] == 'GNSS_INFO':
        m.gdop = mark
    return m


def build_log(path, spec):
    enc = FusionEngineEncoder()
    with open(path, 'wb') as f:
        for i, s in enumerate(spec):
            f.write(enc.encode_message(make_message(s, i), source_identifier=int(s['src'])))
    ip = os.path.splitext(path)[0] + '.p1i'
    if os.path.exists(ip):
        os.remove(ip)


def _p1(m):
    t = m.get_p1_time()
    return None if t is None else float(t)


def mid(m):
    """identity of a returned message: file ordinal, or D:<type>:<time> for a synthesised one"""
    t = m.get_type()
    mk = None
    if t == MessageType.POSE:
        mk = m.aggregate_protection_level_m
    elif t == MessageType.POSE_AUX:
        mk = m.position_std_body_m[0]
    elif t == MessageType.GNSS_INFO:
        mk = m.gdop
    elif t == MessageType.EVENT_NOTIFICATION:
        mk = m.event_flags
    if mk is not None and not (isinstance(mk, float) and np.isnan(mk)) and mk >= 1:
        return int(mk) - 1
    return 'D:%s:%r' % (t.name, _p1(m))


def row_ids(tname, arrays):
    key = {'POSE': 'aggregate_protection_level_m', 'POSE_AUX': 'position_std_body_m', 'GNSS_INFO': 'gdop',
           'EVENT_NOTIFICATION': 'event_flags'}.get(tname)
    if key is None or key not in arrays:
        # a type of which the generated logs hold no message: its rows can only be messages synthesised by time
        # alignment, one per p1_time element (some classes add constant, non-time arrays)
        if key is None:
            return ['D:%s:%r' % (tname, float(t)) for t in arrays['p1_time']] if 'p1_time' in arrays else []
        return None
    a = arrays[key]
    if a.ndim == 2:
        a = a[0, :]
    out = []
    for i, v in enumerate(a.tolist()):
        if isinstance(v, float) and np.isnan(v) or v < 1:
            tt = arrays['p1_time'][i] if 'p1_time' in arrays and len(arrays['p1_time']) == len(a) else None
            out.append('D:%s:%r' % (tname, None if tt is None else float(tt)))
        else:
            out.append(int(v) - 1)
    return out


def canon_entry(e, tname=None):
    d = {'m': [mid(m) for m in e.messages]}
    arrays = {k: v for k, v in e.__dict__.items()
              if isinstance(v, np.ndarray) and k not in ('message_bytes', 'message_index')}
    # (a to_numpy() key may shadow a MessageData attribute such as message_type: the dict key names the type)
    if arrays:
        h = hashlib.sha1()
        for k in sorted(arrays):
            a = arrays[k]
            h.update(repr((k, a.dtype.str, a.shape, a.tolist())).encode())
        d['np'] = {'rows': row_ids(tname, arrays), 'digest': h.hexdigest()[:16], 'keys': len(arrays)}
    else:
        d['np'] = None
    mi = e.message_index
    d['idx'] = ['A' if isinstance(mi, np.ndarray) else 'L'] + [int(x) for x in mi]
    mb = e.message_bytes
    d['nb'] = ['A' if isinstance(mb, np.ndarray) else 'L', len(mb)]
    return d


def canon(res):
    if isinstance(res, MessageData):
        return {'order': canon_entry(res)}
    return {'dict': {t.name: canon_entry(e, t.name) for t, e in sorted(res.items(), key=lambda kv: int(kv[0]))}}


def to_kwargs(c):
    kw = {}
    if c.get('types') is not None:
        tys = [MessageType[n] for n in c['types']]
        form = c.get('tyf', 'list')
        if form in ('cls', 'cls1'):
            tys = [message_type_to_class.get(t, t) for t in tys]
        if form in ('single', 'cls1') and len(tys) == 1:
            kw['message_types'] = tys[0]
        elif form == 'set':
            kw['message_types'] = set(tys)
        elif form == 'tuple':
            kw['message_types'] = tuple(tys)
        else:
            kw['message_types'] = list(tys)
    tr = c.get('tr')
    if tr is not None:
        form = c.get('trf', 'obj')
        s_, e_, ab = tr
        if form == 'str':
            kw['time_range'] = '%s:%s:%s' % ('' if s_ is None else repr(float(s_)), '' if e_ is None else repr(float(e_)), 'abs' if ab else 'rel')
        elif form == 'tuple':
            kw['time_range'] = (None if s_ is None else float(s_), None if e_ is None else float(e_), 'abs' if ab else 'rel')
        elif form == 'ts' and ab:
            kw['time_range'] = TimeRange(start=None if s_ is None else Timestamp(float(s_)), end=None if e_ is None else Timestamp(float(e_)))
        else:
            kw['time_range'] = make_tr(tr)
    if c.get('src') is not None:
        kw['source_ids'] = list(c['src'])
    if c.get('max') is not None:
        kw['max_messages'] = int(c['max'])
    for k, a in (('p1', 'require_p1_time'), ('sys', 'require_system_time'), ('num', 'return_numpy'), ('keep', 'keep_messages'),
                 ('order', 'return_in_order'), ('ign', 'ignore_cache'), ('idx', 'return_message_index'),
                 ('bytes', 'return_bytes')):
        if c.get(k):
            kw[a] = True
    if c.get('nan') is False:
        kw['remove_nan_times'] = False
    if c.get('align'):
        kw['time_align'] = TimeAlignmentMode(int(c['align']))
    if c.get('atypes') is not None:
        kw['aligned_message_types'] = [MessageType[n] for n in c['atypes']]
    return kw


def make_tr(tr):
    if tr is None:
        return TimeRange()
    s, e, ab = tr
    return TimeRange(start=None if s is None else float(s), end=None if e is None else float(e), absolute=bool(ab))


def time_table(loader, tr):
    """the reader's own time selection (owned by C10/C13): ordinals of FileIndex[TimeRange], in index order"""
    try:
        return [int(x) for x in loader.get_index()[make_tr(tr)].message_index]
    except Exception as e:
        return {'exc': type(e).__name__, 'msg': str(e)[:200]}


def do_read_raw(loader, c):
    try:
        r = loader.read(**to_kwargs(c))
        return r, canon(r)
    except Exception as e:   # an exception is an outcome too
        return None, {'exc': type(e).__name__, 'msg': str(e)[:200]}


def do_read(loader, c):
    return do_read_raw(loader, c)[1]


def entries_of(r):
    return [r] if isinstance(r, MessageData) else list(r.values())


def mutate_result(r, kind):
    """what a caller may do with an object read() handed out"""
    if r is None:
        return
    try:
        if kind == 'clear':
            for e in entries_of(r):
                if isinstance(e.messages, list):
                    e.messages.clear()
        elif kind == 'append':
            for e in entries_of(r):
                if isinstance(e.messages, list) and e.messages:
                    e.messages.append(e.messages[0])
        elif kind == 'popkey':
            if isinstance(r, dict) and r:
                r.pop(next(iter(r)))
        elif kind == 'to_numpy':
            if isinstance(r, dict):
                DataLoader.to_numpy(r, keep_messages=False)
        elif kind == 'align':
            if isinstance(r, dict):
                DataLoader.time_align_data(r, TimeAlignmentMode.DROP)
        elif kind == 'array-write':
            for e in entries_of(r):
                for k, v in e.__dict__.items():
                    if isinstance(v, np.ndarray) and v.size > 0 and v.flags.writeable and v.dtype.kind in 'fiu':
                        v.flat[0] = 77
        elif kind == 'payload-write':
            for e in entries_of(r):
                for m in e.messages:
                    if m.get_type() == MessageType.POSE:
                        m.aggregate_protection_level_m = 900.0
                    elif m.get_type() == MessageType.EVENT_NOTIFICATION:
                        m.event_flags = 900
    except Exception:
        pass


def main():
    jobs = json.load(open(sys.argv[1]))
    work = sys.argv[3]
    os.makedirs(work, exist_ok=True)
    out = []
    for j, job in enumerate(jobs):
        path = os.path.join(work, 'log%d_%d.p1log' % (os.getpid(), j))
        build_log(path, job['log'])
        first = DataLoader(path, num_threads=1)
        res = {'hist': [], 'fresh': {}, 'nomax': {},
               'avail': sorted(int(x) for x in first.get_available_source_ids()),
               'need': [bool(getattr(first, '_need_t0', False)), bool(getattr(first, '_need_system_t0', False))]}
        try:   # geometry of the log for the linked (C10/C11 reader model) mode: offsets, sizes, file size
            offs = [int(x) for x in first.get_index().offset]
            fsize = os.path.getsize(path)
            res['geom'] = {'off': offs, 'size': [b - a for a, b in zip(offs, offs[1:] + [fsize])], 'fsize': fsize}
        except Exception as e:
            res['geom'] = {'exc': type(e).__name__}
        res['tt'] = {}
        try:   # the reader's removal of entries without P1 time (filter_out_invalid_p1_times on an unbounded range)
            res['nn'] = [int(x) for x in first.get_index().get_time_range(hint='remove_nans').message_index]
        except Exception as e:
            res['nn'] = {'exc': type(e).__name__, 'msg': str(e)[:200]}
        for h in job['histories']:
            for c in h:
                k = json.dumps(c.get('tr'))
                if k not in res['tt']:
                    res['tt'][k] = time_table(first, c.get('tr'))
        prepath = None
        if job.get('pre'):
            prepath = os.path.join(work, 'pre%d_%d.p1log' % (os.getpid(), j))
            build_log(prepath, job['pre']['log'])
        res['changed'] = []
        for hi, h in enumerate(job['histories']):
            if prepath:
                loader = DataLoader(prepath, num_threads=1)
                for c in job['pre']['calls']:
                    do_read(loader, c)
                loader.open(path, num_threads=1)          # a second file on the same loader
            else:
                loader = DataLoader(path, num_threads=1)
            twin = DataLoader(path, num_threads=1) if job.get('twin') else None
            outs, kept = [], []
            for ci, c in enumerate(h):
                if twin is not None:
                    do_read(twin, h[len(h) - 1 - ci])
                raw, cn = do_read_raw(loader, c)
                outs.append(cn)
                # results handed out by earlier reads must still be what they were
                for (cj, obj, snap) in kept:
                    now = canon(obj)
                    if now != snap and not any(x[0] == hi and x[1] == cj for x in res['changed']):
                        res['changed'].append([hi, cj, ci, snap, now])
                if job.get('mutate'):
                    mutate_result(raw, job['mutate'])
                elif raw is not None:
                    kept.append((ci, raw, cn))
                k = json.dumps(c, sort_keys=True)
                if k not in res['fresh']:
                    res['fresh'][k] = do_read(DataLoader(path, num_threads=1), c)
                    if c.get('max') is not None:
                        c2 = dict(c, max=None)
                        res['nomax'][k] = do_read(DataLoader(path, num_threads=1), c2)
            res['hist'].append(outs)
        if prepath:
            for p in (prepath, os.path.splitext(prepath)[0] + '.p1i'):
                if os.path.exists(p):
                    os.remove(p)
        out.append(res)
        for p in (path, os.path.splitext(path)[0] + '.p1i'):
            if os.path.exists(p):
                os.remove(p)
    json.dump(out, open(sys.argv[2], 'w'))


if __name__ == '__main__':
    main()
