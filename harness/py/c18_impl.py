"""IMPL runner for C18 (runs under /venv/bin/python with PYTHONPATH=<repo>/python).

usage: c18_impl.py templates                 -> one JSON object: payload templates of the library's message classes
       c18_impl.py run <tmpdir>  < cases     -> one JSON line per case
       c18_impl.py app <tmpdir>  < cases     -> same, through `python -m ...applications.p1_extract` (output bytes, .p1i, exit code)
       c18_impl.py appseq <tmpdir> < cases   -> sequences of p1_extract.main() runs (in-process) into one output location

A case is {"id": str, "hex": file bytes, "frames": [[off, len], ...]}; `frames` are the frames of the SPEC scan, used only
to compute the P1-time table (frame bytes -> int seconds | null) with the library's own payload classes, the way
MixedLogReader obtains a payload: cls().unpack(buffer=payload_bytes, offset=0, message_version=...), get_p1_time().
The output path is always explicit and different from the input path; the input is named *.bin so that no .p1i lies next to it.
"""
import io, json, math, os, shutil, sys, logging, contextlib, traceback


def quiet():
    logging.disable(logging.CRITICAL)


def templates():
    from fusion_engine_client.messages import message_type_to_class, Timestamp
    out = {}
    for ty, cls in sorted(message_type_to_class.items(), key=lambda kv: int(kv[0])):
        ent = {'name': cls.__name__, 'timed': False}
        try:
            m = cls()
            base = bytes(m.pack())
            ent['payload'] = base.hex()
            var = []
            for t in (1.0, 2.0):
                m = cls()
                if hasattr(m, 'p1_time'):
                    m.p1_time = Timestamp(t)
                elif hasattr(m, 'details') and hasattr(m.details, 'p1_time'):
                    m.details.p1_time = Timestamp(t)
                else:
                    break
                var.append(bytes(m.pack()))
            if len(var) == 2 and len(var[0]) == len(var[1]) == len(base):
                diff = [i for i in range(len(base)) if var[0][i] != var[1][i]]
                # seconds field of the Timestamp: the u32 holding 1 resp. 2
                if len(diff) == 1 and var[0][diff[0]] == 1 and var[1][diff[0]] == 2:
                    # check that the class really reports it back
                    m = cls(); m.unpack(buffer=var[1], offset=0)
                    pt = m.get_p1_time()
                    if pt is not None and float(pt) == 2.0:
                        ent['timed'] = True
                        ent['sec_off'] = diff[0]
                        ent['payload'] = var[0].hex()
        except Exception as e:
            ent['error'] = repr(e)[:100]
        if 'payload' in ent:
            out[str(int(ty))] = ent
    print(json.dumps(out))


def p1_of(frame):
    from fusion_engine_client.messages import MessageHeader, message_type_to_class
    h = MessageHeader()
    h.unpack(frame, warn_on_unrecognized=False)
    cls = message_type_to_class.get(h.message_type, None)
    if cls is None:
        return None
    try:
        p = cls()
        p.unpack(buffer=frame[24:], offset=0, message_version=h.message_version)
    except Exception:
        return None
    t = p.get_p1_time()
    if t is None or math.isnan(t.seconds):
        return None
    return int(t.seconds)


def rd(path):
    try:
        with open(path, 'rb') as f:
            return f.read().hex()
    except FileNotFoundError:
        return None


def attempt(fn):
    try:
        return {'ok': fn()}
    except BaseException as e:   # the check reports it; nothing is swallowed
        return {'exc': type(e).__name__, 'msg': str(e)[:200], 'tb': traceback.format_exc()[-600:]}


def canon_ret(r):
    """return value -> JSON: int, or [int, {type: count}]"""
    if isinstance(r, tuple):
        return [canon_ret(r[0]), {str(int(k)): int(v) for k, v in r[1].items()}]
    if isinstance(r, bool) or not isinstance(r, int):
        return {'not-int': repr(r)[:80]}
    return int(r)


def run_case(c, tmp):
    from fusion_engine_client.utils.log import extract_fusion_engine_log
    from fusion_engine_client.parsers import fast_indexer
    from fusion_engine_client.parsers.file_index import FileIndex
    d = os.path.join(tmp, 'c' + c['id'])
    os.makedirs(d)
    data = bytes.fromhex(c['hex'])
    inp = os.path.join(d, 'in.bin')
    with open(inp, 'wb') as f:
        f.write(data)
    res = {'id': c['id']}
    res['p1'] = [[data[o:o + n].hex(), p1_of(data[o:o + n])] for o, n in c['frames']]
    # 1. extraction with return_counts
    o1 = os.path.join(d, 'o1.p1log')
    r = attempt(lambda: canon_ret(extract_fusion_engine_log(inp, o1, return_counts=True)))
    res['x1'] = {'ret': r, 'out': rd(o1), 'idx': rd(o1[:-6] + '.p1i'), 'input_unchanged': rd(inp) == c['hex'],
                 'input_p1i': rd(inp[:-4] + '.p1i')}
    if c.get('variants', True):
        # 2. extraction without return_counts, other path
        o2 = os.path.join(d, 'o2.p1log')
        r = attempt(lambda: canon_ret(extract_fusion_engine_log(inp, o2, warn_on_gaps=False)))    # (a flag that must not matter)
        res['x2'] = {'ret': r, 'out': rd(o2), 'idx': rd(o2[:-6] + '.p1i')}
        # 2b. save_index=False writes no index; relative paths with the case directory as current directory
        o2b = os.path.join(d, 'o2b.p1log')
        cwd = os.getcwd()
        try:
            os.chdir(d)
            r = attempt(lambda: canon_ret(extract_fusion_engine_log('in.bin', 'o2b.p1log', save_index=False)))
        finally:
            os.chdir(cwd)
        res['x2b'] = {'ret': r, 'out': rd(o2b), 'idx': rd(o2b[:-6] + '.p1i')}
    if res['x1']['out'] is not None:
        # 3. SPEC for the index: index a copy of the output afresh and let the library save that index
        fr = os.path.join(d, 'fresh.p1log')
        shutil.copyfile(o1, fr)
        r = attempt(lambda: len(fast_indexer.fast_generate_index(fr, force_reindex=True, save_index=True)))
        res['fresh'] = {'ret': r, 'idx': rd(fr[:-6] + '.p1i')}
        # 3b. the written index is accepted by the loader for the output, and loads to the same entries
        if res['x1']['idx'] is not None:
            def load():
                a = FileIndex(index_path=o1[:-6] + '.p1i', data_path=o1, delete_on_error=False)
                return FileIndex._to_raw(a._data).tobytes().hex()
            res['load'] = attempt(load)
        # 4. second extraction: output of the first as input, into a third path
        o3 = os.path.join(d, 'o3.p1log')
        i3 = os.path.join(d, 'in3.bin')
        shutil.copyfile(o1, i3)
        r = attempt(lambda: canon_ret(extract_fusion_engine_log(i3, o3, return_counts=True)))
        res['x3'] = {'ret': r, 'out': rd(o3), 'idx': rd(o3[:-6] + '.p1i')}
    # 5. extraction over an output location that already exists: either files put there beforehand, or an earlier
    #    extraction of another input (with or without index) into the same path
    ov = c.get('over')
    if ov is not None:
        o5 = os.path.join(d, 'o5.p1log')
        first = None
        if ov['kind'] == 'files':
            with open(o5, 'wb') as f:
                f.write(bytes.fromhex(ov['out']))
            if ov.get('idx') is not None:
                with open(o5[:-6] + '.p1i', 'wb') as f:
                    f.write(bytes.fromhex(ov['idx']))
        else:
            a = os.path.join(d, 'first.bin')
            with open(a, 'wb') as f:
                f.write(bytes.fromhex(ov['hex']))
            first = attempt(lambda: canon_ret(extract_fusion_engine_log(a, o5, save_index=ov['save_index'])))
        prior = {'out': rd(o5), 'idx': rd(o5[:-6] + '.p1i')}
        r = attempt(lambda: canon_ret(extract_fusion_engine_log(inp, o5, return_counts=True, save_index=ov.get('second_save_index', True))))
        res['over'] = {'first': first, 'prior': prior, 'ret': r, 'out': rd(o5), 'idx': rd(o5[:-6] + '.p1i')}
    shutil.rmtree(d, ignore_errors=True)
    return res


_APP_OUT = None


def call_main(argv):
    """applications/p1_extract.py main() in-process with sys.argv patched; returns None | exit code | exception"""
    global _APP_OUT
    import contextlib
    from fusion_engine_client.applications import p1_extract
    if _APP_OUT is None:
        _APP_OUT = io.StringIO()       # main() installs a logging handler on sys.stdout once: keep it off the protocol stream
    saved = sys.argv
    sys.argv = ['p1_extract'] + argv
    try:
        with contextlib.redirect_stdout(_APP_OUT), contextlib.redirect_stderr(_APP_OUT):
            p1_extract.main()
        return {'ok': None}
    except SystemExit as e:
        return {'ok': e.code}
    except BaseException as e:
        return {'exc': type(e).__name__, 'msg': str(e)[:200], 'tb': traceback.format_exc()[-600:]}
    finally:
        sys.argv = saved
        _APP_OUT.seek(0); _APP_OUT.truncate()


def snapshot(root):
    out = {}
    for r, ds, fs in os.walk(root):
        for f in fs:
            pth = os.path.join(r, f)
            out[os.path.relpath(pth, root)] = rd(pth)
    return out


def appseq_case(c, tmp):
    """a sequence of p1_extract runs (main() in-process, sys.argv patched) inside one case directory.  All inputs are written
    before the first run.  A step is {"name": input file relative to the case directory, "hex", "frames", "arg": "file"|"dir"
    (pass the file, or the directory that contains it), "o": output directory relative to the case directory | null (tool
    default), "p": prefix | null (tool default), "relative": run with cwd = case directory and relative paths}.
    After every step the whole directory tree is compared with its state before: the result lists every file that was
    created, modified or deleted."""
    d = os.path.join(tmp, 's' + c['id'])
    os.makedirs(d)
    res = {'id': c['id'], 'steps': []}
    for st in c['steps']:
        pth = os.path.join(d, st['name'])
        os.makedirs(os.path.dirname(pth), exist_ok=True)
        with open(pth, 'wb') as f:
            f.write(bytes.fromhex(st['hex']))
        if st.get('o'):
            os.makedirs(os.path.join(d, st['o']), exist_ok=True)
    cwd = os.getcwd()
    for st in c['steps']:
        data = bytes.fromhex(st['hex'])
        before = snapshot(d)
        base = '' if st.get('relative') else d
        target = st['name'] if st.get('arg', 'file') == 'file' else (os.path.dirname(st['name']) or '.')
        argv = []
        if st.get('o'):
            argv += ['-o', os.path.join(base, st['o'])]
        if st.get('p') is not None:
            argv += ['-p', st['p']]
        argv.append(os.path.join(base, target))
        try:
            if st.get('relative'):
                os.chdir(d)
            r = call_main(argv)
        finally:
            os.chdir(cwd)
        after = snapshot(d)
        diff = {k: after.get(k) for k in set(before) | set(after) if before.get(k) != after.get(k)}
        res['steps'].append({'ret': r, 'argv': argv, 'changed': diff,
                             'p1': [[data[o:o + n].hex(), p1_of(data[o:o + n])] for o, n in st['frames']]})
    shutil.rmtree(d, ignore_errors=True)
    return res


def app_case(c, tmp):
    """through the command line tool: p1_extract -p out <input> writes <dir of input>/out.p1log (the prefix is passed
    explicitly: without it the tool names the output after the *directory* kind, not part of the property)"""
    import subprocess
    d = os.path.join(tmp, 'a' + c['id'])
    os.makedirs(d)
    inp = os.path.join(d, 'input.bin')
    with open(inp, 'wb') as f:
        f.write(bytes.fromhex(c['hex']))
    p = subprocess.run([sys.executable, '-m', 'fusion_engine_client.applications.p1_extract', '-p', 'out', inp],
                       capture_output=True, text=True, cwd=d, timeout=120)
    res = {'id': c['id'], 'rc': p.returncode, 'out': rd(os.path.join(d, 'out.p1log')), 'idx': rd(os.path.join(d, 'out.p1i')),
           'stderr': '\n'.join(l for l in p.stderr.split('\n') if 'leap' not in l.lower())[-400:], 'stdout': p.stdout[-300:]}
    shutil.rmtree(d, ignore_errors=True)
    return res


def main():
    mode = sys.argv[1]
    quiet()
    if mode == 'templates':
        with contextlib.redirect_stderr(io.StringIO()):
            import fusion_engine_client.messages  # noqa
        templates()
        return
    tmp = sys.argv[2]
    fn = {'run': run_case, 'app': app_case, 'appseq': appseq_case}[mode]
    for line in sys.stdin:
        line = line.strip()
        if not line:
            continue
        c = json.loads(line)
        try:
            out = fn(c, tmp)
        except BaseException as e:
            out = {'id': c['id'], 'harness_error': repr(e)[:300], 'tb': traceback.format_exc()[-800:]}
        sys.stdout.write(json.dumps(out) + '\n')
        sys.stdout.flush()


if __name__ == '__main__':
    main()
