"""C10 implementation runner.  usage: c10_impl.py <cases.jsonl> <out.jsonl> <logdir>
Each case: {"id", "log": spec, "logkey", "flags": [h,p,b,o,i], "max_bytes", "srcs", "types", "range", "late_srcs"?}
Writes one JSON line per case: {"id", "range_state", "res": [[piece...]...]} or {"id", "err": <exception class>}.
For every distinct log (by logkey) the file is written to <logdir>/<logkey>.p1log once and an unfiltered read with
every return_* option on is reported as "base" (the unfiltered log the property speaks about)."""
import json, os, sys, warnings
warnings.filterwarnings('ignore')
sys.path.insert(0, os.path.dirname(os.path.abspath(__file__)))
import c10_logs as L
from fusion_engine_client.parsers import MixedLogReader

COMMON = dict(save_index=False, ignore_index=True, num_threads=1)


def base_read(path):
    """the unfiltered read with every return_* option on, in canonical piece form"""
    r = MixedLogReader(path, return_header=True, return_payload=True, return_bytes=True, return_offset=True,
                       return_message_index=True, **COMMON)
    return [L.canon_result(x, [1, 1, 1, 1, 1]) for x in r]


def run_case(case, path):
    flags = case['flags']
    kw = dict(COMMON)
    kw.update(L.flag_kwargs(flags))
    if case.get('max_bytes') is not None:
        kw['max_bytes'] = case['max_bytes']
    tr = L.make_range(case.get('range'))
    if tr is not None:
        kw['time_range'] = tr
    if case.get('types') is not None:
        kw['message_types'] = L.types_arg(case['types'], case.get('types_form'))
    late = case.get('late_srcs')
    if case.get('srcs') is not None:
        kw['source_ids'] = set(case['srcs'])
    out = {'id': case['id'], 'range_state': L.range_state(tr)}
    try:
        r = MixedLogReader(path, **kw)
        if late is not None:
            r.filter_in_place(None, source_ids=set(late))
        live, kept = [], []
        for x in r:
            live.append(L.canon_result(x, flags))     # as seen inside the loop
            kept.append(x)
        out['res'] = live
        # as seen by a caller that keeps the results (list(reader)): snapshot taken after the whole iteration
        out['res_after'] = [L.canon_result(x, flags) for x in kept]
        out['alias'] = L.aliased(kept, flags)
    except Exception as e:
        out['err'] = type(e).__name__
        out['msg'] = str(e)[:200]
    # shadow run: same filters, every return_* option on, to identify the messages returned (classification only)
    try:
        kw.update(L.flag_kwargs([1, 1, 1, 1, 1]))
        if tr is not None:
            kw['time_range'] = L.make_range(case.get('range'))
        r = MixedLogReader(path, **kw)
        if late is not None:
            r.filter_in_place(None, source_ids=set(late))
        out['shadow'] = [int(x[3]) for x in r]
    except Exception as e:
        out['shadow'] = type(e).__name__
    return out


def main():
    cases_path, out_path, logdir = sys.argv[1:4]
    seen = {}
    with open(out_path, 'w') as fo:
        for line in open(cases_path):
            case = json.loads(line)
            k = case['logkey']
            path = os.path.join(logdir, k + '.p1log')
            extra = {}
            if k not in seen:
                _, msgs = L.write(path, case['log'])
                seen[k] = True
                extra = {'msgs': msgs, 'base': base_read(path), 'path': path}
            out = run_case(case, path)
            out.update(extra)
            fo.write(json.dumps(out) + '\n')


if __name__ == '__main__':
    main()
