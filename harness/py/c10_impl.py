"""C10 implementation runner.  usage: c10_impl.py <cases.jsonl> <out.jsonl> <logdir>
Each case: {"id", "log": spec, "logkey", "flags": [h,p,b,o,i], "max_bytes", "srcs", "types", "range", "late_srcs"?}
Writes one JSON line per case: {"id", "range_state", "res": [[piece...]...]} or {"id", "err": <exception class>}.
For every distinct log (by logkey) the file is written to <logdir>/<logkey>.p1log once and an unfiltered read with
every return_* option on is reported as "base" (the unfiltered log the property speaks about)."""
import json, os, sys, warnings
warnings.filterwarnings('ignore')
sys.path.insert(0, os.path.dirname(os.path.abspath(__file__)))
import c10_logs as L
from fusion_engine_client.parsers import MixedLogReader

COMMON = dict(save_index=False, ignore_index=True, num_threads=1)


def base_read(path):
    """the unfiltered read with every return_* option on, in canonical piece form"""
    r = MixedLogReader(path, return_header=True, return_payload=True, return_bytes=True, return_offset=True,
                       return_message_index=True, **COMMON)
    return [L.canon_result(x, [1, 1, 1, 1, 1]) for x in r]


def reader_kwargs(case, flags, path):
    """constructor arguments of one case; returns (kwargs, TimeRange object, the argument objects handed in)"""
    kw = dict(COMMON)
    kw.update(L.flag_kwargs(flags))
    opt = case.get('options') or {}
    if opt.get('index') == 'saved':
        # the access path "an index file saved by an earlier open is loaded"
        if not os.path.exists(os.path.splitext(path)[0] + '.p1i'):
            MixedLogReader(path, save_index=True, ignore_index=True, num_threads=1)
        kw.update(save_index=False, ignore_index=False)
    for k in ('warn_on_gaps', 'show_progress'):
        if k in opt:
            kw[k] = bool(opt[k])
    if case.get('max_bytes') is not None:
        kw['max_bytes'] = case['max_bytes']
    tr = L.make_range(case.get('range'))
    if tr is not None:
        kw['time_range'] = tr
    if case.get('types') is not None:
        kw['message_types'] = L.types_arg(case['types'], case.get('types_form'))
    if case.get('srcs') is not None:
        kw['source_ids'] = L.srcs_arg(case['srcs'], case.get('srcs_form'))
    return kw, tr


def snapshot(kw):
    """value of the caller's argument objects (to see that the reader leaves them alone)"""
    t = kw.get('message_types')
    s_ = kw.get('source_ids')
    # one-shot iterables cannot be looked at without consuming them: not part of the snapshot
    if t is not None and not isinstance(t, (set, frozenset, list, tuple, type)) and not hasattr(t, 'name'):
        t = None
    if s_ is not None and not isinstance(s_, (set, frozenset, list, tuple, int, range)) and not hasattr(s_, 'dtype'):
        s_ = None
    return [L.range_state(kw.get('time_range')),
            None if t is None else (repr(type(t).__name__), [int(x) if not isinstance(x, type) else x.__name__ for x in (t if isinstance(t, (set, frozenset, list, tuple)) else [t])]),
            None if s_ is None else (type(s_).__name__, sorted(int(x) for x in s_) if not isinstance(s_, int) else s_)]


def run_case(case, path):
    flags = case['flags']
    kw, tr = reader_kwargs(case, flags, path)
    late = case.get('late_srcs')
    out = {'id': case['id'], 'range_state': L.range_state(tr)}
    before = snapshot(kw)
    try:
        r = MixedLogReader(path, **kw)
        if late is not None:
            r.filter_in_place(None, source_ids=L.srcs_arg(late, case.get('late_form')))
        live, kept = [], []
        for x in r:
            live.append(L.canon_result(x, flags))     # as seen inside the loop
            kept.append(x)
        out['res'] = live
        # as seen by a caller that keeps the results (list(reader)): snapshot taken after the whole iteration
        out['res_after'] = [L.canon_result(x, flags) for x in kept]
        out['alias'] = L.aliased(kept, flags)
        # the options the caller gave are what the reader reports afterwards (internal sampling restores them)
        out['flags_after'] = [int(bool(getattr(r, n))) for n in L.FLAG_NAMES] if all(hasattr(r, n) for n in L.FLAG_NAMES) else None
    except Exception as e:
        out['err'] = type(e).__name__
        out['msg'] = str(e)[:200]
    out['inputs_same'] = snapshot(kw) == before
    # shadow run: same filters, every return_* option on, to identify the messages returned (classification only)
    try:
        kw2, _ = reader_kwargs(case, [1, 1, 1, 1, 1], path)
        r = MixedLogReader(path, **kw2)
        if late is not None:
            r.filter_in_place(None, source_ids=L.srcs_arg(late, case.get('late_form')))
        out['shadow'] = [int(x[3]) for x in r]
    except Exception as e:
        out['shadow'] = type(e).__name__
    return out


def main():
    cases_path, out_path, logdir = sys.argv[1:4]
    seen = {}
    with open(out_path, 'w') as fo:
        for line in open(cases_path):
            case = json.loads(line)
            k = case['logkey']
            path = os.path.join(logdir, k + ('.p1log' if int(k[:2], 16) % 3 else '.bin'))
            extra = {}
            if k not in seen:
                _, msgs = L.write(path, case['log'])
                seen[k] = True
                extra = {'msgs': msgs, 'base': base_read(path), 'path': path}
            out = run_case(case, path)
            out.update(extra)
            fo.write(json.dumps(out) + '\n')


if __name__ == '__main__':
    main()
