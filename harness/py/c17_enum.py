"""C17 IMPL runner: speaks the same line protocol as ocaml/c17_driver.ml against the real classes.

One process = one fresh interpreter = one history per package enumeration: a second `E <key>` for the same key
in one process is refused (histories must not leak between cases).  `T <members>` defines a brand-new synthetic
IntEnum subclass each time.

Every answer is `<raw> | <public view>`:
  raw          what the call returned, with the member's real name (hidden names are the library's private naming)
  public view  only what the property text names: value, is_unrecognized(), the name of a recognised member,
               refusal (any exception), list / len.  A returned member that is inconsistent with itself
               (int() vs .value, str()/repr()/to_string() vs the flag, wrong class) gets a BAD: suffix.
"""
import importlib, os, sys

OUT = os.fdopen(os.dup(1), 'w')          # package modules may rebind sys.stdout at import time
from fusion_engine_client.utils.enum_utils import IntEnum, enum_bitmask          # noqa: E402
from fusion_engine_client.utils.construct_utils import AutoEnum                   # noqa: E402
import construct                                                                 # noqa: E402

used_keys = set()
cur = None
mask = None
syn_count = 0


def hx(v):
    return format(int(v), 'x')


def unhex(s):
    return int(s, 16)


held = {}            # value -> member object returned by an earlier conversion on the current class
foreign = {}         # (kind, value) -> member of another enumeration carrying that value


def arg(tok):
    """an integer argument as the kind of Python object its tag asks for; int(result) is always the integer"""
    if ':' not in tok:
        return unhex(tok)
    kind, h = tok.split(':')
    v = unhex(h)
    if kind == 'h':                      # the member object an earlier conversion returned (else the plain int)
        return held.get(v, v)
    if kind in ('f', 'g'):               # a member of another enumeration: own name per value / one shared name
        if (kind, v) not in foreign:
            name = ('V%d' % v).replace('-', 'M') if kind == 'f' else 'SAME'
            ns = {'IntEnum': IntEnum, '__name__': __name__}
            exec('class Foreign(IntEnum):\n    %s = %d\n' % (name, v), ns)
            foreign[(kind, v)] = getattr(ns['Foreign'], name)
        return foreign[(kind, v)]
    if kind == 'b':
        return bool(v) if v in (0, 1) else v
    if kind == 'u':                      # a numpy integer scalar of one of the widths that can hold the value
        import numpy as np
        fits = [t for t in (np.uint8, np.int8, np.uint16, np.int16, np.uint32, np.int32, np.uint64, np.int64)
                if np.iinfo(t).min <= v <= np.iinfo(t).max]
        return fits[(v * 7 + len(held)) % len(fits)](v) if fits else v
    raise ValueError('bad argument tag ' + tok)


live = {}            # key -> {'cls', 'mask', 'held', 'pre'}: several classes stay alive side by side in one interpreter
cur_key = None
mask_count = 0


def make_pre(cls):
    """adapters declared now, i.e. before the values of the coming history are seen; used later by `AB`"""
    out = {}
    for con in (construct.Int8ul, construct.Int16ul, construct.Int64sl):
        for strict in (False, True):
            try:
                out[(con, strict)] = AutoEnum(con, cls, raise_on_unrecognized=strict)
            except Exception as e:
                out[(con, strict)] = e
    return out


def enter(key, cls, fresh):
    global cur, cur_key, mask
    if cur_key is not None and cur_key in live:
        live[cur_key].update(mask=mask, held=dict(held))
    if fresh:
        live[key] = {'cls': cls, 'mask': None, 'held': {}, 'pre': make_pre(cls)}
    cur_key, cur = key, live[key]['cls']
    mask = live[key]['mask']
    held.clear()
    held.update(live[key]['held'])


def table_line(cls):
    ok = not any(k.startswith(type(cls).UNRECOGNIZED_PREFIX) for k in cls.__members__)
    return 'ok %d %d' % (len(cls.__members__), ok and len(cls.__members__) > 0)


def held_check(cls):
    """members handed out earlier are still what they were, and converting their integer again gives the same object"""
    bad = []
    for v, m in list(held.items()):
        if int(m) != v or m.value != v:
            bad.append('value-of-%x' % v)
        flag, b = check_member(cls, m)
        bad += b
        try:
            again = cls(v, raise_on_unrecognized=False)
            if again is not m:
                bad.append('another-object-for-%x' % v)
            if bool(again.is_unrecognized()) != flag:
                bad.append('flag-of-%x' % v)
        except Exception as e:
            bad.append('%s-for-%x' % (type(e).__name__, v))
    return 'HC %d' % len(held) + (' BAD:' + '+'.join(sorted(set(bad))[:4]) if bad else '')


def nm(s):
    return '' if s == '~' else s


def show_name(s):
    return s if s != '' else '~'


def members_of(tok):
    if tok in ('-', ''):
        return []
    return [(nm(t.split(':')[0]), unhex(t.split(':')[1])) for t in tok.split(',')]


def show_members(ms):
    ms = list(ms)
    one = lambda m: ('%s:%s' % (show_name(m.name), hx(m))) if hasattr(m, 'name') else '?%s' % type(m).__name__
    return ','.join(one(m) for m in ms) if ms else '-'


def check_member(cls, r):
    bad = []
    if not isinstance(r, cls):
        bad.append('class')
    if int(r) != r.value:
        bad.append('value')
    flag = bool(r.is_unrecognized())
    want = '(Unrecognized)' if flag else r.name
    if str(r) != want:
        bad.append('str')
    if repr(r) != '<%s.%s: %d>' % (cls.__name__, want, int(r)):
        bad.append('repr')
    # mask helper classes replace to_string by a classmethod taking a mask: the member method is not reachable there
    if getattr(cls.to_string, '__func__', cls.to_string) is IntEnum.to_string and (
            r.to_string() != '%s (%d)' % (want, int(r)) or r.to_string(include_value=False) != want):
        bad.append('to_string')
    return flag, bad


def member_out(cls, r):
    flag, bad = check_member(cls, r)
    pub = ('SU %s' % hx(r)) if flag else ('SM %s %s' % (show_name(r.name), hx(r)))
    if bad:
        pub += ' BAD:' + '+'.join(bad)
    return 'M %s %s | %s' % (show_name(r.name), hx(r), pub)


def attempt(cls, f):
    try:
        r = f()
    except Exception as e:
        return 'X %s | SR' % type(e).__name__
    try:
        held[int(r)] = r
    except Exception:
        pass
    return member_out(cls, r)


def iterate_during(cls, opener, toks):
    """an iteration left open while values are converted leniently (first encounters grow the class)"""
    try:
        it = opener(cls)
        out = []
        first = next(it, None)
        if first is not None:
            out.append(first)
        for t in toks:
            try:
                r = cls(arg(t), raise_on_unrecognized=False)
                held[int(r)] = r
            except Exception:
                pass
        out += list(it)
    except Exception as e:
        return 'X %s | SR' % type(e).__name__
    return listing(out)


def listing(ms):
    s = show_members(ms)
    return 'L %s | SL %s' % (s, s)


def adapter(cls, v, strict, declared_before=False):
    if 0 <= v < 2 ** 8:
        con, raw = construct.Int8ul, v.to_bytes(1, 'little')
    elif 0 <= v < 2 ** 16:
        con, raw = construct.Int16ul, v.to_bytes(2, 'little')
    elif -2 ** 63 <= v < 2 ** 63:
        con, raw = construct.Int64sl, v.to_bytes(8, 'little', signed=True)
    else:
        return attempt(cls, lambda: cls(v, raise_on_unrecognized=strict))
    try:
        if declared_before:
            ad = live[cur_key]['pre'][(con, strict)]
            if isinstance(ad, Exception):
                raise ad
        else:
            ad = AutoEnum(con, cls, raise_on_unrecognized=strict)  # construct reads the members by iterating the class
        r = ad.parse(raw)
    except Exception as e:
        return 'X %s | SR' % type(e).__name__
    try:
        held[int(r)] = r
    except Exception:
        pass
    line = member_out(cls, r)
    for what, obj in (('member', r), ('int', v)):                  # encode the member and the plain integer
        try:
            back = ad.build(obj)
        except Exception as e:
            back = type(e).__name__
        if back != raw:
            line += ' BAD:rebuild-from-%s=%r' % (what, back)
            break
    return line


def make_mask(cls, off, define_bits, pred, base):
    global mask
    ns = {'__module__': __name__}
    ns.update(base)
    tmpl = type('SynMask', (), ns)
    if pred == '*':
        p = None
    else:
        ok = {unhex(x) for x in pred.split(',')} if pred not in ('-', '') else set()
        p = lambda m: int(m) in ok
    try:
        mask = enum_bitmask(cls, offset=off, define_bits=define_bits, predicate=p)(tmpl)
    except Exception as e:
        mask = None
        return 'X %s' % type(e).__name__
    try:
        priv = '%s %s %s' % (hx(mask._enum_offset), show_members(mask._enum_values), show_members(_E(k, v) for k, v in mask._member_map_.items()))
    except AttributeError:
        priv = 'private-attributes-missing'
    return 'ok ' + priv


class _E:
    """(name, value) pair printed like a member: an alias keeps its own name"""
    def __init__(self, name, v):
        self.name, self.v = name, int(v)

    def __int__(self):
        return self.v

    def __index__(self):
        return self.v


def aliasing(again, got, to_string):
    """results are the caller's: two calls must not hand out the same list object, and editing a returned list in
    place must not change what a later call (or to_string) answers"""
    want = list(got)
    text = to_string() if to_string else None
    second = again()
    bad = ''
    if second is got:
        bad = ' BAD:aliasing-same-list-object-returned-twice'
    got.reverse()
    got.append(None)
    del got[:1]
    third = again()
    if list(third) != want or (to_string and to_string() != text):
        bad = ' BAD:aliasing-editing-a-result-changes-later-answers'
    return bad


def item_of(cls, tok):
    kind, rest = tok[0], tok[1:]
    if kind == 'n':
        return nm(rest)
    v = unhex(rest)
    if kind == 'v':
        try:
            return cls(v)            # a member object when the value is defined
        except ValueError:
            return v
    return v


def items_of(cls, tok):
    return [item_of(cls, t) for t in tok.split(',')] if tok not in ('-', '') else []


def do(line):
    global cur, mask, syn_count, mask_count
    w = line.split()
    c = w[0]
    if c == 'E':
        key = w[1]
        if key in used_keys:
            return 'refused-second-history-in-one-interpreter'
        used_keys.add(key)
        try:
            mod, qual = key.split(':')
            obj = importlib.import_module(mod)
            for part in qual.split('.'):
                obj = getattr(obj, part)
        except Exception:
            cur = None
            return 'none'
        enter(key, obj, True)
        return table_line(obj)
    if c == 'T':
        ms = members_of(w[1])
        syn_count += 1
        body = ''.join('    %s = %d\n' % (n, v) for n, v in ms) or '    pass\n'
        ns = {'IntEnum': IntEnum, '__name__': __name__}
        exec('class Syn%d(IntEnum):\n%s' % (syn_count, body), ns)
        enter('syn%d' % syn_count, ns['Syn%d' % syn_count], True)
        return table_line(cur)
    if c == 'SW':
        if w[1] not in live:
            return 'none'
        enter(w[1], None, False)
        return table_line(cur)
    if c == 'EM':                       # the current mask helper class as an enumeration in its own right
        if mask is None:
            return 'nomask'
        mask_count += 1
        enter('mask%d' % mask_count, mask, True)
        return table_line(cur)
    if c == 'SO':
        return 'ok'
    if c == 'HC':
        return held_check(cur)
    cls = cur
    if c == 'C':
        v, strict = arg(w[1]), w[2] == '1'
        if strict and len(w) > 3 and w[3] == 'd':          # strict by default: no keyword at all
            return attempt(cls, lambda: cls(v))
        return attempt(cls, lambda: cls(v, raise_on_unrecognized=strict))
    if c in ('IT', 'RIT'):
        toks = w[1].split(',') if w[1] not in ('-', '') else []
        return iterate_during(cls, iter if c == 'IT' else reversed, toks)
    if c == 'P':                  # the same conversion with a numpy integer (what the file index passes)
        strict = w[2] == '1'
        nv = arg('u:' + w[1])
        return attempt(cls, lambda: cls(nv, raise_on_unrecognized=strict))
    if c == 'AB':
        return adapter(cls, unhex(w[1]), w[2] == '1', declared_before=True)
    if c == 'GA':                       # attribute access: one more public path to a defined member
        return attempt(cls, lambda: getattr(cls, nm(w[1])))
    if c == 'A':
        return adapter(cls, unhex(w[1]), w[2] == '1')
    if c == 'N':
        s, strict = nm(w[1]), w[2] == '1'
        return attempt(cls, lambda: cls(s, raise_on_unrecognized=strict))
    if c == 'G':
        return attempt(cls, lambda: cls[nm(w[1])])
    if c == 'I':
        return attempt(cls, lambda: cls[arg(w[1])])
    if c == 'F':
        return attempt(cls, lambda: cls.from_string(nm(w[1]), case_insensitive=True))
    if c in ('L', 'K', 'R'):
        try:                                   # an exception raised by the class is an outcome, not a harness failure
            if c == 'L':
                return listing(list(cls))
            if c == 'R':
                return listing(list(reversed(cls)))
            n = len(cls)
            return 'K %d | SK %d' % (n, n)
        except Exception as e:
            return 'X %s | SR' % type(e).__name__
    if c == 'ST':
        try:
            return 'L ' + show_members(_E(k, v) for k, v in cls._member_map_.items())
        except AttributeError:
            return 'private-attributes-missing'
    if c == 'MK':
        return make_mask(cls, unhex(w[1]), w[2] == '1', w[3], dict(members_of(w[4])))
    if c == 'MR':
        key, ekey = w[1], w[2]
        if key in used_keys or ekey in used_keys:
            return 'refused-second-history-in-one-interpreter'
        used_keys.update([key, ekey])
        try:
            objs = []
            for k in (key, ekey):
                mod, qual = k.split(':')
                obj = importlib.import_module(mod)
                for part in qual.split('.'):
                    obj = getattr(obj, part)
                objs.append(obj)
            enter(ekey, objs[1], True)
            mask = objs[0]
        except Exception:
            mask = None
            return 'none'
        try:
            return 'ok %s %s %s' % (hx(mask._enum_offset), show_members(mask._enum_values),
                                    show_members(_E(k, v) for k, v in mask._member_map_.items()))
        except AttributeError:
            return 'ok private-attributes-missing'
    if c in ('B', 'V', 'RT') and mask is None:
        return 'nomask'
    if c == 'B':
        items = items_of(cls, w[1])
        before = list(items)
        try:
            z = mask.to_bitmask(items)
        except Exception as e:
            return 'X ' + type(e).__name__
        out = 'Z ' + hx(z)
        if len(items) != len(before) or any(a is not b for a, b in zip(items, before)):
            out += ' BAD:input-list-modified'
        return out
    if c == 'V':
        try:
            vals = mask.to_values(unhex(w[1]))
            s = mask.to_string(unhex(w[1]))
        except Exception as e:
            return 'X ' + type(e).__name__
        out = 'L ' + show_members(vals)
        if not all(isinstance(v, cls) for v in vals):
            out += ' BAD:not-members-of-the-enum'
        elif s != ', '.join(str(v) for v in vals):
            out += ' BAD:to_string'
        out += aliasing(lambda: mask.to_values(unhex(w[1])), vals, lambda: mask.to_string(unhex(w[1])))
        return out
    if c == 'RT':
        try:
            vals = mask.to_values(mask.to_bitmask(items_of(cls, w[1])))
        except Exception as e:
            return 'X ' + type(e).__name__
        out = 'L ' + show_members(vals)
        if not all(isinstance(v, cls) for v in vals):
            out += ' BAD:class'
        items = items_of(cls, w[1])
        out += aliasing(lambda: mask.to_values(mask.to_bitmask(items)), vals, None)
        return out
    return '?'


def main():
    for line in sys.stdin:
        line = line.rstrip('\n')
        if not line:
            continue
        try:
            r = do(line)
        except Exception as e:            # harness failure, not an implementation outcome
            r = 'harness-error %s: %s' % (type(e).__name__, str(e)[:200])
        OUT.write(r + '\n')
    OUT.flush()


main()
