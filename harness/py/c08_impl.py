"""C08 IMPL runner (runs under /venv/bin/python with PYTHONPATH=<repo>/python).

stdin: one JSON object per line
   {"id":…, "recipe":[…], "consts":[READ,MAX] | null, "threads":[1,2,…], "paths":[W,…] | absent}
   ("paths": also obtain the index through fast_generate_index(save_index=True) with those worker counts, through a second
   call that loads the saved .p1i, and through MixedLogReader(path).get_index() with default arguments, twice)
stdout: one JSON object per line
   {"id":…, "size":n, "runs":{"1": [[seconds|null,type,offset,message_index],…] | {"raise":"ExcType", "msg":…}, …},
    "oracle":{md5(type_le16 ver payload): [num,den] | null, …}, "consts":[READ,MAX] actually in force}

"consts" monkey-patches fast_indexer._READ_SIZE_BYTES/_MAX_FE_MSG_SIZE_BYTES in this process before the call;
the worker pool is created by fork() inside fast_generate_index, so the workers inherit the patched module
(verified by the check: multi-worker results with small constants depend on them).

The *oracle* is the library's own payload decoding (cls().unpack(exact payload) + get_p1_time()), evaluated here
independently of the indexer for every CRC-consistent sync position of the file; MODEL and SPEC take the P1
stamp of a message from this table (per-class payload codecs are the subject of C01, not of C08).

`--catalog` prints two JSON lines: a list of [type, version, payload_hex, stamp_offset] for every registered
message class whose default instance packs (with a P1 time set where the class has one), and a dict with the
fork probe and `registered` = [type, version] of EVERY registered class.
"""
import hashlib
import json
import math
import os
import struct
import sys
import zlib

sys.path.insert(0, os.path.dirname(os.path.abspath(__file__)))
import c08_files

import numpy as np  # noqa
from fusion_engine_client.messages import MessageHeader, Timestamp, message_type_to_class
from fusion_engine_client.parsers import fast_indexer as fi

def _name(*cands):
    for n in cands:
        if isinstance(getattr(fi, n, None), int):
            return n
    return None


# the module attributes holding the block constants (private: if they are gone the supporting small-constant run is
# skipped and reported as such; the main run does not need them)
N_READ = _name('_READ_SIZE_BYTES', 'READ_SIZE_BYTES')
N_MAX = _name('_MAX_FE_MSG_SIZE_BYTES', 'MAX_FE_MSG_SIZE_BYTES')
PATCHABLE = N_READ is not None and N_MAX is not None
REAL = (getattr(fi, N_READ), getattr(fi, N_MAX)) if PATCHABLE else None


def set_consts(rd, mx):
    setattr(fi, N_READ, int(rd)); setattr(fi, N_MAX, int(mx))


def okey(mtype, ver, payload):
    return hashlib.md5(struct.pack('<HB', mtype, ver) + payload).hexdigest()


def oracle_one(msg_bytes, payload):
    """P1 stamp of one message as the library decodes it from exactly its own payload bytes."""
    header = MessageHeader()
    header.unpack(buffer=msg_bytes, offset=0, warn_on_unrecognized=False)
    cls = message_type_to_class.get(header.message_type, None)
    if cls is None:
        return None
    try:
        obj = cls()
        if not (hasattr(obj, 'p1_time') or hasattr(obj, 'details')):
            return None
        obj.unpack(buffer=payload, offset=0, message_version=header.message_version)
        t = obj.get_p1_time()
        s = float(t.seconds)
    except BaseException:
        return None
    if math.isnan(s):
        return None
    if s < 0 or math.isinf(s):
        raise RuntimeError('c08_impl: P1 seconds %r outside the modelled domain' % s)
    num, den = s.as_integer_ratio()
    return [num, den]


def oracle_table(data, legacy_view=None):
    """legacy_view=(READ, MAX): also tabulate the decode of "everything from the payload start to the end of the
    block buffer" — what the indexer handed to the payload class before the exact-slice repair."""
    out = {}
    n = len(data)
    pos = data.find(c08_files.SYNC)
    while pos >= 0:
        if pos + 24 <= n:
            crc, = struct.unpack_from('<I', data, pos + 4)
            ver = data[pos + 9]
            mtype, = struct.unpack_from('<H', data, pos + 10)
            psize, = struct.unpack_from('<I', data, pos + 16)
            if psize <= MessageHeader._MAX_EXPECTED_SIZE_BYTES:
                avail = data[pos + 24:pos + 24 + psize]
                if zlib.crc32(data[pos + 8:pos + 24] + avail) == crc:
                    k = okey(mtype, ver, avail)
                    if k not in out:
                        out[k] = oracle_one(data[pos:pos + 24] + avail, avail)
                    if legacy_view:
                        rd, mx = legacy_view
                        rest = data[pos + 24:min(n, (pos // rd) * rd + rd + mx)]
                        k = okey(mtype, ver, rest)
                        if k not in out:
                            out[k] = oracle_one(data[pos:pos + 24] + rest, rest)
        pos = data.find(c08_files.SYNC, pos + 1)
    return out


def entries(idx):
    t = idx.time
    return [[None if math.isnan(a) else (int(a) if a == int(a) else a), int(b), int(c), int(d)]
            for a, b, c, d in zip(t.tolist(), idx.type.tolist(), idx.offset.tolist(), idx.message_index.tolist())]


def guarded(f):
    try:
        return entries(f())
    except BaseException as e:  # noqa — "never raises" is the observation
        if isinstance(e, (KeyboardInterrupt, SystemExit)):
            raise
        return {'raise': type(e).__name__, 'msg': str(e)[:200]}


def run_index(path, nt):
    return guarded(lambda: fi.fast_generate_index(path, force_reindex=True, save_index=False, num_threads=nt))


def _rm_index(path):
    p = os.path.splitext(path)[0] + '.p1i'
    if os.path.exists(p):
        os.remove(p)


def run_paths(path, threads, case_id=0):
    """the other public ways to obtain the index of a file: generated and saved, loaded from the saved .p1i on a second
    call, and through MixedLogReader(path).get_index() with default arguments, first without and then with an index
    file on disk.  Keys: 'save:<W>', 'load', 'reader', 'reader-again'."""
    from fusion_engine_client.parsers import MixedLogReader
    out = {}
    _rm_index(path)
    for nt in threads:
        out['save:%d' % nt] = guarded(lambda: fi.fast_generate_index(path, force_reindex=True, save_index=True, num_threads=nt))
    out['load'] = guarded(lambda: fi.fast_generate_index(path))
    _rm_index(path)

    def reader():
        r = MixedLogReader(path)
        try:
            return r.get_index()
        finally:
            try:
                r.input_file.close()
            except Exception:
                pass
    out['reader'] = guarded(reader)
    out['reader-again'] = guarded(reader)
    _rm_index(path)
    out.update(run_env(path, case_id))
    return out


_TRACE = {}


def _trace_logging(on):
    """option that must not matter: trace logging of the indexer (the per-message trace line is built inside the
    per-candidate try block)"""
    import logging as pylog
    from fusion_engine_client.utils import trace as tlog
    lg = pylog.getLogger('point_one.fusion_engine.parsers.fast_indexer')
    if on:
        _TRACE['level'], _TRACE['prop'] = lg.level, lg.propagate
        if 'h' not in _TRACE:
            _TRACE['h'] = pylog.NullHandler()
            lg.addHandler(_TRACE['h'])
        lg.setLevel(tlog.getTraceLevel(depth=3))
        lg.propagate = False
    else:
        lg.setLevel(_TRACE['level'])
        lg.propagate = _TRACE['prop']


ALT_NAMES = ['c08x.bin', 'c08noext', os.path.join('d.ir', 'c08y.log'), 'c08 z.p1log']


def run_env(path, case_id):
    """things that must not matter: trace logging; the file's name / extension / directory, a relative path with another
    current directory, a stale index file already on disk (force_reindex=True), numpy's error state set to 'raise'.
    Keys 'trace:2', 'env', 'env-load'."""
    import shutil
    out = {}
    _trace_logging(True)
    try:
        out['trace:2'] = guarded(lambda: fi.fast_generate_index(path, force_reindex=True, save_index=False, num_threads=2))
    finally:
        _trace_logging(False)
    d = os.path.join(os.path.dirname(path), 'env%d' % os.getpid())
    name = ALT_NAMES[(case_id if isinstance(case_id, int) else 0) % len(ALT_NAMES)]
    alt = os.path.join(d, name)
    os.makedirs(os.path.dirname(alt), exist_ok=True)
    shutil.copyfile(path, alt)
    with open(os.path.splitext(alt)[0] + '.p1i', 'wb') as f:       # stale index of some other file
        f.write(b'\x07' * 14 * 3 + b'\x01')
    cwd = os.getcwd()
    old = np.seterr(all='raise')
    try:
        os.chdir(d)
        out['env'] = guarded(lambda: fi.fast_generate_index(name, force_reindex=True, save_index=True, num_threads=2))
        out['env-load'] = guarded(lambda: fi.fast_generate_index(name))
    finally:
        os.chdir(cwd)
        np.seterr(**old)
        shutil.rmtree(d, ignore_errors=True)
    return out


# ---- histories in one interpreter ------------------------------------------------------------------------------
KEEP = []          # (case, data, FileIndex objects handed out early, their snapshots)


def remember(case, data, path, consts):
    if len(KEEP) >= 6 or not case.get('paths'):
        return
    objs = {}
    try:
        objs['plain:1'] = fi.fast_generate_index(path, force_reindex=True, save_index=False, num_threads=1)
        objs['saved:3'] = fi.fast_generate_index(path, force_reindex=True, save_index=True, num_threads=3)
        _rm_index(path)
    except BaseException:
        return
    KEEP.append((case, data, objs, {k: entries(v) for k, v in objs.items()}, consts))


def history(path):
    """after all the other files of this process have been indexed: results handed out early are unchanged; indexing the
    same files again gives the same result (process-level state); mutating the arrays of a returned index affects
    neither the saved .p1i nor a later call; the log file itself is never modified."""
    problems = []
    for case, data, objs, snaps, consts in KEEP:
        if case.get('consts'):
            set_consts(*consts)
        try:
            for k, o in objs.items():
                if entries(o) != snaps[k]:
                    problems.append({'id': case.get('id'), 'problem': 'an index returned earlier changed after later calls', 'which': k})
            with open(path, 'wb') as f:
                f.write(data)
            for nt in (1, 3):
                r = run_index(path, nt)
                if r != snaps['plain:1']:
                    problems.append({'id': case.get('id'), 'problem': 'indexing the same file again later in the same process gives a different index', 'num_threads': nt,
                                     'first': snaps['plain:1'][:5], 'again': r if isinstance(r, dict) else r[:5]})
            _rm_index(path)
            got = guarded(lambda: fi.fast_generate_index(path, force_reindex=True, save_index=True, num_threads=2))
            try:
                idx = fi.fast_generate_index(path, force_reindex=True, save_index=True, num_threads=2)
                for col, v in (('time', 7.0), ('type', 1), ('offset', 3), ('message_index', 9)):
                    a = getattr(idx, col)
                    if len(a):
                        a[:] = v
                after = guarded(lambda: fi.fast_generate_index(path))
                again = guarded(lambda: fi.fast_generate_index(path, force_reindex=True, save_index=False, num_threads=2))
                if after != snaps['plain:1'] or again != snaps['plain:1'] or got != snaps['plain:1']:
                    problems.append({'id': case.get('id'), 'problem': 'mutating the arrays of a returned index changed the saved index file or a later call',
                                     'loaded': after if isinstance(after, dict) else after[:5], 'expected': snaps['plain:1'][:5]})
            except BaseException as e:
                problems.append({'id': case.get('id'), 'problem': 'history step raised %s: %s' % (type(e).__name__, str(e)[:100])})
            _rm_index(path)
            with open(path, 'rb') as f:
                if f.read() != data:
                    problems.append({'id': case.get('id'), 'problem': 'the log file was modified by indexing it'})
        finally:
            if case.get('consts'):
                set_consts(*REAL)
    return problems


def _default_payload(cls, seconds):
    obj = cls()
    has_time = False
    if isinstance(getattr(obj, 'p1_time', None), Timestamp):
        obj.p1_time = Timestamp(seconds)
        has_time = True
    det = getattr(obj, 'details', None)
    if det is not None and isinstance(getattr(det, 'p1_time', None), Timestamp):
        det.p1_time = Timestamp(seconds)
        has_time = True
    payload = obj.pack()
    if not isinstance(payload, (bytes, bytearray)):
        raise ValueError('pack did not return bytes')
    return bytes(payload), has_time


def catalog():
    """[type, version, payload_hex, stamp_offset]: stamp_offset = byte offset of the 8-byte P1 stamp that
    get_p1_time() reads (found by packing two different times), or -1."""
    out = []
    for t, cls in sorted(message_type_to_class.items(), key=lambda kv: int(kv[0])):
        try:
            ver = int(getattr(cls, 'MESSAGE_VERSION', 0))
            p1, has_time = _default_payload(cls, 1234.5)
            p2, _ = _default_payload(cls, 7777.25)
            chk = cls()
            chk.unpack(buffer=p1, offset=0, message_version=ver)   # keep only classes that decode their own payload
            off = -1
            if has_time and len(p1) == len(p2) and p1 != p2:
                d = [i for i in range(len(p1)) if p1[i] != p2[i]]
                off = d[0] - (d[0] % 4)
                want = struct.pack('<II', 1234, 500000000)
                if p1[off:off + 8] != want:
                    off = p1.find(want)
                got = chk.get_p1_time()
                if off < 0 or float(got.seconds) != 1234.5:
                    off = -1
            out.append([int(t), ver, p1.hex(), off])
        except BaseException:
            continue
    return out


def registered():
    """[type, MESSAGE_VERSION] of EVERY registered payload class, whether or not its default instance packs"""
    return [[int(t), int(getattr(cls, 'MESSAGE_VERSION', 0) or 0)] for t, cls in
            sorted(message_type_to_class.items(), key=lambda kv: int(kv[0]))]


def _worker_consts(_):
    return [getattr(fi, N_READ), getattr(fi, N_MAX), os.getpid()]


def probe_fork():
    """are module constants patched in this process seen by the pool workers fast_generate_index creates?"""
    from multiprocessing import get_start_method, Pool
    if not PATCHABLE:
        return {'start_method': get_start_method(), 'workers_see': None, 'other_process': None, 'patchable': False}
    set_consts(64, 48)
    try:
        with Pool(3) as p:
            seen = p.map(_worker_consts, range(6))
    finally:
        set_consts(*REAL)
    return {'start_method': get_start_method(), 'workers_see': sorted(set((a, b) for a, b, _ in seen)),
            'other_process': any(pid != os.getpid() for _, _, pid in seen), 'patchable': True}


def main():
    if len(sys.argv) > 1 and sys.argv[1] == '--catalog':
        print(json.dumps(catalog()))
        print(json.dumps(dict(probe_fork(), registered=registered())))
        return
    tmpdir = sys.argv[1]
    os.makedirs(tmpdir, exist_ok=True)
    path = os.path.join(tmpdir, 'c08_%d.p1log' % os.getpid())
    for line in sys.stdin:
        line = line.strip()
        if not line:
            continue
        case = json.loads(line)
        data = c08_files.build(case['recipe'])
        with open(path, 'wb') as f:
            f.write(data)
        if case.get('consts') and not PATCHABLE:
            print(json.dumps({'id': case.get('id'), 'skipped': 'block constants are not patchable module attributes'}), flush=True)
            continue
        consts = case.get('consts') or REAL or case.get('real_consts')
        if case.get('consts'):
            set_consts(*consts)
        try:
            runs = {str(nt): run_index(path, nt) for nt in case['threads']}
            if case.get('paths'):
                runs.update(run_paths(path, case['paths'], case.get('id')))
                remember(case, data, path, consts)
        finally:
            if case.get('consts'):
                set_consts(*REAL)
        res = {'id': case.get('id'), 'size': len(data), 'runs': runs, 'consts': [int(consts[0]), int(consts[1])], 'cpu_count': os.cpu_count()}
        if case.get('oracle', True):
            res['oracle'] = oracle_table(data, (int(consts[0]), int(consts[1])) if case.get('legacy_view') else None)
        print(json.dumps(res), flush=True)
    if PATCHABLE or not any(c.get('consts') for c, *_ in KEEP):
        print(json.dumps({'history': history(path), 'kept': [c.get('id') for c, *_ in KEEP]}), flush=True)
    try:
        os.remove(path)
    except OSError:
        pass


main()
