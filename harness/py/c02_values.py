"""C02 value probe: do the bytes mean the same in Python as in the C++ struct?  Run under the implementation interpreter.

The byte probe (c02_probe.py) establishes WHICH bytes feed WHICH attribute.  It cannot see an error that keeps the byte
range but changes the meaning inside it: two words of a merged member swapped, a wrong byte order, a wrong fixed-point
scale, array elements in another order.  So, for every leaf element of every C++ struct (nested structs flattened):

  unpack: a buffer that is zero except for a known value written little-endian at the element's C++ offset is unpacked
          on every call path; the Python value found at the element's Python path is reported exactly (as a fraction);
  cross-field: the same, with every OTHER top-level member of the struct in turn filled with 0xFF bytes (every invalid marker),
          with 0x7F/0x80 bytes and with pseudo-random bytes: what Python reads for the member under test must not depend on
          what another member holds (members merged into one attribute and count/length members aside);
  pack:   the Python value the C++ value means (raw x scale) is set at that Python path of the zero object, the object is
          packed, and the number found at the element's C++ offset is reported; all other bytes must stay as they were;
  in place: an object with every leaf set is packed into caller-supplied buffers pre-filled with 0xA5 at offsets 1, 3, 8, 24
          (for MessageHeader also with payload=): the bytes at [offset, offset+len) must be exactly what pack() into a fresh
          buffer gives and no byte outside may change (one row per struct, variant and offset: the message bytes as one number);
  arrays: an array attribute is set to pairwise distinct elements in several memory layouts (C order, Fortran order,
          transposed view, block of a larger Fortran-ordered matrix, strided view, nested lists) and every element is read
          back from its C++ offset.

stdin : {"structs": [{spec..., "leaves": [{cpp, offset, size, kind, pypath: [[step, arg]...], values: [...], scale: [n, d]}],
                      "arrays": [{attr_path, base, elem_size, kind, count, member}]}]}
stdout: {"c02v": 1, "rows": [...]}"""
import copy, json, math, os, struct, sys
from fractions import Fraction

sys.path.insert(0, os.path.dirname(os.path.abspath(__file__)))
import c02_probe as P          # noqa: E402   (Adapter, locate; also moves stdout out of the way)
import numpy as np             # noqa: E402

TAIL = 4096


def encode(kind, size, v):
    if kind == 'f':
        return struct.pack('<f' if size == 4 else '<d', v)
    if kind == 'i':
        return int(v).to_bytes(size, 'little', signed=True)
    return int(v).to_bytes(size, 'little', signed=False)


def decode(kind, size, b):
    if kind == 'f':
        return struct.unpack('<f' if size == 4 else '<d', b)[0]
    return int.from_bytes(b, 'little', signed=(kind == 'i'))


def frac(v):
    """exact value of a Python / numpy number as [numerator, denominator]; None when it is not a finite number"""
    if isinstance(v, (bool, np.bool_)):
        return [int(bool(v)), 1]
    if isinstance(v, (int, np.integer)):
        return [int(v), 1]
    if isinstance(v, (float, np.floating)):
        v = float(v)
        if math.isnan(v) or math.isinf(v):
            return None
        f = Fraction(v)
        return [f.numerator, f.denominator]
    return None


def child(o, step, arg):
    if step == 'attr':
        if isinstance(o, dict):
            return o[arg]
        return getattr(o, arg)
    if isinstance(o, (bytes, bytearray)):
        return o[arg]
    a = np.asarray(o)
    return a.reshape(-1)[arg]            # C-order flat index


def resolve(o, pypath):
    for step, arg in pypath:
        o = child(o, step, arg)
    if isinstance(o, (bytes, bytearray)) and len(o) == 1:
        o = o[0]
    return o


def set_in(o, pypath, value):
    """a copy of o with the element at pypath replaced"""
    if not pypath:
        return value
    (step, arg), rest = pypath[0], pypath[1:]
    if step == 'idx' and isinstance(o, (bytes, bytearray)):
        b = bytearray(o)
        b[arg] = int(set_in(b[arg], rest, value))
        return bytes(b)
    if step == 'idx':
        a = np.array(o, copy=True) if isinstance(o, np.ndarray) else np.array(o)
        flat = a.reshape(-1)
        flat[arg] = set_in(flat[arg], rest, value)
        return a if isinstance(o, np.ndarray) else type(o)(a.tolist())
    cur = o[arg] if isinstance(o, dict) else getattr(o, arg)
    new = set_in(cur, rest, value)
    if hasattr(o, '_replace'):
        return o._replace(**{arg: new})
    if isinstance(o, dict):
        d = dict(o)
        d[arg] = new
        return d
    o2 = copy.deepcopy(o)
    setattr(o2, arg, new)
    return o2


def like(existing, number):
    """the Python value to assign so that it has the type the attribute already has (enum, bool, int, float)"""
    import enum
    if isinstance(existing, enum.Enum):
        return type(existing)(int(number))
    if isinstance(existing, (bool, np.bool_)):
        return bool(number)
    if Fraction(number).denominator == 1 and not isinstance(existing, (float, np.floating)):
        return int(number)
    return float(number)


def layouts_of(template, values):
    """the same logical array in different memory layouts"""
    if isinstance(template, (bytes, bytearray)):
        return [('bytes', bytes(int(v) for v in values))]
    a = np.array(values, dtype=np.asarray(template).dtype if isinstance(template, np.ndarray) else None).reshape(np.asarray(template).shape)
    ro = np.ascontiguousarray(a).copy()
    ro.setflags(write=False)
    out = [('C order', np.ascontiguousarray(a)), ('nested lists', a.tolist()), ('read-only array', ro)]
    if a.ndim >= 2:
        out.append(('Fortran order', np.asfortranarray(a)))
        out.append(('transposed view', np.ascontiguousarray(a.T).T))
        big = np.asfortranarray(np.zeros(tuple(2 * s for s in a.shape), dtype=a.dtype))
        sl = tuple(slice(0, s) for s in a.shape)
        big[sl] = a
        out.append(('block of a larger Fortran-ordered matrix', big[sl]))
    else:
        big = np.zeros(2 * a.shape[0], dtype=a.dtype)
        big[::2] = a
        out.append(('strided view', big[::2]))
        out.append(('reversed view of the reversed array', np.ascontiguousarray(a[::-1])[::-1]))
    return out


def run_struct(spec):
    rows = []
    n = spec['size']
    head = bytes.fromhex(spec.get('baseline_hex', ''))

    def blank(L):
        b = bytearray(L)
        b[:len(head)] = head
        return b
    paths = ['explicit', 'default', 'decoder'] if spec['kind'] == 'payload' else ['only']
    ads = {}
    for p in paths:
        try:
            ads[p] = P.Adapter(spec, p)
        except Exception as e:
            ads[p] = e
    # what the zero object holds at each leaf: a leaf whose Python value is not a number (an object derived from the member,
    # such as the parsed payload of a FaultControlMessage) has no value semantics; a bool takes only the value 1
    zero_obj = None
    try:
        zero_obj, _ = ads[paths[0]].unpack(blank(n + TAIL))
    except Exception:
        pass

    def unsuitable(leaf, v):
        if zero_obj is None:
            return None
        try:
            cur = resolve(zero_obj, leaf['pypath'])
        except Exception:
            return None
        if isinstance(cur, (bool, np.bool_)) and v not in (0, 1):
            return 'Python holds a bool'
        if frac(cur) is None and not isinstance(cur, (float, np.floating)):
            return 'Python holds %s, not a number' % type(cur).__name__
        return None
    for leaf in spec['leaves']:          # a Python bool can only show the value 1
        try:
            if zero_obj is not None and isinstance(resolve(zero_obj, leaf['pypath']), (bool, np.bool_)):
                leaf['values'] = [1]
                leaf['extra_values'] = []
        except Exception:
            pass
    # ---- unpack direction
    for leaf in spec['leaves']:
        for v in leaf['values'] + leaf.get('extra_values', []):
            why = unsuitable(leaf, v)
            if why:
                rows.append({'struct': spec['cpp'], 'leaf': leaf['cpp'], 'how': 'skipped', 'raw': frac(v), 'scale': leaf['scale'], 'obs': None, 'skip': why})
                continue
            buf = blank(n + TAIL)
            buf[leaf['offset']:leaf['offset'] + leaf['size']] = encode(leaf['kind'], leaf['size'], v)
            for p in (paths if v in leaf['values'] else paths[:1]):
                row = {'struct': spec['cpp'], 'leaf': leaf['cpp'], 'how': 'unpack on path ' + p, 'raw': frac(v), 'scale': leaf['scale'], 'obs': None}
                try:
                    o, _ = ads[p].unpack(buf)
                    row['obs'] = frac(resolve(o, leaf['pypath']))
                    if row['obs'] is None:
                        row['note'] = 'Python value is not a finite number'
                except Exception as e:
                    row['note'] = repr(e)[:160]
                rows.append(row)
    # ---- cross-field: the member under test keeps its value whatever any other member holds
    import random as _random
    members = spec.get('members', [])
    rnd = _random.Random(spec['cpp'])
    patterns = [('0xFF bytes', lambda k: bytes([0xFF]) * k), ('0x7F/0x80 bytes', lambda k: bytes([0x7F, 0x80] * k)[:k]),
                ('pseudo-random bytes', lambda k: bytes(rnd.randrange(256) for _ in range(k)))]
    ad0 = ads[paths[0]]
    for leaf in spec['leaves']:
        if leaf.get('lengthlike') or (leaf['cpp'].endswith(']') and not leaf['cpp'].endswith('[0]')):
            continue
        v = leaf['values'][0]
        if unsuitable(leaf, v):
            continue
        others = [m for m in members if m['name'] != leaf['top'] and m['name'] not in leaf.get('merged_with', [])]
        if not others or isinstance(ad0, Exception):
            continue
        for pname, fill in patterns:
            row = {'struct': spec['cpp'], 'leaf': leaf['cpp'], 'how': 'unpack with every other member in turn holding ' + pname, 'raw': frac(v),
                   'scale': leaf['scale'], 'obs': None}
            seen, tried, culprit = None, 0, None
            for m in others:
                buf = blank(n + TAIL)
                buf[m['offset']:m['offset'] + m['size']] = fill(m['size'])
                buf[leaf['offset']:leaf['offset'] + leaf['size']] = encode(leaf['kind'], leaf['size'], v)
                try:
                    o, _ = ad0.unpack(buf)
                    got = frac(resolve(o, leaf['pypath']))
                except Exception:
                    continue                      # this other member does not accept the pattern (strict enum, huge count)
                tried += 1
                if seen is None:
                    seen = got
                if got != seen or got is None:
                    culprit = (m['name'], got)
                    break
            if tried == 0:
                row.update(how='skipped', skip='no other member accepts ' + pname)
            elif culprit:
                row['note'] = 'reads %s when member %s holds %s' % ('nothing finite' if culprit[1] is None else float(Fraction(*culprit[1])), culprit[0], pname)
            else:
                row['obs'] = seen
            rows.append(row)
    # ---- pack direction
    ad = ads[paths[0]]
    base_obj = base_packed = None
    for L in (n, n + TAIL):
        try:
            base_obj, _ = ad.unpack(bytes(blank(L)))
            base_packed = ad.pack(base_obj)
            break
        except Exception:
            continue
    for leaf in spec['leaves']:
        for v in leaf['values'] + leaf.get('extra_values', []):
            if leaf.get('no_pack') or unsuitable(leaf, v):
                continue
            row = {'struct': spec['cpp'], 'leaf': leaf['cpp'], 'how': 'pack', 'raw': frac(v), 'scale': [1, 1], 'obs': None}
            try:
                if base_packed is None:
                    raise RuntimeError('the zero object cannot be unpacked and packed')
                pv = Fraction(*frac(v)) * Fraction(*leaf['scale'])
                cur = resolve(base_obj, leaf['pypath'])
                o2 = set_in(base_obj, leaf['pypath'], like(cur, pv))
                pk = ad.pack(o2)
                row['obs'] = frac(decode(leaf['kind'], leaf['size'], bytes(pk[leaf['offset']:leaf['offset'] + leaf['size']])))
                other = [i for i in range(min(n, len(pk))) if pk[i] != base_packed[i] and not leaf['offset'] <= i < leaf['offset'] + leaf['size']]
                if other:
                    row['obs'] = None
                    row['note'] = 'pack also changed bytes %r' % other[:8]
            except Exception as e:
                row['note'] = repr(e)[:160]
            rows.append(row)
    # ---- in place, into the caller's buffer at non-zero offsets
    full = blank(n + TAIL)
    for leaf in spec['leaves']:
        full[leaf['offset']:leaf['offset'] + leaf['size']] = encode(leaf['kind'], leaf['size'], leaf['values'][0])
    full_obj = None
    for cand in (full, None):
        try:
            if cand is not None:
                full_obj, _ = ad.unpack(cand)
                ad.pack(full_obj)
            break
        except Exception:
            full_obj = None
    if full_obj is None:
        full_obj = base_obj
    variants = [('', {})] + [('with payload=', {'payload': bytes.fromhex(v['payload_hex'])}) for v in spec.get('pack_variants', [])]
    for vname, kw in variants:
        for off in (1, 3, 8, 24):
            row = {'struct': spec['cpp'], 'leaf': '(whole struct)', 'how': 'pack %sinto the caller\'s buffer at offset %d' % (vname + ' ' if vname else '', off),
                   'raw': None, 'scale': [1, 1], 'obs': None}
            try:
                if full_obj is None:
                    raise RuntimeError('no object to pack')
                if ad.kind == 'construct':
                    row['how'] = 'skipped'
                    row['skip'] = 'a construct codec has no pack-into-buffer interface'
                    row['raw'] = [1, 1]
                    rows.append(row)
                    break
                ref = ad.pack_kw(copy.deepcopy(full_obj), **kw)
                row['raw'] = [int.from_bytes(ref, 'little'), 1]
                caller = bytearray([0xA5] * (off + len(ref) + 16))
                before = bytes(caller)
                ad.pack_into(copy.deepcopy(full_obj), caller, off, **kw)
                outside = [i for i in range(len(caller)) if not off <= i < off + len(ref) and caller[i] != before[i]]
                if len(caller) != len(before):
                    row['note'] = 'the caller\'s buffer changed its length'
                elif outside:
                    row['note'] = 'bytes outside [offset, offset+size) were written: %r' % outside[:8]
                else:
                    row['obs'] = [int.from_bytes(bytes(caller[off:off + len(ref)]), 'little'), 1]
                    diff = [i for i in range(len(ref)) if caller[off + i] != ref[i]]
                    if diff:
                        row['note'] = 'message bytes (relative) %r differ from pack() into a fresh buffer' % diff[:12]
                if row['raw'][0] == 0:
                    row['how'] = 'skipped'
                    row['skip'] = 'only an all-zero object could be packed'
            except Exception as e:
                row['note'] = repr(e)[:160]
                if row['raw'] is None:
                    row['raw'] = [1, 1]
            rows.append(row)
    # ---- the variable part starts exactly at sizeof(fixed part): count / length members set to a small number, distinctive
    #      bytes right after the struct; what unpack() took must come back from pack() byte for byte, the fixed part be n bytes
    for leaf in spec['leaves']:
        if not leaf.get('lengthlike'):
            continue
        for L in leaf['values']:
            row = {'struct': spec['cpp'], 'leaf': leaf['cpp'], 'how': 'variable part right after sizeof, re-packed', 'raw': None, 'scale': [1, 1], 'obs': None}
            done = False
            for tail in (bytes((37 * i + 11) % 251 + 1 for i in range(TAIL)), bytes([1]) * TAIL):
                tail = bytearray(tail)
                te = leaf.get('tail_element')
                if te:                      # the padding inside each repeated element stays zero (pack() writes zeros there)
                    for e0 in range(0, TAIL - te['size'], te['size']):
                        for d in te['reserved']:
                            tail[e0 + d] = 0
                buf = blank(n) + tail
                buf[leaf['offset']:leaf['offset'] + leaf['size']] = encode(leaf['kind'], leaf['size'], L)
                try:
                    o, cons = ad.unpack(buf)
                    pk = ad.pack(o)
                except Exception as e:
                    row['note'] = repr(e)[:160]
                    continue
                if len(pk) <= n:
                    row['note'] = 'pack() gives %d bytes: no variable part although %s = %d' % (len(pk), leaf['cpp'], L)
                    continue
                row['raw'] = [int.from_bytes(bytes(buf[:len(pk)]), 'little'), 1]
                if cons is not None and cons != len(pk):
                    row['note'] = 'unpack() consumed %d bytes, pack() gives %d' % (cons, len(pk))
                else:
                    row['obs'] = [int.from_bytes(pk, 'little'), 1]
                    row.pop('note', None)
                done = True
                break
            if not done and row['raw'] is None:
                row.update(how='skipped', skip='variable part could not be exercised: %s' % row.get('note', ''), raw=[1, 1])
            rows.append(row)
    # ---- array layouts
    for arr in spec.get('arrays', []):
        try:
            if base_packed is None:
                raise RuntimeError('the zero object cannot be unpacked and packed')
            template = resolve(base_obj, arr['attr_path'])
            pvals = [float(Fraction(*frac(v)) * Fraction(*arr['scale'])) if arr['scale'] != [1, 1] or arr['kind'] == 'f' else v for v in arr['values']]
            variants = layouts_of(template, pvals)
        except Exception as e:
            rows.append({'struct': spec['cpp'], 'leaf': arr['member'], 'how': 'pack array', 'raw': frac(arr['values'][0]), 'scale': [1, 1], 'obs': None, 'note': repr(e)[:160]})
            continue
        for name, val in variants:
            try:
                before = np.array(val, copy=True) if isinstance(val, np.ndarray) else copy.deepcopy(val)
                base_before = np.array(val.base, copy=True) if isinstance(val, np.ndarray) and isinstance(val.base, np.ndarray) else None
                pk = ad.pack(set_in(base_obj, arr['attr_path'], val))
                err = None
                same = (np.array_equal(before, val) and (base_before is None or np.array_equal(base_before, val.base))) if isinstance(val, np.ndarray) else before == val
                if not same:
                    pk, err = None, 'pack() changed the array it was given'
                    name = 'C order' if name != 'bytes' else name          # never skipped: reported
            except Exception as e:
                pk, err = None, repr(e)[:160]
            for k, v in enumerate(arr['values']):
                off = arr['base'] + k * arr['elem_size']
                row = {'struct': spec['cpp'], 'leaf': '%s[%d]' % (arr['member'], k), 'how': 'pack array given as ' + name, 'raw': frac(v), 'scale': [1, 1], 'obs': None}
                if pk is None and name not in ('C order', 'bytes'):
                    row['how'] = 'skipped'
                    row['skip'] = 'pack() does not accept the array given as %s: %s' % (name, err)
                elif pk is None:
                    row['note'] = err
                else:
                    row['obs'] = frac(decode(arr['kind'], arr['elem_size'], bytes(pk[off:off + arr['elem_size']])))
                rows.append(row)
    return rows


def main():
    req = json.load(sys.stdin)
    rows = []
    for spec in req['structs']:
        try:
            rows += run_struct(spec)
        except Exception as e:
            rows.append({'struct': spec['cpp'], 'leaf': '', 'how': 'value probe crashed', 'raw': [1, 1], 'scale': [1, 1], 'obs': None, 'note': repr(e)[:200]})
    os.write(P.OUT_FD, (json.dumps({'c02v': 1, 'rows': rows}) + '\n').encode())


if __name__ == '__main__':
    main()
