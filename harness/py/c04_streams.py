"""C04/C05 IMPL side (run under /venv/bin/python with PYTHONPATH=<repo>/python).

  c04_streams.py classes           -> one JSON line: every registered payload class with one encoder-built message
  c04_streams.py encode            -> per input line "<seed> <k> <initial sequence_number>": one JSON line with k messages of random
                                      classes built and serialised by ONE FusionEngineEncoder (random source ids; length-inferred
                                      payloads get random data): [{type, version, source, payload hex, out hex}]
  c04_streams.py impl              -> line protocol runner around FusionEngineDecoder (see below)

impl input line:   <S|V> <maxp> <maxe|-> <rb> <ro> <opts> <stream-hex|-> <chunkings>
    opts = <warn_on_error: none|likely|all>,<warn_on_gap 0|1>,<warn_on_unrecognized 0|1>   (logging options: they must not change
           results or make on_data raise; log output itself is suppressed)
    maxe '-' = leave MessageHeader._MAX_EXPECTED_SIZE_BYTES alone; a number = run with that class attribute set
    chunkings: ';' separated  ONE | BYTES | SPLITS | c:<n1>,<n2>,...
impl output line:  <oracle> # <per chunking, ' | ' separated>
    oracle  = comma separated <type>:<payload-hex|->:<1|0>:<pv> for every position of the stream that carries sync bytes,
              a complete claimed length and a matching zlib CRC: does the registered class parse exactly that message
              (cls().unpack(buffer=<the message bytes alone>, offset=24); unknown types always 1)
    S mode: <R8> <A8>      V mode: I{<R text>}{<A text>}
    R text (public observables): per call with a non-empty return value  i:item+item;   item =
        type,seq,payload_size,crc,raw-hex|-,offset|-,pv   (pv = digest of the decoded payload field values) followed by markers
          !CB  callbacks (registered for None and for the message's own type) did not receive exactly the returned entries
          !SH  the returned entry does not have the documented shape
        a call that raised ends the text with  !EXC:<ExceptionType>
    A text (private attributes, advisory): per call  processed,len(buffer),header-is-None,msg_len,last_seq|-;   ('?' = attribute missing)
"""
import hashlib, json, logging, math, struct, sys, zlib


def _imports():
    global MessageHeader, MessageType, message_type_to_class, FusionEngineDecoder, FusionEngineEncoder, np, enum_types
    import numpy as np
    from fusion_engine_client.messages import MessageHeader, MessageType, message_type_to_class
    from fusion_engine_client.parsers import FusionEngineDecoder, FusionEngineEncoder
    logging.disable(logging.CRITICAL)
    try:
        from fusion_engine_client.utils import trace
        logging.disable(logging.CRITICAL)
    except Exception:
        pass


# ---- canonical form of a decoded payload (field values) -------------------------------------------------------
def canon(x, depth=0):
    import enum
    if depth > 12:
        return 'DEPTH'
    if x is None or isinstance(x, (bool, str)):
        return x
    if isinstance(x, (bytes, bytearray, memoryview)):
        return 'b:' + bytes(x).hex()
    if isinstance(x, enum.Enum):
        try:
            return 'e:%d' % int(x)
        except Exception:
            return 'e:' + repr(x)
    if isinstance(x, int):
        return int(x)
    if isinstance(x, float):
        return 'nan' if math.isnan(x) else repr(float(x))
    if isinstance(x, np.ndarray):
        return ['nd', str(x.dtype), canon(x.tolist(), depth + 1)]
    if isinstance(x, np.generic):
        return canon(x.item(), depth + 1)
    if isinstance(x, dict):
        return {str(k): canon(v, depth + 1) for k, v in sorted(x.items(), key=lambda kv: str(kv[0])) if str(k) != '_io'}
    if isinstance(x, (list, tuple, set, frozenset)):
        return [canon(v, depth + 1) for v in x]
    if hasattr(x, '__dict__'):
        return [type(x).__name__, {k: canon(v, depth + 1) for k, v in sorted(vars(x).items())}]
    try:
        return ['aenum', int(x)]
    except Exception:
        return repr(x)


def digest(obj):
    return hashlib.md5(json.dumps(obj, sort_keys=True, default=repr).encode()).hexdigest()


_standalone = {}


def standalone(mtype, msg):
    """parse the message's own bytes alone: (ok, digest of field values)"""
    key = (mtype, msg)
    r = _standalone.get(key)
    if r is None:
        cls = message_type_to_class.get(mtype, None)
        if cls is None:
            r = (True, digest(canon(bytes(msg[24:]))))
        else:
            try:
                c = cls()
                c.unpack(buffer=bytes(msg), offset=24)
                r = (True, digest(canon(c)))
            except Exception as e:
                r = (False, type(e).__name__)
        if len(_standalone) > 20000:
            _standalone.clear()
        _standalone[key] = r
    return r


def oracle(stream, maxe):
    """every CRC-valid candidate in the stream (any position), with the verdict of the payload parser on its bytes"""
    out, seen = [], set()
    n = len(stream)
    p = stream.find(b'.1')
    while p >= 0:
        if p + 24 <= n:
            psize = struct.unpack_from('<I', stream, p + 16)[0]
            if psize <= maxe and p + 24 + psize <= n:
                crc = struct.unpack_from('<I', stream, p + 4)[0]
                if zlib.crc32(stream[p + 8:p + 24 + psize]) == crc:
                    t = struct.unpack_from('<H', stream, p + 10)[0]
                    msg = bytes(stream[p:p + 24 + psize])
                    key = (t, msg[24:])
                    if key not in seen:
                        seen.add(key)
                        h = MessageHeader()
                        h.unpack(msg, warn_on_unrecognized=False)
                        ok, dg = standalone(h.message_type, msg)
                        out.append('%d:%s:%d:%s' % (t, msg[24:].hex() or '-', 1 if ok else 0, dg[:8] if ok else '-'))
        p = stream.find(b'.1', p + 1)
    return ','.join(out) or '-'


def attr(o, name):
    return getattr(o, name, '?')


def run_chunking(stream, sizes, maxp, rb, ro, opts='likely,0,0'):
    woe, gap, unrec = opts.split(',')
    dec = FusionEngineDecoder(max_payload_len_bytes=maxp, return_bytes=rb, return_offset=ro, warn_on_error=woe,
                              warn_on_gap=gap == '1', warn_on_unrecognized=unrec == '1')
    got_all, got_typed = [], []
    dec.add_callback(None, lambda *a: got_all.append(a))
    typed = {}

    def reg(t):
        if t not in typed:
            typed[t] = []
            dec.add_callback(t, lambda *a, _l=typed[t]: _l.append(a))
    # typed callbacks for every type whose sync+header could appear: register lazily is impossible (the decoder calls
    # them during on_data), so register for the types of all sync candidates up front
    p = stream.find(b'.1')
    while p >= 0 and len(typed) < 40:
        if p + 24 <= len(stream):
            t = struct.unpack_from('<H', stream, p + 10)[0]
            try:
                reg(MessageType(t, raise_on_unrecognized=False))
            except Exception:
                pass
        p = stream.find(b'.1', p + 1)
    R, A = [], []
    pos = 0
    for i, k in enumerate(sizes):
        chunk = bytes(stream[pos:pos + k]); pos += k
        n_all = len(got_all)
        n_typed = {t: len(l) for t, l in typed.items()}
        try:
            # a one-byte chunk is passed as an int every other time (the documented "single byte" form of on_data)
            res = dec.on_data(chunk[0] if (len(chunk) == 1 and i % 2 == 1) else chunk)
        except BaseException as e:
            R.append('%d:!EXC:%s;' % (i, type(e).__name__))
            break
        if res:
            items, cb_ok = [], True
            for r in res:
                marks = ''
                try:
                    exp_len = 2 + (1 if rb else 0) + (1 if ro else 0)
                    if len(r) != exp_len:
                        marks += '!SH'
                    h, contents = r[0], r[1]
                    raw = bytes(r[2]) if rb else None
                    off = r[exp_len - 1] if ro else None
                    t = int(h.message_type)
                    pv = digest(canon(contents if not isinstance(contents, (bytes, bytearray)) else bytes(contents)))[:8]
                    items.append('%d,%d,%d,%d,%s,%s,%s%s' % (t, h.sequence_number, h.payload_size_bytes, h.crc,
                                                              raw.hex() if raw is not None else '-',
                                                              off if off is not None else '-', pv, marks))
                except Exception as e:
                    items.append('!SH:%s' % type(e).__name__)
            new_all = got_all[n_all:]
            if len(new_all) != len(res) or any(len(a) != len(r) or any(x is not y for x, y in zip(a, r)) for a, r in zip(new_all, res)):
                cb_ok = False
            for t, l in typed.items():
                want = [r for r in res if r[0].message_type == t]
                new = l[n_typed[t]:]
                if len(new) != len(want) or any(any(x is not y for x, y in zip(a, r)) for a, r in zip(new, want)):
                    cb_ok = False
            R.append('%d:%s%s;' % (i, '+'.join(items), '' if cb_ok else '!CB'))
        elif len(got_all) != n_all:
            R.append('%d:!CB;' % i)
        hd = attr(dec, '_header')
        buf = attr(dec, '_buffer')
        ls = attr(dec, '_last_sequence_number')
        A.append('%s,%s,%s,%s,%s;' % (attr(dec, '_bytes_processed'), len(buf) if buf != '?' else '?',
                                      '?' if hd == '?' else (1 if hd is None else 0), attr(dec, '_msg_len'),
                                      '-' if ls is None else ls))
    return ''.join(R), ''.join(A)


def expand(chunkings, n):
    out = []
    for c in chunkings.split(';'):
        if c == 'ONE':
            out.append([n])
        elif c == 'BYTES':
            out.append([1] * n)
        elif c == 'SPLITS':
            out += [[k, n - k] for k in range(1, n)]
        elif c.startswith('c:'):
            out.append([int(x) for x in c[2:].split(',') if x != ''])
        else:
            raise ValueError('bad chunking ' + c)
    return out


def d8(s):
    return hashlib.md5(s.encode()).hexdigest()[:8]


def impl_main():
    _imports()
    default_maxe = MessageHeader._MAX_EXPECTED_SIZE_BYTES
    for line in sys.stdin:
        w = line.split()
        if not w:
            continue
        mode, maxp, maxe, rb, ro, opts, sh, chunkings = w
        stream = bytes.fromhex('' if sh == '-' else sh)
        MessageHeader._MAX_EXPECTED_SIZE_BYTES = default_maxe if maxe == '-' else int(maxe)
        try:
            orc = oracle(stream, MessageHeader._MAX_EXPECTED_SIZE_BYTES)
            outs = []
            for sizes in expand(chunkings, len(stream)):
                r, a = run_chunking(stream, sizes, int(maxp), rb == '1', ro == '1', opts)
                outs.append('I{%s}{%s}' % (r, a) if mode == 'V' else '%s %s' % (d8(r), d8(a)))
            print(orc + ' # ' + ' | '.join(outs), flush=False)
        except Exception as e:
            print('ERROR %s: %s' % (type(e).__name__, str(e).replace('\n', ' ')[:300]))
        finally:
            MessageHeader._MAX_EXPECTED_SIZE_BYTES = default_maxe
    sys.stdout.flush()


# ---- class library ----------------------------------------------------------------------------------------------
def classes_main():
    _imports()
    enc = FusionEngineEncoder()
    out, notes = [], []
    for t, cls in sorted(message_type_to_class.items(), key=lambda kv: int(kv[0])):
        rec = {'name': cls.__name__, 'type': int(t), 'version': None, 'default': None}
        try:
            obj = cls()
            rec['version'] = int(obj.get_version())
            rec['default'] = enc.encode_message(obj).hex()
        except Exception as e:
            notes.append('%s: default object does not serialise (%s)' % (cls.__name__, type(e).__name__))
        out.append(rec)
    known_types = sorted(int(m) for m in MessageType if int(m) not in (int(MessageType.INVALID),)) if hasattr(MessageType, '__iter__') else []
    print(json.dumps({'classes': out, 'notes': notes, 'enum_values': known_types,
                      'max_expected': MessageHeader._MAX_EXPECTED_SIZE_BYTES}))


def encode_main():
    import random
    _imports()
    buildable = []
    for t, cls in sorted(message_type_to_class.items(), key=lambda kv: int(kv[0])):
        try:
            FusionEngineEncoder().encode_message(cls())
            buildable.append(cls)
        except Exception:
            pass
    for line in sys.stdin:
        w = line.split()
        if not w:
            continue
        seed, k, s0 = int(w[0]), int(w[1]), int(w[2])
        r = random.Random(seed)
        enc = FusionEngineEncoder()
        enc.sequence_number = s0
        msgs = []
        try:
            for _ in range(k):
                cls = r.choice(buildable)
                obj = cls()
                if hasattr(obj, 'data') and isinstance(getattr(obj, 'data'), (bytes, bytearray)) and type(obj).__name__ in ('InputDataWrapperMessage', 'STA5635IQData'):
                    obj.data = bytes(r.randrange(256) for _ in range(r.choice([0, 1, 4, 30])))
                src = r.choice([0, 1, 7, 0xFFFFFFFF, r.getrandbits(32)])
                out = enc.encode_message(obj, source_identifier=src)
                msgs.append({'type': int(obj.get_type()), 'version': int(obj.get_version()), 'source': src,
                             'payload': bytes(obj.pack()).hex(), 'out': bytes(out).hex(), 'cls': cls.__name__})
            print(json.dumps({'msgs': msgs, 'final_seq': enc.sequence_number}))
        except Exception as e:
            print(json.dumps({'error': '%s: %s' % (type(e).__name__, str(e)[:200]), 'msgs': msgs}))
    sys.stdout.flush()


if __name__ == '__main__':
    {'impl': impl_main, 'classes': classes_main, 'encode': encode_main}[sys.argv[1]]()
