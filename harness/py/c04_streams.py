"""C04/C05 IMPL side (run under /venv/bin/python with PYTHONPATH=<repo>/python).

  c04_streams.py classes           -> one JSON line: every registered payload class with one encoder-built message
  c04_streams.py encode            -> per input line "<seed> <k> <initial sequence_number>": one JSON line with k messages of random
                                      classes built and serialised by ONE FusionEngineEncoder (random source ids; length-inferred
                                      payloads get random data): [{type, version, source, payload hex, out hex}]
  c04_streams.py badpayloads       -> per input line (class names, or ALL) one JSON line: for each of these registered classes, payloads on which cls().unpack (handed exactly the message
                                      bytes, as the decoder does) raises, grouped by exception TYPE, a few representatives each; candidates:
                                      every length 0..size+8 (truncated / zero- and 0xFF-extended default payload), all-0x00 / all-0xFF /
                                      random garbage of several lengths, the default payload with each byte set to 0xFF, 0x00, 0x80 in
                                      turn (unknown tags / sub-types / counts / lengths in containers, invalid UTF-8 in strings)
  c04_streams.py impl              -> line protocol runner around FusionEngineDecoder (see below)

impl input line:   <S|V> <maxp> <maxe|-> <rb> <ro> <opts> <stream-hex|-> <chunkings>
    opts = <warn_on_error: none|likely|all>,<warn_on_gap 0|1>,<warn_on_unrecognized 0|1>   (logging options: they must not change
           results or make on_data raise; log output itself is suppressed)
    maxe '-' = leave MessageHeader._MAX_EXPECTED_SIZE_BYTES alone; a number = run with that class attribute set
    chunkings: ';' separated  ONE | BYTES | SPLITS | c:<n1>,<n2>,...
impl output line:  <oracle> # <per chunking, ' | ' separated>
    oracle  = comma separated <type>:<payload-hex|->:<1|0>:<pv> for every position of the stream that carries sync bytes,
              a complete claimed length and a matching zlib CRC: does the registered class parse exactly that message
              (cls().unpack(buffer=<the message bytes alone>, offset=24); unknown types always 1)
    S mode: <R8> <A8>      V mode: I{<R text>}{<A text>}
    R text (public observables): per call with a non-empty return value  i:item+item;   item =
        type,seq,payload_size,crc,raw-hex|-,offset|-,pv   (pv = digest of the decoded payload field values) followed by markers
          !CB  a callback (catch-all or type specific, registered before the first call or between calls) did not receive exactly
               the entries returned after its registration
          !AL  an entry returned by an earlier call no longer says what it said when it was returned (header, raw bytes, offset,
               payload field values re-read after later calls)
          !ID  an entry shares a mutable object with an earlier entry, with the decoder's own buffer or with an object the caller passed in
          !IN  the caller's buffer (bytearray / memoryview argument) was modified by on_data
          !SD  a second decoder alive at the same time (different settings, fed a different stream between the calls) lost or gained messages
          !RX  after an exception raised by a user callback had propagated out of on_data, later calls did not return the
               remaining messages (from the interrupted one, or from the one after it, onwards) / raised again
    on_data argument forms rotate per call: bytes, bytearray, memoryview of bytes, memoryview of a bytearray, and the int form for
    single bytes; caller-owned buffers are overwritten after the call (results handed out earlier are re-read after every call);
    the list object returned by on_data is mutated after it has been read.
          !SH  the returned entry does not have the documented shape
        a call that raised ends the text with  !EXC:<ExceptionType>
    A text (private attributes, advisory): per call  processed,len(buffer),header-is-None,msg_len,last_seq|-;   ('?' = attribute missing)
"""
import hashlib, json, logging, math, struct, sys, zlib


def _imports():
    global MessageHeader, MessageType, message_type_to_class, FusionEngineDecoder, FusionEngineEncoder, np, enum_types
    import numpy as np
    from fusion_engine_client.messages import MessageHeader, MessageType, message_type_to_class
    from fusion_engine_client.parsers import FusionEngineDecoder, FusionEngineEncoder
    logging.disable(logging.CRITICAL)
    try:
        from fusion_engine_client.utils import trace
        logging.disable(logging.CRITICAL)
    except Exception:
        pass


# ---- canonical form of a decoded payload (field values) -------------------------------------------------------
def canon(x, depth=0):
    import enum
    if depth > 12:
        return 'DEPTH'
    if x is None or isinstance(x, (bool, str)):
        return x
    if isinstance(x, (bytes, bytearray, memoryview)):
        return 'b:' + bytes(x).hex()
    if isinstance(x, enum.Enum):
        try:
            return 'e:%d' % int(x)
        except Exception:
            return 'e:' + repr(x)
    if isinstance(x, int):
        return int(x)
    if isinstance(x, float):
        return 'nan' if math.isnan(x) else repr(float(x))
    if isinstance(x, np.ndarray):
        return ['nd', str(x.dtype), canon(x.tolist(), depth + 1)]
    if isinstance(x, np.generic):
        return canon(x.item(), depth + 1)
    if isinstance(x, dict):
        return {str(k): canon(v, depth + 1) for k, v in sorted(x.items(), key=lambda kv: str(kv[0])) if str(k) != '_io'}
    if isinstance(x, (list, tuple, set, frozenset)):
        return [canon(v, depth + 1) for v in x]
    if hasattr(x, '__dict__'):
        return [type(x).__name__, {k: canon(v, depth + 1) for k, v in sorted(vars(x).items())}]
    try:
        return ['aenum', int(x)]
    except Exception:
        return repr(x)


def digest(obj):
    return hashlib.md5(json.dumps(obj, sort_keys=True, default=repr).encode()).hexdigest()


_standalone = {}


def standalone(mtype, msg):
    """parse the message's own bytes alone: (ok, digest of field values)"""
    key = (mtype, msg)
    r = _standalone.get(key)
    if r is None:
        cls = message_type_to_class.get(mtype, None)
        if cls is None:
            r = (True, digest(canon(bytes(msg[24:]))))
        else:
            try:
                c = cls()
                c.unpack(buffer=bytes(msg), offset=24)
                r = (True, digest(canon(c)))
            except Exception as e:
                r = (False, type(e).__name__)
        if len(_standalone) > 20000:
            _standalone.clear()
        _standalone[key] = r
    return r


def oracle(stream, maxe):
    """every CRC-valid candidate in the stream (any position), with the verdict of the payload parser on its bytes"""
    out, seen = [], set()
    n = len(stream)
    p = stream.find(b'.1')
    while p >= 0:
        if p + 24 <= n:
            psize = struct.unpack_from('<I', stream, p + 16)[0]
            if psize <= maxe and p + 24 + psize <= n:
                crc = struct.unpack_from('<I', stream, p + 4)[0]
                if zlib.crc32(stream[p + 8:p + 24 + psize]) == crc:
                    t = struct.unpack_from('<H', stream, p + 10)[0]
                    msg = bytes(stream[p:p + 24 + psize])
                    key = (t, msg[24:])
                    if key not in seen:
                        seen.add(key)
                        h = MessageHeader()
                        h.unpack(msg, warn_on_unrecognized=False)
                        ok, dg = standalone(h.message_type, msg)
                        out.append('%d:%s:%d:%s' % (t, msg[24:].hex() or '-', 1 if ok else 0, dg[:8] if ok else '-'))
        p = stream.find(b'.1', p + 1)
    return ','.join(out) or '-'


def attr(o, name):
    return getattr(o, name, '?')


def mutable_ids(x, out, depth=0):
    """ids of the mutable objects reachable from a returned value (objects with attributes, lists, dicts, sets, bytearrays,
    numpy arrays and the objects they are views of); enum members, classes and immutable scalars are not counted"""
    import enum
    if depth > 12 or x is None or isinstance(x, (bool, int, float, str, bytes, enum.Enum, type)):
        return
    if isinstance(x, np.ndarray):
        out[id(x)] = x
        if x.base is not None:
            mutable_ids(x.base, out, depth + 1)
        return
    if isinstance(x, memoryview):
        out[id(x)] = x
        mutable_ids(x.obj, out, depth + 1)
        return
    if isinstance(x, bytearray):
        out[id(x)] = x
        return
    if isinstance(x, np.generic):
        return
    if isinstance(x, dict):
        out[id(x)] = x
        for v in x.values():
            mutable_ids(v, out, depth + 1)
        return
    if isinstance(x, (list, set)):
        out[id(x)] = x
        for v in x:
            mutable_ids(v, out, depth + 1)
        return
    if isinstance(x, (tuple, frozenset)):
        for v in x:
            mutable_ids(v, out, depth + 1)
        return
    if hasattr(x, '__dict__'):
        out[id(x)] = x
        for v in vars(x).values():
            mutable_ids(v, out, depth + 1)


def snapshot(r, rb, ro, full):
    """what an entry of the return value says: header fields, raw bytes, offset and (full) the payload field values"""
    h, contents = r[0], r[1]
    cheap = (int(h.message_type), h.sequence_number, h.payload_size_bytes, h.crc, h.message_version, h.source_identifier,
             bytes(r[2]) if rb else None, r[-1] if ro else None)
    if not full:
        return cheap, None
    return cheap, digest(canon(contents if not isinstance(contents, (bytes, bytearray)) else bytes(contents)))[:8]


class InjectedCallbackFailure(Exception):
    pass


_shadow = {}


def shadow_stream():
    """a second, unrelated stream for a concurrently living decoder: valid messages of several classes with '.'-free junk
    between them; returns (bytes, [(end offset, type, sequence)])"""
    if not _shadow:
        enc = FusionEngineEncoder()
        enc.sequence_number = 77000
        parts = []
        for t, cls in sorted(message_type_to_class.items(), key=lambda kv: int(kv[0])):
            try:
                parts.append(bytes(enc.encode_message(cls())))
            except Exception:
                continue
            if len(parts) >= 9:
                break
        stream = b''
        for k, m in enumerate(parts):
            stream += bytes((37 * k + j) % 200 + 50 for j in range(k % 4 * 9)) .replace(b'.', b'/') + m
        dec = FusionEngineDecoder(return_offset=True, warn_on_error='none')
        exp = [(off + 24 + h.payload_size_bytes, int(h.message_type), h.sequence_number) for h, _, off in dec.on_data(stream)]
        _shadow['v'] = (stream, exp)
        _shadow['maxe'] = MessageHeader._MAX_EXPECTED_SIZE_BYTES
    return _shadow['v']


def key_of(r, rb, ro):
    h = r[0]
    return (int(h.message_type), h.sequence_number, h.crc, bytes(r[2]) if rb else None, r[-1] if ro else None)


def callback_failure_run(stream, sizes, maxp, rb, ro, opts, k):
    """same chunking, one catch-all callback raises at its k-th invocation: returns (index of the raising call or None,
    entries returned by later calls, unexpected exception name or None, whether a later non-empty call existed)"""
    woe, gap, unrec = opts.split(',')
    dec = FusionEngineDecoder(max_payload_len_bytes=maxp, return_bytes=rb, return_offset=ro, warn_on_error=woe,
                              warn_on_gap=gap == '1', warn_on_unrecognized=unrec == '1')
    count = [0]
    boom = InjectedCallbackFailure('callback failure injected by the harness')

    def raiser(*a):
        count[0] += 1
        if count[0] == k:
            raise boom
    dec.add_callback(None, lambda *a: None)
    dec.add_callback(None, raiser)
    pos, raised_at, after, later_nonempty = 0, None, [], False
    for i, n in enumerate(sizes):
        chunk = bytes(stream[pos:pos + n]); pos += n
        try:
            res = dec.on_data(chunk)
        except InjectedCallbackFailure as e:
            if e is boom and raised_at is None:
                raised_at = i
                continue
            return raised_at, after, 'InjectedCallbackFailure-again', later_nonempty
        except BaseException as e:
            return raised_at, after, type(e).__name__, later_nonempty
        if raised_at is not None:
            later_nonempty = later_nonempty or n > 0
            after += [key_of(r, rb, ro) for r in res]
    return raised_at, after, None, later_nonempty


def run_chunking(stream, sizes, maxp, rb, ro, opts='likely,0,0'):
    woe, gap, unrec = opts.split(',')
    dec = FusionEngineDecoder(max_payload_len_bytes=maxp, return_bytes=rb, return_offset=ro, warn_on_error=woe,
                              warn_on_gap=gap == '1', warn_on_unrecognized=unrec == '1')
    # ---- callbacks: registered before the first call AND between calls (catch-all and type specific, several of each);
    # every callback must receive exactly the entries returned by the calls made after its registration (same objects,
    # same order, its type only)
    cbs = []                                   # [type or None, received list, number already checked]

    ninv = [0]                                 # total number of callback invocations

    def register(t):
        rec = [t, [], 0]

        def cb(*a, _l=rec[1]):
            _l.append(a); ninv[0] += 1
        dec.add_callback(t, cb)
        cbs.append(rec)
    cand_types = []
    p = stream.find(b'.1')
    while p >= 0 and len(cand_types) < 24:
        if p + 24 <= len(stream):
            t = struct.unpack_from('<H', stream, p + 10)[0]
            try:
                mt = MessageType(t, raise_on_unrecognized=False)
                if mt not in cand_types:
                    cand_types.append(mt)
            except Exception:
                pass
        p = stream.find(b'.1', p + 1)
    variant = (len(stream) + len(sizes)) % 3   # 0: everything up front; 1: catch-all up front, typed late; 2: typed up front, catch-all late
    if variant in (0, 1):
        register(None)
    if variant in (0, 2):
        for t in cand_types:
            register(t)
    late_points = {0, len(sizes) // 2, len(sizes) - 2}     # after these calls more callbacks are registered
    ninv_seen_box = [0]
    salt = len(stream) + 3 * len(sizes)
    held_args, foreign_ids = [], set()          # objects passed to on_data stay alive; results must not refer to them
    use_shadow = salt % 6 == 0 and len(sizes) > 1 and MessageHeader._MAX_EXPECTED_SIZE_BYTES == _shadow.get('maxe')
    if use_shadow:
        sh_stream, sh_exp = shadow_stream()
        sh_dec = FusionEngineDecoder(max_payload_len_bytes=4096, return_bytes=not rb, return_offset=not ro,
                                     warn_on_error='all' if woe != 'all' else 'none', warn_on_gap=True, warn_on_unrecognized=True)
        sh_pos, sh_got, sh_bad = 0, [], False
    kept = []                                   # [entry, cheap snapshot, payload digest, call index] of everything returned so far
    seen_ids = {}
    R, A = [], []
    pos = 0
    for i, k in enumerate(sizes):
        chunk = bytes(stream[pos:pos + k]); pos += k
        if use_shadow and not sh_bad:
            # another decoder, other settings, other stream, fed between the calls of the decoder under test
            step = 5 + (i * 7 + salt) % 23
            try:
                if sh_pos >= len(sh_stream):
                    if [(t_, q_) for _, t_, q_ in sh_exp] != sh_got:
                        sh_bad = True
                    sh_dec = FusionEngineDecoder(max_payload_len_bytes=4096, return_bytes=not rb, return_offset=not ro, warn_on_error='none')
                    sh_pos, sh_got = 0, []
                for r_ in sh_dec.on_data(sh_stream[sh_pos:sh_pos + step]):
                    sh_got.append((int(r_[0].message_type), r_[0].sequence_number))
                sh_pos = min(len(sh_stream), sh_pos + step)
                if [(t_, q_) for e_, t_, q_ in sh_exp if e_ <= sh_pos] != sh_got:
                    sh_bad = True
            except BaseException:
                sh_bad = True
        # argument form: bytes / bytearray / memoryview(bytes) / memoryview(bytearray) / int for a single byte
        backing = None
        if len(chunk) == 1 and (i + salt) % 2 == 1:
            arg = chunk[0]
        else:
            f = (i + salt) % 5
            if f == 1:
                arg = backing = bytearray(chunk)
            elif f == 2:
                arg = memoryview(chunk)
            elif f == 3:
                backing = bytearray(chunk); arg = memoryview(backing)
            else:
                arg = chunk
            held_args.append(arg); foreign_ids.add(id(arg))
            if backing is not None:
                held_args.append(backing); foreign_ids.add(id(backing))
        try:
            res = dec.on_data(arg)
        except BaseException as e:
            R.append('%d:!EXC:%s;' % (i, type(e).__name__))
            break
        marks_call = ''
        if backing is not None:
            if bytes(backing) != chunk:
                marks_call += '!IN'
            backing[:] = b'\xaa' * len(backing)          # the caller reuses its buffer; nothing handed out may change
        if not isinstance(res, list):
            marks_call += '!SH'
            res = list(res)
        res_obj, res = res, list(res)
        res_obj.append('mutated by the caller')            # the returned list belongs to the caller
        # callbacks against the return value of this call
        inv_before, ninv_seen = ninv_seen_box[0], ninv[0]
        ninv_seen_box[0] = ninv_seen
        for rec in (cbs if (res or ninv_seen != inv_before) else ()):
            t, got, done = rec
            want = [r for r in res if t is None or r[0].message_type == t]
            new = got[done:]
            rec[2] = len(got)
            if len(new) != len(want) or any(len(a_) != len(r) or any(x is not y for x, y in zip(a_, r)) for a_, r in zip(new, want)):
                marks_call = '!CB'
        # earlier entries must still say what they said when they were returned (cheap part after every call, payload
        # field values after every call that returned something and at the end)
        full = bool(res) or i == len(sizes) - 1
        for ent in kept:
            r0, c0 = ent[0], ent[1]
            h0 = r0[0]
            same = (int(h0.message_type) == c0[0] and h0.sequence_number == c0[1] and h0.payload_size_bytes == c0[2] and h0.crc == c0[3]
                    and h0.message_version == c0[4] and h0.source_identifier == c0[5] and (not rb or r0[2] == c0[6]) and (not ro or r0[-1] == c0[7]))
            if same and full:
                same = snapshot(r0, rb, ro, True)[1] == ent[2]
            if not same:
                marks_call += '!AL'
                break
        items = []
        for r in res:
            marks = ''
            try:
                exp_len = 2 + (1 if rb else 0) + (1 if ro else 0)
                if len(r) != exp_len:
                    marks += '!SH'
                cheap, pv = snapshot(r, rb, ro, True)
                # no mutable object may be shared with an earlier entry or be (a view of) the decoder's own buffer
                ids = {}
                mutable_ids(r[0], ids); mutable_ids(r[1], ids)
                if rb:
                    mutable_ids(r[2], ids)
                buf_now = getattr(dec, '_buffer', None)
                if any(k_ in seen_ids or k_ in foreign_ids for k_ in ids) or (buf_now is not None and id(buf_now) in ids):
                    marks += '!ID'
                seen_ids.update(ids)
                kept.append([r, cheap, pv, i])
                items.append('%d,%d,%d,%d,%s,%s,%s%s' % (cheap[0], cheap[1], cheap[2], cheap[3],
                                                          cheap[6].hex() if cheap[6] is not None else '-',
                                                          cheap[7] if cheap[7] is not None else '-', pv, marks))
            except Exception as e:
                items.append('!SH:%s' % type(e).__name__)
        if items or marks_call:
            R.append('%d:%s%s;' % (i, '+'.join(items), marks_call))
        hd = attr(dec, '_header')
        buf = attr(dec, '_buffer')
        ls = attr(dec, '_last_sequence_number')
        A.append('%s,%s,%s,%s,%s;' % (attr(dec, '_bytes_processed'), len(buf) if buf != '?' else '?',
                                      '?' if hd == '?' else (1 if hd is None else 0), attr(dec, '_msg_len'),
                                      '-' if ls is None else ls))
        if i in late_points and i < len(sizes) - 1:
            register(None)
            for t in cand_types[:8]:
                register(t)
    tail = ''
    if use_shadow and sh_bad:
        tail += '!SD'
    # a user callback that raises once: the decoder must stay usable (same entries from the interrupted message, or the
    # one after it, onwards; no further exception)
    if kept and len(sizes) > 1 and salt % 7 == 0 and '!' not in ''.join(R):
        k = 1 + salt % len(kept)
        raised_at, after, exc, later = callback_failure_run(stream, sizes, maxp, rb, ro, opts, k)
        allk = [key_of(e[0], rb, ro) for e in kept]
        if exc is not None or raised_at is None:
            tail += '!RX'
        elif later and after != allk[k - 1:] and after != allk[k:]:
            tail += '!RX'
    if tail:
        R.append('%d:%s;' % (len(sizes), tail))
    return ''.join(R), ''.join(A)


def expand(chunkings, n):
    out = []
    for c in chunkings.split(';'):
        if c == 'ONE':
            out.append([n])
        elif c == 'BYTES':
            out.append([1] * n)
        elif c == 'SPLITS':
            out += [[k, n - k] for k in range(1, n)]
        elif c.startswith('c:'):
            out.append([int(x) for x in c[2:].split(',') if x != ''])
        else:
            raise ValueError('bad chunking ' + c)
    return out


def d8(s):
    return hashlib.md5(s.encode()).hexdigest()[:8]


def impl_main():
    _imports()
    default_maxe = MessageHeader._MAX_EXPECTED_SIZE_BYTES
    shadow_stream()             # built under the unpatched constants
    for line in sys.stdin:
        w = line.split()
        if not w:
            continue
        mode, maxp, maxe, rb, ro, opts, sh, chunkings = w
        stream = bytes.fromhex('' if sh == '-' else sh)
        MessageHeader._MAX_EXPECTED_SIZE_BYTES = default_maxe if maxe == '-' else int(maxe)
        try:
            orc = oracle(stream, MessageHeader._MAX_EXPECTED_SIZE_BYTES)
            outs = []
            for sizes in expand(chunkings, len(stream)):
                r, a = run_chunking(stream, sizes, int(maxp), rb == '1', ro == '1', opts)
                outs.append('I{%s}{%s}' % (r, a) if mode == 'V' else '%s %s' % (d8(r), d8(a)))
            print(orc + ' # ' + ' | '.join(outs), flush=False)
        except Exception as e:
            print('ERROR %s: %s' % (type(e).__name__, str(e).replace('\n', ' ')[:300]))
        finally:
            MessageHeader._MAX_EXPECTED_SIZE_BYTES = default_maxe
    sys.stdout.flush()


# ---- class library ----------------------------------------------------------------------------------------------
def classes_main():
    _imports()
    enc = FusionEngineEncoder()
    out, notes = [], []
    for t, cls in sorted(message_type_to_class.items(), key=lambda kv: int(kv[0])):
        rec = {'name': cls.__name__, 'type': int(t), 'version': None, 'default': None, 'variants': []}
        try:
            obj = cls()
            rec['version'] = int(obj.get_version())
            msg = enc.encode_message(obj)
            rec['default'] = msg.hex()
            # payloads of the same length that still parse but decode to different field values
            import random
            r = random.Random(int(t))
            base_ok, base_dg = standalone(obj.get_type(), bytes(msg))
            seen = {base_dg}
            for _ in range(60):
                if len(rec['variants']) >= 4 or len(msg) <= 24:
                    break
                pl = bytearray(msg[24:])
                for _k in range(r.randint(1, 4)):
                    pl[r.randrange(len(pl))] = r.randrange(256)
                ok, dg = standalone(obj.get_type(), bytes(msg[:24]) + bytes(pl))
                if ok and dg not in seen:
                    seen.add(dg); rec['variants'].append(bytes(pl).hex())
        except Exception as e:
            notes.append('%s: default object does not serialise (%s)' % (cls.__name__, type(e).__name__))
        out.append(rec)
    known_types = sorted(int(m) for m in MessageType if int(m) not in (int(MessageType.INVALID),)) if hasattr(MessageType, '__iter__') else []
    print(json.dumps({'classes': out, 'notes': notes, 'enum_values': known_types,
                      'max_expected': MessageHeader._MAX_EXPECTED_SIZE_BYTES}))


def bad_payloads_of(cls, t, enc):
    """payloads on which cls().unpack raises, by exception type (count and three representatives: shortest, median, longest)"""
    import random
    r = random.Random(int(t) * 7 + 1)
    try:
        base = bytes(enc.encode_message(cls()))[24:]
    except Exception:
        base = bytes(16)
    n = len(base)
    cands = []
    for L in range(0, n + 9):
        cands.append(base[:L] if L <= n else base + bytes(L - n))
        if L > n:
            cands.append(base + b'\xff' * (L - n))
    for L in sorted({0, 1, 2, 3, 4, 7, 8, 12, 16, 24, 32, 40, 64, 100, 200, n, n + 1, 2 * n + 3}):
        cands += [bytes(L), b'\xff' * L, bytes(r.randrange(256) for _ in range(L)), bytes(r.randrange(256) for _ in range(L))]
    for i in range(n):
        for v in (0xff, 0x00, 0x80):
            if base[i] != v:
                cands.append(base[:i] + bytes([v]) + base[i + 1:])
    for i in range(0, max(0, n - 3), 1):
        cands.append(base[:i] + b'\xff\xff\xff\xff' + base[i + 4:])
    # tag / sub-type / count sweeps: every value of each of the first 6 bytes and selected values of the next 6, on the
    # default payload and on zero- and 0x01-filled bodies (containers select a polymorphic sub-type from the leading fields)
    some = sorted({0, 1, 2, 3, 4, 5, 8, 16, 0x7f, 0x80, 0xc0, 0xfe, 0xff} | {r.randrange(256) for _ in range(12)})
    for body in [base] + [bytes(L) for L in (16, 40, 64)] + [b'\x01' * 40]:
        for i in range(min(len(body), 12)):
            for v in (range(256) if i < 6 else some):
                cands.append(body[:i] + bytes([v]) + body[i + 1:])
    by_exc, seen, tried = {}, set(), 0
    hdr = bytes(24)
    for pl in cands:
        if pl in seen:
            continue
        seen.add(pl); tried += 1
        try:
            cls().unpack(buffer=hdr + pl, offset=24)
        except Exception as e:
            by_exc.setdefault(type(e).__name__, []).append(pl)
        except BaseException as e:
            by_exc.setdefault('BaseException:' + type(e).__name__, []).append(pl)
    rec = {'type': int(t), 'tried': tried, 'failing': sum(len(v) for v in by_exc.values()), 'by_exception': {}}
    for k, v in by_exc.items():
        v.sort(key=len)
        picks = [v[0], v[len(v) // 2], v[-1]]
        rec['by_exception'][k] = {'count': len(v), 'payloads': [x.hex() for x in dict.fromkeys(picks)]}
    return rec


def badpayloads_main():
    _imports()
    enc = FusionEngineEncoder()
    by_name = {cls.__name__: (t, cls) for t, cls in message_type_to_class.items()}
    for line in sys.stdin:
        names = sorted(by_name) if line.strip() == 'ALL' else line.split()
        print(json.dumps({name: bad_payloads_of(by_name[name][1], by_name[name][0], enc) for name in names}))
    sys.stdout.flush()


def encode_main():
    import random
    _imports()
    buildable = []
    for t, cls in sorted(message_type_to_class.items(), key=lambda kv: int(kv[0])):
        try:
            FusionEngineEncoder().encode_message(cls())
            buildable.append(cls)
        except Exception:
            pass
    for line in sys.stdin:
        w = line.split()
        if not w:
            continue
        seed, k, s0 = int(w[0]), int(w[1]), int(w[2])
        r = random.Random(seed)
        enc = FusionEngineEncoder()
        enc.sequence_number = s0
        msgs = []
        try:
            for _ in range(k):
                cls = r.choice(buildable)
                obj = cls()
                if hasattr(obj, 'data') and isinstance(getattr(obj, 'data'), (bytes, bytearray)) and type(obj).__name__ in ('InputDataWrapperMessage', 'STA5635IQData'):
                    obj.data = bytes(r.randrange(256) for _ in range(r.choice([0, 1, 4, 30])))
                src = r.choice([0, 1, 7, 0xFFFFFFFF, r.getrandbits(32)])
                out = enc.encode_message(obj, source_identifier=src)
                msgs.append({'type': int(obj.get_type()), 'version': int(obj.get_version()), 'source': src,
                             'payload': bytes(obj.pack()).hex(), 'out': bytes(out).hex(), 'cls': cls.__name__})
            print(json.dumps({'msgs': msgs, 'final_seq': enc.sequence_number}))
        except Exception as e:
            print(json.dumps({'error': '%s: %s' % (type(e).__name__, str(e)[:200]), 'msgs': msgs}))
    sys.stdout.flush()


if __name__ == '__main__':
    {'impl': impl_main, 'classes': classes_main, 'encode': encode_main, 'badpayloads': badpayloads_main}[sys.argv[1]]()
