"""C16 IMPL runner.  One JSON request per input line -> one JSON result line.

{"list": 1}                       -> {"classes": [{"name", "module", "own": bool, "fields": [...], "has_details": bool}, ...]}
{"cls": name, "n": N, "nan": [i...], "variant": v, "table": {key: {"kind","path"}} (optional)}
    builds N messages of the class whose every numeric leaf (recursively through embedded objects) holds a value that is
    distinct between messages and between fields, P1 times invalid (NaN) at the positions in "nan", and reports
      issues: list of {"kind", "key", ...}  — disagreements between cls.to_numpy(msgs) / MessageData.to_numpy and the fields
      arrays: {key: {"raw_shape", "after_shape", "raw": [...flat reprs], "after": [...]}, ...}  for the NaN-removal model
      stats:  counts of what was compared
variants: 0 = enums chosen so that no class-specific preprocessing triggers (CalibrationStatus stage never UNKNOWN,
              measurement_time_source never P1_TIME where the P1 time is invalid);
          1 = unconstrained enum values;
          2 = force those documented deviations (leading UNKNOWN calibration stages, measurement_time_source P1_TIME).
"""
import json, math, sys, warnings
import numpy as np
warnings.filterwarnings('ignore')
import fusion_engine_client.messages as M
from fusion_engine_client.messages import MessageType, Timestamp
from fusion_engine_client.messages.measurement_details import MeasurementDetails
from fusion_engine_client.analysis.data_loader import MessageData
import enum as _enum

CLASSES = {c.__name__: c for c in M.message_type_to_class.values()}
CLASSES['MeasurementDetails'] = MeasurementDetails

# Synthetic payload classes that rely on the default conversion (MessagePayload.to_numpy): one scalar field only, one
# vector field only, a timestamp plus one vector.  Defining a MessagePayload subclass registers it for its message type,
# so the registry entry is restored afterwards.
from fusion_engine_client.messages.defs import MessagePayload as _MP
_saved = _MP.message_type_to_class.get(MessageType.INVALID)


class SynOneScalar(_MP):
    MESSAGE_TYPE = MessageType.INVALID
    MESSAGE_VERSION = 0

    def __init__(self):
        self.value = np.nan


class SynOneVector(_MP):
    MESSAGE_TYPE = MessageType.INVALID
    MESSAGE_VERSION = 0

    def __init__(self):
        self.vec = np.full((3,), np.nan)


class SynTimeVector(_MP):
    MESSAGE_TYPE = MessageType.INVALID
    MESSAGE_VERSION = 0

    def __init__(self):
        self.p1_time = Timestamp()
        self.vec4 = np.full((4,), np.nan)
        self.count = 0


if _saved is None:
    _MP.message_type_to_class.pop(MessageType.INVALID, None)
else:
    _MP.message_type_to_class[MessageType.INVALID] = _saved
SYNTHETIC = {'SynOneScalar': SynOneScalar, 'SynOneVector': SynOneVector, 'SynTimeVector': SynTimeVector}
CLASSES.update(SYNTHETIC)


def is_enum(v):
    return isinstance(v, _enum.Enum) or (hasattr(type(v), '__members__') and hasattr(v, 'value') and hasattr(v, 'name'))


def is_obj(v):
    return hasattr(v, '__dict__') and not is_enum(v) and not isinstance(v, (Timestamp, np.ndarray, type))


def leaves(obj, prefix=()):
    """stable enumeration of (path, value) over the attribute tree"""
    for name in sorted(vars(obj)):
        v = vars(obj)[name]
        if is_obj(v):
            yield from leaves(v, prefix + (name,))
        else:
            yield prefix + (name,), v


def set_path(obj, path, v):
    for p in path[:-1]:
        obj = getattr(obj, p)
    setattr(obj, path[-1], v)


def get_path(obj, path):
    for p in path:
        obj = getattr(obj, p)
    return obj


FRACTIONS = [0.1, 1.0 / 3.0, 0.7, 1e-7, 2.0 / 3.0]


def hard_float(L, k, j):
    """a double that is pairwise distinct over (L, k) and NOT exactly representable in binary32 (nor in any narrower
    type): a non-dyadic fraction, for every other field on top of an integer part beyond 2**24"""
    base = 1000.0 * L + k + (16777216.0 + 1.0 if L % 2 else 0.0)
    x = base + FRACTIONS[(L + k + j) % len(FRACTIONS)]
    assert float(np.float32(x)) != x
    return x


_WIDTH = {}


def int_width(cls, path):
    """(unsigned bits, signed?) the wire format accepts for an integer attribute, found by packing; None when the class
    cannot be packed with that attribute set (then the attribute's range is unknown)"""
    key = (cls.__name__, path)
    if key in _WIDTH:
        return _WIDTH[key]
    res = None
    try:
        def packs(val):
            m = cls()
            set_path(m, path, val)
            try:
                m.pack()
                return True
            except Exception:
                return False
        if packs(1):
            for bits in (64, 32, 16, 8):
                if packs(2 ** bits - 1) and not packs(2 ** bits):
                    res = (bits, False); break
                if packs(2 ** (bits - 1) - 1) and packs(-2 ** (bits - 1)) and not packs(2 ** (bits - 1)):
                    res = (bits, True); break
    except Exception:
        res = None
    _WIDTH[key] = res
    return res


def int_value(cls, path, L, i, wire):
    """pairwise distinct over the messages; spans the whole range of the wire field, top bit and minimum included,
    mixed with small values in the same list"""
    small = (7 * L + i) % 100 + 1
    w = int_width(cls, path)
    if w is None:
        return small if wire else (2 ** 31 + (7 * L + i) % 200 + 1)
    bits, signed = w
    if signed:
        return [small, 2 ** (bits - 1) - 1 - i, -2 ** (bits - 1) + i, -small][i % 4]
    return [small, 2 ** (bits - 1) + i, 2 ** bits - 1 - i, 2 ** (bits // 2) + i][i % 4]


def wire_float(L, k, j):
    """like hard_float but small enough for every fixed-point wire field (centi-units in int16 etc.)"""
    return float((13 * L + k) % 250) + FRACTIONS[(L + k + j) % len(FRACTIONS)]


def build(cls, n, nan, variant, wire=False):
    """wire=True: integers small enough for every wire field (the messages are going to be packed)"""
    msgs = []
    for i in range(n):
        m = cls()
        for L, (path, v) in enumerate(list(leaves(m))):
            name = path[-1]
            if isinstance(v, Timestamp):
                if name == 'p1_time' and i in nan:
                    nv = Timestamp()
                else:
                    nv = Timestamp(1300000000.0 + 50.0 * L + i + 0.123456789 + L * 1e-6)      # needs the full binary64 significand
            elif is_enum(v):
                members = list(type(v))
                k = (L + i) % len(members)
                nv = members[k]
                if variant == 0:
                    if name == 'calibration_stage' and nv.name == 'UNKNOWN':
                        nv = members[(k + 1) % len(members)]
                    if name == 'measurement_time_source' and nv.name == 'P1_TIME':
                        nv = members[(k + 1) % len(members)]
                elif variant == 3:
                    # time source INVALID (value 0) whatever the P1 time is: nothing may be substituted
                    if name == 'measurement_time_source':
                        inv = [x for x in members if int(x) == 0]
                        nv = inv[0] if inv else nv
                    if name == 'calibration_stage' and nv.name == 'UNKNOWN':
                        nv = members[(k + 1) % len(members)]
                elif variant == 2:
                    if name == 'calibration_stage':
                        unk = [x for x in members if x.name == 'UNKNOWN']
                        if unk and i < max(1, n // 2):
                            nv = unk[0]
                        elif nv.name == 'UNKNOWN':
                            nv = members[(k + 1) % len(members)]
                    if name == 'measurement_time_source':
                        p1s = [x for x in members if x.name == 'P1_TIME']
                        nv = p1s[0] if p1s else nv
            elif isinstance(v, (bool, np.bool_)):
                nv = bool((L + i) % 2 == 0)
            elif isinstance(v, (int, np.integer)):
                nv = int_value(cls, path, L, i, wire)
            elif isinstance(v, (float, np.floating)):
                nv = wire_float(L, i, 0) if wire else hard_float(L, i, 0)
            elif isinstance(v, np.ndarray) and v.dtype.kind in 'fiu' and v.size > 0:
                nv = v.copy()
                for j in range(nv.size):
                    nv.flat[j] = (int(np.iinfo(v.dtype).max) - (7 * L + 17 * i + j) % 120) if v.dtype.kind in 'iu' else (wire_float(L, 10 * i + j, j) if wire else hard_float(L, 10 * i + j, j))
            else:
                continue
            set_path(m, path, nv)
        msgs.append(m)
    return msgs


def leaf_snapshot(m):
    return [(p, flat_repr(v) if isinstance(v, np.ndarray) else (repr(float(v)) if isinstance(v, Timestamp) else repr(v))) for p, v in leaves(m)]


def numeric(v):
    """canonical numeric value of a field (integers stay exact Python ints in object arrays), or None when not numeric"""
    if isinstance(v, Timestamp):
        return np.float64(float(v))
    if is_enum(v):
        return np.array(int(v), dtype=object)
    if isinstance(v, (bool, np.bool_)):
        return np.array(int(v), dtype=object)
    if isinstance(v, (int, np.integer)):
        return np.array(int(v), dtype=object)
    if isinstance(v, (float, np.floating)):
        return np.float64(v)
    if isinstance(v, np.ndarray) and v.dtype.kind in 'iub':
        return v.astype(object)
    if isinstance(v, np.ndarray) and v.dtype.kind == 'f':
        return v.astype(np.float64)
    if isinstance(v, (list, tuple)) and len(v) > 0 and all(isinstance(x, (int, float, np.integer, np.floating)) and
                                                           not isinstance(x, bool) for x in v):
        # a decoded message holds construct ListContainers where Python code holds arrays
        return np.array([int(x) if isinstance(x, (int, np.integer)) else float(x) for x in v], dtype=object)
    return None


def _eq(g, w):
    """exact equality of two Python numbers: integers as integers (no rounding through binary64), NaN = NaN"""
    if isinstance(g, bool):
        g = int(g)
    if isinstance(w, bool):
        w = int(w)
    gi, wi = isinstance(g, int), isinstance(w, int)
    if gi and wi:
        return g == w
    if gi or wi:
        f, i = (w, g) if gi else (g, w)
        try:
            f = float(f)
        except Exception:
            return False
        return (not math.isnan(f)) and (not math.isinf(f)) and f.is_integer() and int(f) == i
    try:
        g, w = float(g), float(w)
    except Exception:
        return False
    return g == w or (math.isnan(g) and math.isnan(w))


def same(a, b):
    try:
        a = np.asarray(a); b = np.asarray(b)
        if a.shape != b.shape:
            return False
        return all(_eq(g, w) for g, w in zip(a.ravel().tolist(), b.ravel().tolist()))
    except Exception:
        return False


def time_axes(shape_n, shape_n1):
    """axes whose length grew by one when one more message was appended"""
    if len(shape_n) != len(shape_n1):
        return []
    return [k for k, (a, b) in enumerate(zip(shape_n, shape_n1)) if b == a + 1 and
            all(x == y for j, (x, y) in enumerate(zip(shape_n, shape_n1)) if j != k)]


def flat_repr(a):
    return ['nan' if (isinstance(x, (float, np.floating)) and math.isnan(x)) else repr(x.item() if hasattr(x, 'item') else x) for x in np.asarray(a).flat]


def through_wire(cls, msgs, rep):
    """the pack -> unpack image of the messages ('unpack'), or what FusionEngineDecoder returns for their encoding ('decoder')"""
    if rep == 'unpack':
        out = []
        for m in msgs:
            data = m.pack()
            d = cls()
            d.unpack(data, 0) if cls is MeasurementDetails else d.unpack(buffer=data, offset=0)
            out.append(d)
        return out
    from fusion_engine_client.parsers import FusionEngineEncoder, FusionEngineDecoder
    enc, dec = FusionEngineEncoder(), FusionEngineDecoder()
    blob = b''.join(enc.encode_message(m) for m in msgs)
    res = dec.on_data(blob) if blob else []
    out = [r[1] for r in res]
    if len(out) != len(msgs) or any(type(o) is not cls for o in out):
        raise ValueError('decoder returned %d of %d messages' % (len(out), len(msgs)))
    return out


def python_twin(cls, decoded):
    """a message assembled in Python holding the same field values as the decoded one (arrays where the default
    instance has arrays)"""
    t = cls()
    for path, dv in list(leaves(t)):
        v = get_path(decoded, path)
        if isinstance(dv, np.ndarray) and not isinstance(v, np.ndarray):
            v = np.array(v, dtype=dv.dtype)
        set_path(t, path, v)
    return t


def run(req):
    if 'history' in req:
        return run_history(req)
    cls = CLASSES[req['cls']]
    n, nan, variant = req['n'], set(req.get('nan', [])), req.get('variant', 0)
    rep = req.get('rep', 'python')
    msgs = build(cls, n, nan, variant, wire=(rep != 'python'))
    twins = None
    if rep != 'python':
        try:
            msgs = through_wire(cls, msgs, rep)
            twins = [python_twin(cls, m) for m in msgs]
        except Exception as e:
            return {'skipped': 'cannot take %s through %s: %s' % (cls.__name__, rep, type(e).__name__), 'issues': [], 'arrays': {},
                    'stats': {}, 'keys': []}
    # the time axis of each output is a property of the class: found on two plain message lists of lengths 5 and 6
    ref6 = build(cls, 6, set(), 0)
    ref_a, ref_b = cls.to_numpy(ref6[:5]), cls.to_numpy(ref6)
    if twins is not None:
        # decoded objects can carry attributes a Python-built object does not have (lengths, construct bookkeeping): their
        # outputs get their axis from decoded reference lists
        try:
            w6 = through_wire(cls, build(cls, 6, set(), 0, wire=True), rep)
            wa, wb = cls.to_numpy(w6[:5]), cls.to_numpy(w6)
            for k in wb:
                if k not in ref_b:
                    ref_b[k] = wb[k]; ref_a[k] = wa.get(k)
        except Exception:
            pass
    issues, stats = [], {'same_named': 0, 'time_dependent': 0, 'ntd': 0, 'table_rows': 0, 'skipped_non_numeric': 0}
    before = [leaf_snapshot(m) for m in msgs]
    out = cls.to_numpy(msgs)
    if not isinstance(out, dict):
        return {'issues': [{'kind': 'not-a-dict', 'key': ''}], 'arrays': {}, 'stats': stats}
    out_snap = {k: (list(v.shape), flat_repr(v)) for k, v in out.items() if isinstance(v, np.ndarray)}
    # a second conversion and a conversion of the same messages given as a tuple give the same arrays, and do not disturb
    # the arrays handed out before
    for form, seq in (('second-call', msgs), ('tuple', tuple(msgs))):
        try:
            o2 = cls.to_numpy(seq)
        except Exception as e:
            issues.append({'kind': 'conversion-raises', 'key': '*', 'form': form, 'exception': type(e).__name__, 'n': n}); continue
        for k, (sh, fl) in out_snap.items():
            v2 = o2.get(k)
            if not (isinstance(v2, np.ndarray) and list(v2.shape) == sh and flat_repr(v2) == fl):
                issues.append({'kind': 'conversion-not-repeatable', 'key': k, 'form': form, 'n': n}); break
    if any(list(out[k].shape) != sh or flat_repr(out[k]) != fl for k, (sh, fl) in out_snap.items()):
        issues.append({'kind': 'earlier-result-changed-by-later-call', 'key': '*', 'n': n})
    if [leaf_snapshot(m) for m in msgs] != before:
        issues.append({'kind': 'conversion-modifies-messages', 'key': '*', 'n': n})
    # advisory: outputs that share memory with a message's own array
    aliased = []
    for k, v in out.items():
        if isinstance(v, np.ndarray):
            for m in msgs[:3]:
                for path, fv in leaves(m):
                    if isinstance(fv, np.ndarray) and fv.size and v.size and np.shares_memory(v, fv):
                        aliased.append(k)
    stats['outputs_sharing_memory_with_a_message_array'] = len(set(aliased))
    if twins is not None:
        # conversion must depend on the field values only, not on the container types a decoded message happens to hold
        try:
            out_t = cls.to_numpy(twins)
        except Exception as e:
            out_t = None
        if isinstance(out_t, dict):
            stats['compared_with_python_built_twin'] = 0
            for k in sorted(set(out) & set(out_t)):
                if k == '__metadata__':
                    continue
                a, b = out.get(k), out_t.get(k)
                if isinstance(a, np.ndarray) or isinstance(b, np.ndarray):
                    stats['compared_with_python_built_twin'] += 1
                    sa, sb = list(getattr(a, 'shape', ())), list(getattr(b, 'shape', ()))
                    if not (isinstance(a, np.ndarray) and isinstance(b, np.ndarray) and sa == sb and flat_repr(a) == flat_repr(b)):
                        issues.append({'kind': 'output-depends-on-field-container-type', 'key': k, 'representation': rep,
                                       'shape_decoded_messages': sa, 'shape_python_built_messages': sb, 'n': n})
    ntd = list(out.get('__metadata__', {}).get('not_time_dependent', [])) if isinstance(out.get('__metadata__'), dict) else []
    top = vars(msgs[0]) if n else vars(cls())
    det = getattr(msgs[0] if n else cls(), 'details', None) if 'details' in top else None
    det_fields = vars(det) if det is not None and is_obj(det) else {}

    # ---- axes: every array output that is not declared time-independent has one entry per message ----
    taxis = {}
    for k, v in out.items():
        if k == '__metadata__' or not isinstance(v, np.ndarray):
            continue
        if k in ntd:
            stats['ntd'] += 1
            continue
        stats['time_dependent'] += 1
        if n == 0:
            if v.size != 0:
                issues.append({'kind': 'nonempty-for-no-messages', 'key': k, 'shape': list(v.shape)})
            continue
        va, vb = ref_a.get(k), ref_b.get(k)
        ax = time_axes(va.shape, vb.shape) if isinstance(va, np.ndarray) and isinstance(vb, np.ndarray) else []
        if not ax or ax[0] >= v.ndim:
            issues.append({'kind': 'not-one-entry-per-message', 'key': k, 'shape': list(v.shape),
                           'shape_5_messages': list(getattr(va, 'shape', [])), 'shape_6_messages': list(getattr(vb, 'shape', []))})
            continue
        ax = ax[0] if len(ax) == 1 else (len(v.shape) - 1 if v.ndim == 2 else ax[0])
        taxis[k] = ax
    # a class may drop leading messages before converting (CalibrationStatus): diagnose that once, then compare the rest
    lens = set(int(out[k].shape[a]) for k, a in taxis.items())
    trimmed = 0
    if n > 0 and len(lens) == 1 and 0 <= min(lens) < n:
        trimmed = n - min(lens)
        issues.append({'kind': 'leading-messages-dropped-before-conversion', 'key': '*', 'dropped': trimmed, 'n': n,
                       'first_calibration_stage_unknown': getattr(getattr(msgs[0], 'calibration_stage', None), 'name', None) == 'UNKNOWN'})
    else:
        for k, a in taxis.items():
            if out[k].shape[a] != n:
                issues.append({'kind': 'length-differs-from-message-count', 'key': k, 'length': int(out[k].shape[a]), 'n': n})
    all_msgs = msgs
    msgs = msgs[trimmed:]

    # ---- same-named fields ----------------------------------------------------------------------------
    for k, v in out.items():
        if k == '__metadata__':
            continue
        if k in top and not is_obj(top[k]):
            getter = lambda m, k=k: getattr(m, k)
            owner = 'message'
        elif k not in top and k in det_fields:
            getter = lambda m, k=k: getattr(m.details, k)
            owner = 'details'
        else:
            continue
        if n == 0 or not msgs:
            stats['same_named'] += 1
            continue
        vals = [numeric(getter(m)) for m in msgs]
        if any(x is None for x in vals):
            stats['skipped_non_numeric'] += 1
            continue
        stats['same_named'] += 1
        if k in ntd:
            if not same(v, vals[0]):
                issues.append({'kind': 'time-independent-output-differs-from-first-message', 'key': k, 'owner': owner,
                               'got': flat_repr(v)[:8], 'want': flat_repr(vals[0])[:8]})
            continue
        if not isinstance(v, np.ndarray) or k not in taxis:
            issues.append({'kind': 'same-named-output-is-not-a-per-message-array', 'key': k, 'owner': owner})
            continue
        want = np.stack([np.asarray(x) for x in vals], axis=0)        # time first
        got = np.moveaxis(v, taxis[k], 0)
        if got.shape != want.shape and want.ndim == 2 and v.shape == want.T.shape:
            got = v.T
        if not same(got, want):
            det_of = (lambda m: m.details) if owner == 'details' else ((lambda m: m) if cls is MeasurementDetails else None)
            if k == 'p1_time' and det_of is not None:
                # documented substitution: an invalid details.p1_time is replaced by measurement_time when its source is P1 time
                try:
                    alt = np.array([float(det_of(m).measurement_time) if (math.isnan(float(det_of(m).p1_time)) and
                                    det_of(m).measurement_time_source.name == 'P1_TIME') else float(det_of(m).p1_time) for m in msgs])
                    if same(got, alt):
                        issues.append({'kind': 'invalid-details-p1-time-replaced-by-measurement-time', 'key': k, 'owner': owner, 'n': n})
                        continue
                except Exception:
                    pass
            # name the field it actually mirrors, if any (diagnosis only)
            src = None
            for path, _ in leaves(msgs[0]):
                vv = [numeric(get_path(m, path)) for m in msgs]
                if all(x is not None for x in vv):
                    try:
                        if same(got, np.stack([np.asarray(x) for x in vv], axis=0)):
                            src = '.'.join(path); break
                    except Exception:
                        pass
            issues.append({'kind': 'same-named-output-differs-from-field', 'key': k, 'owner': owner, 'mirrors': src,
                           'got': flat_repr(got)[:6], 'want': flat_repr(want)[:6], 'n': n})

    # ---- the translator's table, interpreted on the same messages (MODEL side of the key->source link) ---
    for k, row in (req.get('table') or {}).items():
        if row['kind'] == 'Opaque' or k not in out or n == 0 or not msgs:
            continue
        try:
            vals = [numeric(get_path(m, row['path'])) for m in msgs]
        except AttributeError:
            issues.append({'kind': 'table-path-missing', 'key': k, 'path': row['path']}); continue
        if any(x is None for x in vals):
            continue
        stats['table_rows'] += 1
        v = out[k]
        if row['kind'] == 'First':
            ok = same(v, vals[0])
        else:
            want = np.stack([np.asarray(x) for x in vals], axis=0)
            got = np.moveaxis(v, taxis[k], 0) if (isinstance(v, np.ndarray) and k in taxis) else v
            ok = same(got, want)
        if not ok:
            issues.append({'kind': 'table-row-does-not-describe-output', 'key': k, 'path': row['path'], 'row_kind': row['kind']})

    # ---- MessageData.to_numpy(remove_nan_times=True) ------------------------------------------------------
    arrays = {}
    if cls is not MeasurementDetails and cls.__name__ not in SYNTHETIC:
        md = MessageData(cls.MESSAGE_TYPE, None)
        for i, m in enumerate(all_msgs):
            md.add_message(m, 1000 + i, i)
        md.to_numpy(remove_nan_times=True)
        # other ways to the same arrays: DataLoader.to_numpy() on a dict (which swallows ValueError), and the keep_* options
        from fusion_engine_client.analysis.data_loader import DataLoader
        md2 = MessageData(cls.MESSAGE_TYPE, None)
        md3 = MessageData(cls.MESSAGE_TYPE, None)
        for i, m in enumerate(all_msgs):
            md2.add_message(m, 1000 + i, i); md3.add_message(m, 1000 + i, i)
        try:
            DataLoader.to_numpy({cls.MESSAGE_TYPE: md2}, remove_nan_times=True)
            md3.to_numpy(remove_nan_times=True, keep_messages=False, keep_message_bytes=False, keep_message_index=False)
            for k, v in vars(md).items():
                if isinstance(v, np.ndarray) and k not in ('message_bytes', 'message_index'):
                    for name, other in (('DataLoader.to_numpy', md2), ('keep_*=False', md3)):
                        w = getattr(other, k, None)
                        if not (isinstance(w, np.ndarray) and w.shape == v.shape and flat_repr(w) == flat_repr(v)):
                            issues.append({'kind': 'access-paths-disagree', 'key': k, 'path': name, 'n': n})
            stats['access_paths'] = 3
        except Exception as e:
            issues.append({'kind': 'conversion-raises', 'key': '*', 'form': 'DataLoader.to_numpy / keep options', 'exception': type(e).__name__, 'n': n})
        if [leaf_snapshot(m) for m in all_msgs] != before:
            issues.append({'kind': 'conversion-modifies-messages', 'key': '*', 'n': n, 'where': 'MessageData.to_numpy'})
        raw = dict(out)
        raw['message_bytes'] = np.array([1000 + i for i in range(n)], dtype=np.uint64)
        raw['message_index'] = np.array(list(range(n)), dtype=int)
        tax = dict(taxis); tax['message_bytes'] = 0; tax['message_index'] = 0
        p1 = raw.get('p1_time')
        if isinstance(p1, np.ndarray) and p1.ndim == 1:
            isnan = np.isnan(p1)
            keep = ~isnan
            for k, v in raw.items():
                if not isinstance(v, np.ndarray):
                    continue
                after = getattr(md, k, None)
                if not isinstance(after, np.ndarray):
                    issues.append({'kind': 'nan-removal-lost-array', 'key': k}); continue
                if k in ntd or k not in tax or v.shape[tax[k]] != len(keep):
                    want = v
                else:
                    want = np.compress(keep, v, axis=tax[k])
                arrays[k] = {'raw_shape': list(v.shape), 'after_shape': list(after.shape), 'ntd': k in ntd, 'axis': tax.get(k),
                             'raw': flat_repr(v), 'after': flat_repr(after)}
                if not (after.shape == want.shape and flat_repr(after) == flat_repr(want)):
                    issues.append({'kind': 'nan-removal-inconsistent', 'key': k, 'ndim': int(v.ndim), 'raw_shape': list(v.shape),
                                   'after_shape': list(after.shape), 'expected_shape': list(want.shape), 'invalid': int(isnan.sum())})
            arrays['__mask__'] = [bool(x) for x in isnan]
            arrays['__ntd__'] = ntd
            arrays['__dropped__'] = trimmed
    return {'issues': issues, 'arrays': arrays, 'stats': stats, 'keys': [k for k in out if k != '__metadata__']}


def set_times(m, t):
    for path, v in list(leaves(m)):
        if path[-1] == 'p1_time' and isinstance(v, Timestamp):
            set_path(m, path, Timestamp(t))


def get_time(m):
    for path, v in leaves(m):
        if path[-1] == 'p1_time' and isinstance(v, Timestamp):
            return float(v)
    return float('nan')


def run_history(req):
    """several conversions of ONE MessageData whose message list changes in between: afterwards every array attribute
    must describe the current messages"""
    h = req['history']
    cls = CLASSES[h['cls']]
    n, t0, dt, op = h['n'], h['t0'], h['dt'], h['op']
    pool = build(cls, 2 * n + 4, set(), 0)
    for i, m in enumerate(pool[:n + 1]):
        set_times(m, t0 + i * dt)
    md = MessageData(cls.MESSAGE_TYPE, None)
    for m in pool[:n]:
        md.add_message(m)
    md.to_numpy(remove_nan_times=True)
    issues = []
    prev_count, prev_first, prev_last = len(md.messages), (get_time(md.messages[0]) if n else None), (get_time(md.messages[-1]) if n else None)
    fresh = pool[n + 1:]                  # messages not in the list yet, times shifted
    for i, m in enumerate(fresh):
        set_times(m, t0 + (i + 0.5) * dt)  # strictly between the existing epochs
    partner = None
    if op == 'slide':
        md.messages = md.messages[1:] + [pool[n]]
    elif op == 'slide-add':
        md.messages.pop(0)
        md.add_message(pool[n])
    elif op == 'replace-shifted':
        for i, m in enumerate(fresh):
            set_times(m, t0 + h.get('shift', dt) + i * dt)
        md.messages = fresh[:n]
    elif op == 'replace-middle':
        # same first and last objects, different ones in between (times of the replaced ones kept): SAME count
        mid = fresh[:max(n - 2, 0)]
        for m, old in zip(mid, md.messages[1:-1]):
            set_times(m, get_time(old))
        md.messages = [md.messages[0]] + mid + [md.messages[-1]]
    elif op == 'append':
        md.add_message(pool[n])
    elif op == 'same':
        pass
    # ---- a different number of messages between an unchanged first and last one, reached in every way a list can change
    elif op == 'assign-sublist-keep-ends':
        md.messages = [md.messages[0]] + md.messages[2:-1:2] + [md.messages[-1]]
    elif op == 'assign-longer-keep-ends':
        md.messages = [md.messages[0]] + fresh[:2] + md.messages[1:]
    elif op == 'slice-assign':
        md.messages[1:-1] = fresh[:1]
    elif op == 'slice-assign-longer':
        md.messages[1:-1] = fresh[:n + 1]
    elif op == 'del-middle':
        del md.messages[1]
    elif op == 'pop-middle':
        md.messages.pop(len(md.messages) // 2)
    elif op == 'insert-middle':
        md.messages.insert(1, fresh[0])
    elif op == 'extend':
        md.messages.extend(fresh[:2])
    elif op == 'reverse':
        md.messages.reverse()
    elif op == 'sort-descending':
        md.messages.sort(key=get_time, reverse=True)
    elif op == 'clear':
        md.messages.clear()
    elif op in ('align-drop', 'align-insert'):
        # the list is replaced by DataLoader.time_align_data (first and last epoch shared with the partner type)
        from fusion_engine_client.analysis.data_loader import DataLoader, TimeAlignmentMode
        pcls = CLASSES['PoseMessage'] if cls.__name__ != 'PoseMessage' else CLASSES['PoseAuxMessage']
        partner = MessageData(pcls.MESSAGE_TYPE, None)
        if op == 'align-drop':
            ptimes = [get_time(m) for m in md.messages[::2]] + [get_time(md.messages[-1])]
        else:
            ptimes = [get_time(md.messages[0])] + [t0 + (i + 0.5) * dt for i in range(2)] + [get_time(md.messages[-1])]
        for t in sorted(set(ptimes)):
            pm = pcls(); pm.p1_time = Timestamp(t); partner.add_message(pm)
        data = {cls.MESSAGE_TYPE: md, pcls.MESSAGE_TYPE: partner}
        DataLoader.to_numpy(data)
        DataLoader.time_align_data(data, TimeAlignmentMode.DROP if op == 'align-drop' else TimeAlignmentMode.INSERT)
    same_count = len(md.messages) == prev_count
    ends_same = bool(md.messages) and prev_first is not None and get_time(md.messages[0]) == prev_first and get_time(md.messages[-1]) == prev_last
    try:
        md.to_numpy(remove_nan_times=True)
    except Exception as e:
        return {'issues': [{'kind': 'repeated-conversion-raises', 'key': '*', 'op': op, 'exception': type(e).__name__, 'text': str(e)[:160],
                            'n': n, 't0': t0, 'dt': dt}], 'arrays': {}, 'stats': {}, 'keys': []}
    want = cls.to_numpy(md.messages)
    bad = []
    for k, v in want.items():
        if not isinstance(v, np.ndarray):
            continue
        got = getattr(md, k, None)
        if not (isinstance(got, np.ndarray) and got.shape == v.shape and flat_repr(got) == flat_repr(v)):
            bad.append(k)
    if bad:
        issues.append({'kind': 'arrays-do-not-describe-the-current-messages', 'key': '*', 'op': op, 'stale_keys': bad[:6],
                       't0': t0, 'dt': dt, 'n': n,
                       'first_last_time_changed': not ends_same, 'same_count': same_count,
                       'count_before': prev_count, 'count_now': len(md.messages)})
    return {'issues': issues, 'arrays': {}, 'stats': {'history_arrays': sum(1 for v in want.values() if isinstance(v, np.ndarray))},
            'keys': list(want)}


def listing():
    res = []
    for name, c in sorted(CLASSES.items()):
        d = c()
        res.append({'name': name, 'module': c.__module__.split('.')[-1],
                    'own': 'to_numpy' in c.__dict__, 'resolved': c.to_numpy.__func__.__qualname__,
                    'fields': sorted(vars(d)), 'has_details': is_obj(vars(d).get('details')),
                    'has_p1': any(p[-1] == 'p1_time' for p, _ in leaves(d)), 'synthetic': name in SYNTHETIC, 'aligned_by_code': 'p1_time' in vars(d),
                    'has_enum_preprocessing': any(p[-1] in ('calibration_stage', 'measurement_time_source') for p, _ in leaves(d))})
    return {'classes': res}


def main():
    for line in sys.stdin:
        line = line.strip()
        if not line:
            continue
        try:
            req = json.loads(line)
            print(json.dumps(listing() if 'list' in req else run(req)), flush=True)
        except Exception as e:
            import traceback
            print(json.dumps({'error': '%s: %s' % (type(e).__name__, str(e)[:300]), 'trace': traceback.format_exc()[-600:]}), flush=True)


main()
