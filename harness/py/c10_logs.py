"""Log construction shared by the C10 and C11 implementation harnesses (runs under /venv/bin/python with
PYTHONPATH=/repo/python).

A log *spec* is a JSON list of items
    ["m", type:int, source_id:int, t8:int|null, payload_len?]   a FusionEngine message; t8 = P1 time in eighths of a second
    ["j", hex]                                     junk bytes between messages
Messages are serialised with the library's own encoder (FusionEngineEncoder / MessageHeader.pack).  Types with a
payload class get a default-constructed payload with p1_time set (t8 = null -> invalid P1 time, i.e. an *untimed*
message of a timed type); EVENT_NOTIFICATION / VERSION_INFO carry system time only; types without a class
(>= 60000) get an opaque payload.  build() returns the file bytes and, for each message, its
(offset, size, type, source id, t8, ordinal) — the list the check uses as the unfiltered log.
"""
import json

from fusion_engine_client.messages import (MessageHeader, MessageType, Timestamp, PoseMessage, GNSSInfoMessage,
                                           IMUOutput, EventNotificationMessage, VersionInfoMessage,
                                           message_type_to_class)
from fusion_engine_client.parsers import FusionEngineEncoder

TIMED_TYPES = [int(MessageType.POSE), int(MessageType.GNSS_INFO), int(MessageType.IMU_OUTPUT)]
UNTIMED_TYPES = [int(MessageType.EVENT_NOTIFICATION), int(MessageType.VERSION_INFO)]


def mtype(v):
    return MessageType(int(v), raise_on_unrecognized=False)


def build(spec):
    enc = FusionEngineEncoder()
    out = bytearray()
    msgs = []
    for it in spec:
        if it[0] == 'j':
            out += bytes.fromhex(it[1])
            continue
        ty, src, t8 = it[1], it[2], it[3]
        plen = it[4] if len(it) > 4 else None          # payload length, only for types without a payload class
        cls = message_type_to_class.get(mtype(ty), None)
        if cls is None:
            if t8 is not None:
                raise ValueError('type %d has no payload class and cannot carry P1 time' % ty)
            h = MessageHeader(mtype(ty))
            h.sequence_number = enc.sequence_number
            enc.sequence_number += 1
            h.source_identifier = src
            data = h.pack(payload=bytes((ty + i * 7) & 0xFF for i in range(5 + ty % 7 if plen is None else plen)))
        else:
            m = cls()
            if hasattr(m, 'p1_time'):
                if t8 is not None:
                    m.p1_time = Timestamp(t8 / 8.0)
            elif t8 is not None:
                raise ValueError('type %d cannot carry P1 time' % ty)
            if hasattr(m, 'system_time_ns'):
                m.system_time_ns = 1000 * len(msgs)
            data = enc.encode_message(m, source_identifier=src)
        msgs.append({'off': len(out), 'size': len(data), 'type': ty, 'src': src, 't8': t8, 'idx': len(msgs),
                     'cls': None if cls is None else cls.__name__})
        out += data
    return bytes(out), msgs


def write(path, spec):
    data, msgs = build(spec)
    with open(path, 'wb') as f:
        f.write(data)
    return data, msgs


# ---- canonical form of what the reader yields (used by c10_impl.py and c11_impl.py) -------------------------
FLAG_NAMES = ['return_header', 'return_payload', 'return_bytes', 'return_offset', 'return_message_index']


def flag_kwargs(flags):
    return {n: bool(v) for n, v in zip(FLAG_NAMES, flags)}


def canon_result(result, flags):
    """result: the list yielded by MixedLogReader; flags: 5 bools.  Returns a list of [tag, value] in the order
    yielded, tags assigned by the documented order header, payload, bytes, offset, message index; a piece of the
    wrong kind (or a wrong count) is reported as ['?', repr]."""
    from fusion_engine_client.messages import MessagePayload
    tags = [t for t, f in zip('HPBOI', flags) if f]
    if not isinstance(result, (list, tuple)) or len(result) != len(tags):
        return [['?', repr(result)[:200]]]
    out = []
    for t, v in zip(tags, result):
        try:
            if t == 'H':
                out.append(['H', v.pack().hex()] if isinstance(v, MessageHeader) else ['?', repr(v)[:80]])
            elif t == 'P':
                if v is None:
                    out.append(['P', None])
                elif isinstance(v, MessagePayload):
                    pt = v.get_p1_time()
                    t8 = None if (pt is None or not pt) else round(float(pt) * 8)
                    out.append(['P', [type(v).__name__, t8]])
                else:
                    out.append(['?', repr(v)[:80]])
            elif t == 'B':
                out.append(['B', bytes(v).hex()] if isinstance(v, (bytes, bytearray)) else ['?', repr(v)[:80]])
            else:
                out.append([t, int(v)] if int(v) == v else ['?', repr(v)])
        except Exception as e:  # a piece that cannot even be inspected
            out.append(['?', 'inspect: %r' % (e,)])
    return out


def types_arg(types, form):
    """the message-type filter in the container / element form the API accepts: 'set' (default), 'list', 'tuple' of
    MessageType values (duplicates kept in list / tuple), 'classes' = tuple of payload classes (every type must have one),
    'mixed' = list with the payload class where there is one and the MessageType otherwise (constructor only)"""
    vals = [mtype(t) for t in types]
    if form == 'single' and len(vals) == 1:
        return vals[0]
    if form == 'single_class' and len(vals) == 1 and vals[0] in message_type_to_class:
        return message_type_to_class[vals[0]]
    if form == 'list':
        return list(vals)
    if form == 'tuple':
        return tuple(vals)
    if form == 'classes':
        return tuple(message_type_to_class[v] for v in vals)
    if form == 'mixed':
        return [message_type_to_class.get(v, v) for v in vals]
    r = one_shot(vals, form)
    if r is not None:
        return r
    return set(vals)


def srcs_arg(srcs, form):
    """source_ids in the forms the API accepts: set (default), list, tuple, or a bare int for one id"""
    if form == 'int' and len(srcs) == 1:
        return int(srcs[0])
    if form == 'list':
        return list(srcs)
    if form == 'tuple':
        return tuple(srcs)
    r = one_shot(list(srcs), form)
    if r is not None:
        return r
    if form == 'ndarray':
        import numpy as np
        return np.array(list(srcs), dtype=np.int64)
    if form == 'range' and srcs and sorted(srcs) == list(range(min(srcs), max(srcs) + 1)):
        return range(min(srcs), max(srcs) + 1)
    return set(srcs)


def one_shot(vals, form):
    """iterables that can be consumed only once (or are not plain containers): generator, iterator, map, dict keys
    view, frozenset"""
    if form == 'gen':
        return (v for v in vals)
    if form == 'iter':
        return iter(vals)
    if form == 'map':
        return map(lambda v: v, vals)
    if form == 'filter':
        return filter(lambda v: True, vals)
    if form == 'keys':
        return {v: None for v in vals}.keys()
    if form == 'frozenset':
        return frozenset(vals)
    return None


ONE_SHOT_FORMS = ('gen', 'iter', 'map', 'filter')


def aliased(results, flags):
    """tags of the mutable pieces (and 'L' for the yielded list itself) whose object identity is shared between two
    different yielded results — a caller keeping the results would see one overwrite the other"""
    tags = [t for t, f in zip('HPBOI', flags) if f]
    bad = []
    seen_lists = set()
    for x in results:
        if id(x) in seen_lists and 'L' not in bad:
            bad.append('L')
        seen_lists.add(id(x))
    for k, t in enumerate(tags):
        if t not in 'HP':
            continue
        ids = [id(x[k]) for x in results if isinstance(x, (list, tuple)) and len(x) == len(tags) and x[k] is not None]
        if len(ids) != len(set(ids)):
            bad.append(t)
    return bad


def endpoint(value8, rep):
    """one end of a time range in the representation the API accepts: 'f' float seconds, 't' Timestamp,
    'x' an invalid Timestamp() (no value), None stays None"""
    if rep == 'x':
        return Timestamp()
    if value8 is None:
        return None
    return Timestamp(value8 / 8.0) if rep == 't' else value8 / 8.0


def range_reps(spec):
    both = 't' if spec.get('ts') else 'f'
    return spec.get('rs', both), spec.get('re', both)


def make_range(spec):
    """spec: null or {start, end, abs, t0, ts | rs, re}: values in eighths; abs True / False / None (inferred by
    TimeRange); rs / re = representation of start / end ('f', 't', 'x'); ts = both Timestamps"""
    from fusion_engine_client.utils.time_range import TimeRange
    if spec is None:
        return None
    rs, re_ = range_reps(spec)
    return TimeRange(start=endpoint(spec['start'], rs), end=endpoint(spec['end'], re_), absolute=spec['abs'],
                     p1_t0=None if spec.get('t0') is None else Timestamp(spec['t0'] / 8.0))


def range_state(tr):
    """normalised state of a TimeRange object, in eighths (what the model takes as its input)"""
    if tr is None:
        return None
    f = lambda x: None if x is None else float(x) * 8
    return {'start': f(tr.start), 'end': f(tr.end), 'abs': bool(tr.absolute), 't0': (float(tr.p1_t0) * 8 if tr.p1_t0 else None)}
