"""Check-side helpers shared by props/c10.py and props/c11.py (no import of the library under test here):
log generators, encoding of cases for the extracted model, running the implementation harness in shards, and the
translation of model/spec output into the canonical piece lists the implementation harness prints."""
import hashlib, json, os, subprocess, sys
import vf

HERE = os.path.dirname(os.path.abspath(__file__))

POSE, GNSS_INFO, IMU = 10000, 10001, 11000
EVENT, VERSION = 13004, 13003
UNK1, UNK2 = 60001, 60002
TIMED = [POSE, GNSS_INFO, IMU]
INVALID0 = 0             # MessageType.INVALID: a falsy enum value that is a perfectly good message type
UNTIMED = [EVENT, VERSION, UNK1, UNK2, INVALID0]
HEADER_SIZE = 24      # overwritten from the generated constants by the property modules
POPULATE_COUNT = 10


def set_consts(consts):
    global HEADER_SIZE, POPULATE_COUNT
    HEADER_SIZE = consts['header_size']
    POPULATE_COUNT = consts['populate_count']


def logkey(spec):
    return hashlib.sha1(json.dumps(spec).encode()).hexdigest()[:16]


# ---------------------------------------------------------------------------------------------------------
# log generators (specs for harness/py/c10_logs.py)
# ---------------------------------------------------------------------------------------------------------

def junk(rng, allow_sync=True):
    n = rng.randint(1, 7)
    b = bytes(rng.choice([0, 1, 0x31, 0x41, 0xFF, 0x7F, 0x20]) for _ in range(n))
    if allow_sync and rng.random() < 0.25:
        b += b'\x2e\x31' + bytes(rng.choice([0, 0xFF, 0x10]) for _ in range(rng.randint(0, 5)))
    return ['j', b.hex()]


def random_log(rng, nmax=12, nsrc=None, base8=None, types=None, untimed_prob=0.45, junk_prob=0.3, invalid_prob=0.15):
    n = rng.randint(0, nmax)
    if n == 0:
        return []     # (a file of 1 byte makes the indexer raise ValueError: np.empty(-2) — C08's subject, not generated here)
    nsrc = nsrc or rng.choice([1, 1, 2, 3])
    srcs = rng.sample([0, 1, 2, 5, 7], nsrc)
    if base8 is None:
        base8 = rng.choice([0, 8, 80, 83, 84, 87, 8 * 1000, 8 * 1000 + 5, 8 * (2 ** 24) + 5, 8 * 1300000000 + 3])
    types = types or (rng.sample(TIMED, rng.randint(1, 3)) + rng.sample(UNTIMED, rng.randint(0, 3)))
    timed = [t for t in types if t in TIMED]
    untimed = [t for t in types if t in UNTIMED]
    t8 = base8
    spec = []
    for i in range(n):
        if rng.random() < junk_prob:
            spec.append(junk(rng))
        if untimed and rng.random() < untimed_prob:
            spec.append(['m', rng.choice(untimed), rng.choice(srcs), None])
        else:
            ty = rng.choice(timed)
            if rng.random() < invalid_prob:
                spec.append(['m', ty, rng.choice(srcs), None])
            else:
                t8 += rng.choice([0, 0, 1, 3, 4, 5, 8, 8, 8, 12, 16, 24])
                spec.append(['m', ty, rng.choice(srcs), t8])
    if rng.random() < junk_prob:
        spec.append(junk(rng))
    return spec


def fixed_logs():
    """small hand-written logs: the shapes named in DESIGN.md (E P1 E P2 E P3 E ...) and edge cases"""
    E, P, G = EVENT, POSE, GNSS_INFO
    return [
        [],
        [['m', E, 0, None], ['m', P, 0, 8], ['m', E, 0, None], ['m', P, 0, 16], ['m', E, 0, None], ['m', P, 0, 24], ['m', E, 0, None]],
        [['m', E, 0, None], ['m', P, 0, 8], ['m', P, 0, 16], ['m', E, 0, None], ['m', P, 0, 24], ['m', P, 0, 32], ['m', E, 0, None]],
        [['j', '31323334'], ['m', E, 1, None], ['m', P, 1, 84], ['j', '31323334'], ['m', P, 2, 92], ['j', '2e313334'],
         ['m', E, 2, None], ['m', G, 1, 100], ['j', '31323334'], ['m', P, 2, 108], ['m', UNK1, 1, None], ['j', '31323334']],
        [['m', E, 0, None], ['m', VERSION, 0, None], ['m', UNK1, 3, None]],                     # no P1 time at all
        [['m', P, 0, None], ['m', E, 0, None], ['m', P, 0, 8005], ['m', P, 0, None], ['m', G, 0, 8013], ['m', E, 0, None]],
        [['m', P, 0, 80]],
        [['m', E, 0, None]],
        # type 0 (MessageType.INVALID) and source id 0 next to other types / sources
        [['m', INVALID0, 0, None], ['m', P, 1, 80], ['m', INVALID0, 1, None], ['m', E, 0, None], ['m', P, 0, 88], ['m', INVALID0, 0, None], ['m', G, 1, 96]],
        [['m', P, 0, 16], ['m', P, 0, 16], ['m', E, 0, None], ['m', P, 0, 16], ['m', P, 0, 24], ['m', P, 0, 24]],
        # first P1 time fractional (10.625 s), messages every half second, untimed messages of two types in between
        [['m', E, 0, None], ['m', P, 0, 85], ['m', E, 1, None], ['m', G, 0, 89], ['m', UNK1, 0, None], ['m', P, 1, 93], ['m', E, 0, None],
         ['m', P, 0, 97], ['m', G, 1, 101], ['m', UNK1, 1, None], ['m', P, 0, 105], ['m', E, 1, None], ['m', P, 0, 109]],
        # large messages: > 1 KiB, 4 KiB, 16 383 and 16 384 bytes in total (the indexer's _MAX_FE_MSG_SIZE_BYTES), P1 times >= 2^24 s
        [['m', P, 0, 8 * 2 ** 24 + 3], ['m', UNK1, 0, None, 1100], ['m', P, 1, 8 * 2 ** 24 + 11], ['m', UNK2, 1, None, 4096 - 24],
         ['m', UNK1, 0, None, 16383 - 24], ['m', P, 0, 8 * 2 ** 24 + 19], ['m', UNK2, 0, None, 16384 - 24], ['m', E, 0, None]],
    ]


ALL_TYPES = TIMED + UNTIMED
CLASS_TYPES = [POSE, GNSS_INFO, IMU, EVENT, VERSION]
# message type values that never occur in the generated logs, spread over the whole 16-bit range
ABSENT_TYPES = [1, 7, 300, 2000, 9999, 10002, 10003, 10004, 10005, 10006, 10007, 11001, 11002, 11003, 11004, 11005, 11101, 11102, 11103,
                11104, 11105, 12000, 12003, 12005, 12010, 12011, 13000, 13001, 13002, 13100, 13101, 13102, 13200, 13201, 13202, 13220,
                14000, 14001, 14004, 14005, 20000, 25000, 30000, 35000, 40000, 45000, 50000, 55000, 60000, 60500, 61000, 62000, 63000, 64000, 65000]


def rich_log(rng, n):
    """all seven message types present, several messages of each, non-decreasing P1 times"""
    spec = []
    t8 = rng.choice([80, 83, 800])
    for i in range(n):
        ty = ALL_TYPES[i % len(ALL_TYPES)] if i < 2 * len(ALL_TYPES) else rng.choice(ALL_TYPES)
        if ty in TIMED:
            t8 += rng.choice([0, 1, 4, 8])
            spec.append(['m', ty, i % 2, t8])
        else:
            spec.append(['m', ty, i % 2, None])
    return spec


def type_requests(rng, present, sizes=None):
    """type filters of every size: some present types (at least one present type is always left out) plus absent
    types spread over the 16-bit range; container forms and duplicates as the API accepts them"""
    out = []
    sizes = sizes or [1, 2, 3, 5, 8, 11, 12, 13, 14, 15, 16, 17, 18, 20, 22, 24, 27, 30, 35, 40]
    for k in sizes:
        npres = rng.randint(0, min(k, max(0, len(present) - 1)))
        ts = rng.sample(present, npres) + rng.sample(ABSENT_TYPES, min(k - npres, len(ABSENT_TYPES)))
        rng.shuffle(ts)
        form = rng.choice(['set', 'set', 'list', 'tuple', 'mixed'])
        if form in ('list', 'tuple') and ts and rng.random() < 0.5:
            ts = ts + rng.sample(ts, min(len(ts), rng.randint(1, 3)))      # duplicates in the request
        out.append((ts, form))
    return out


def late_source_log(rng, n=None):
    """more than populate_count messages of one type; a source id that first appears after them"""
    spec = []
    t8 = 80
    n = n or POPULATE_COUNT + 2
    for i in range(n):
        t8 += 8
        spec.append(['m', POSE, 1, t8])
        if i % 4 == 1:
            spec.append(['m', EVENT, 1, None])
    spec.append(['m', POSE, 2, t8 + 8])
    spec.append(['m', EVENT, 1, None])
    spec.append(['m', POSE, 1, t8 + 16])
    return spec


def big_log(rng, n=620):
    """> _READ_SIZE_BYTES, so that max_bytes truncates the index to whole blocks"""
    spec = []
    t8 = 800
    for i in range(n):
        if i % 7 == 3:
            spec.append(['m', EVENT, i % 2, None])
        else:
            t8 += 2
            spec.append(['m', POSE, i % 2, t8])
    return spec


# ---------------------------------------------------------------------------------------------------------
# encoding for the extracted model
# ---------------------------------------------------------------------------------------------------------

def zo(x):
    return '-' if x is None else str(int(x))


def zl(xs):
    return '-' if xs is None else ' '.join([str(len(xs))] + [str(int(x)) for x in xs])


def file_tokens(msgs, fsize):
    return ' '.join([str(fsize), str(len(msgs))] + ['%d %d %d %d %s' % (m['off'], m['size'], m['type'], m['src'], zo(m['t8'])) for m in msgs])


def cfg_tokens(max_bytes, flags):
    return zo(max_bytes) + ' ' + ' '.join('1' if f else '0' for f in flags)


def range_tokens(rs):
    """rs: normalised TimeRange state in eighths (as floats from the harness) or None"""
    if rs is None:
        return '-'
    for k in ('start', 'end', 't0'):
        if rs[k] is not None and rs[k] != int(rs[k]):
            raise ValueError('range value not a multiple of 1/8 s: %r' % (rs,))
    return 'R %s %s %s %s' % (zo(rs['start']), zo(rs['end']), '1' if rs['abs'] else '0', zo(rs['t0']))


def normalise_range(spec):
    """the interval a time range means, as TimeRange documents it (C13's subject): absolute when told so, otherwise
    absolute iff start or end is a Timestamp (valid or not); an invalid Timestamp is an open end; an absolute start
    of 0 is an open start.  Endpoint representations: spec['rs'] / spec['re'] in 'f' (float), 't' (Timestamp),
    'x' (invalid Timestamp()); spec['ts'] = both Timestamps."""
    if spec is None:
        return None
    both = 't' if spec.get('ts') else 'f'
    rs, re_ = spec.get('rs', both), spec.get('re', both)
    s = None if rs == 'x' else spec['start']
    e = None if re_ == 'x' else spec['end']
    is_ts = lambda rep, v: rep == 'x' or (rep == 't' and v is not None)
    absolute = spec['abs']
    if absolute is None:
        absolute = is_ts(rs, spec['start']) or is_ts(re_, spec['end'])
    if absolute and s == 0:
        s = None
    return {'start': s, 'end': e, 'abs': bool(absolute), 't0': spec.get('t0')}


# ---------------------------------------------------------------------------------------------------------
# canonical expectation from a model / spec output
# ---------------------------------------------------------------------------------------------------------

def expected_pieces(tok, data, by_off):
    """tok: 'off:H0,P0,B0_48,O0,I0' -> list of [tag, value] as harness/py/c10_logs.canon_result prints them"""
    off, _, ps = tok.partition(':')
    out = []
    for p in [x for x in ps.split(',') if x]:
        t, v = p[0], p[1:]
        if t == 'H':
            o = int(v); out.append(['H', data[o:o + HEADER_SIZE].hex()])
        elif t == 'P':
            m = by_off[int(v)]
            out.append(['P', None if m['cls'] is None else [m['cls'], m['t8']]])
        elif t == 'B':
            o, s = v.split('_'); out.append(['B', data[int(o):int(o) + int(s)].hex()])
        else:
            out.append([t, int(v)])
    return int(off), out


def parse_read(line, data, by_off):
    """'OK tok tok ...' | 'ERR X' -> ('ok', [(off, pieces)...]) | ('err', X)"""
    w = line.split()
    if not w:
        return ('bad', line)
    if w[0] == 'ERR':
        return ('err', w[1])
    if w[0] != 'OK':
        return ('bad', line)
    return ('ok', [expected_pieces(t, data, by_off) for t in w[1:]])


# ---------------------------------------------------------------------------------------------------------
# running the implementation harness
# ---------------------------------------------------------------------------------------------------------

def run_impl(script, cases, tmpdir, tag, nproc=None, timeout=1500):
    """cases: list of dicts with 'id' and 'logkey'.  Cases of the same log go to the same shard, so every log file is
    written once.  Returns {id: output dict}."""
    nproc = nproc or vf.NCPU
    groups = {}
    for c in cases:
        groups.setdefault(c['logkey'], []).append(c)
    # a log with very many cases is split into chunks; every shard process writes its own copy of the log files
    chunk = max(50, len(cases) // (4 * nproc))
    chunks = []
    for g in groups.values():
        chunks += [g[i:i + chunk] for i in range(0, len(g), chunk)]
    k = max(1, min(nproc, len(chunks)))
    shards = [[] for _ in range(k)]
    for g in sorted(chunks, key=len, reverse=True):
        min(shards, key=len).extend(g)
    procs = []
    for i, sh_ in enumerate(shards):
        if not sh_:
            continue
        logdir = os.path.join(tmpdir, 'logs', '%s-%d' % (tag, i))
        os.makedirs(logdir, exist_ok=True)
        cp = os.path.join(tmpdir, '%s-cases-%d.jsonl' % (tag, i))
        op = os.path.join(tmpdir, '%s-out-%d.jsonl' % (tag, i))
        with open(cp, 'w') as f:
            for c in sh_:
                f.write(json.dumps(c) + '\n')
        p = subprocess.Popen([vf.PY, os.path.join(HERE, script), cp, op, logdir], env=vf.IMPL_ENV,
                             stdout=subprocess.PIPE, stderr=subprocess.PIPE, text=True)
        procs.append((p, op, len(sh_)))
    out = {}
    for p, op, n in procs:
        try:
            so, se = p.communicate(timeout=timeout)
        except subprocess.TimeoutExpired:
            p.kill()
            raise RuntimeError('implementation harness %s timed out' % script)
        se = '\n'.join(l for l in se.split('\n') if 'leap' not in l.lower() and l.strip())
        if p.returncode != 0:
            raise RuntimeError('implementation harness %s failed: %s' % (script, se[-2000:]))
        lines = open(op).read().split('\n')
        lines = [l for l in lines if l]
        if len(lines) != n:
            raise RuntimeError('implementation harness %s wrote %d lines for %d cases' % (script, len(lines), n))
        for l in lines:
            o = json.loads(l)
            out[o['id']] = o
    return out


def coqchk(ctx, pid):
    """thorough tier: re-check the property's .vo closure with the independent checker and record its axiom list"""
    rc, so, se = vf.sh('timeout 1200 coqchk -silent -o -R theories FEC FEC.Properties.%s' % pid, cwd=vf.COQ, timeout=1260)
    out = so + se
    i = out.find('CONTEXT SUMMARY')
    summary = ' '.join(out[i:].split()) if i >= 0 else out[-400:]
    ok = rc == 0 and '* Axioms: <none>' in summary and 'type-in-type: <none>' in summary and 'unsafe (co)fixpoints: <none>' in summary \
        and 'positivity is assumed: <none>' in summary
    ctx.obligation('coqchk -o on the closure of Properties/%s.vo: no axioms, no assumed positivity / guard / universes' % pid, ok, 'coqchk', summary[:600])
    if not ok:
        ctx.broken_proof('coqchk does not accept the development or reports axioms: ' + summary[:300])
    return ok
