"""C06 IMPL runner (Python side): line protocol mirrored by ocaml/c06_driver.ml.
  C <hex|-> <init>            zlib.crc32(data, init)           (the crc32 that messages/defs.py imports)
  S <hex|-> <k>               crc32(b[k:], crc32(b[:k]))
  HC t:v:seq:src:hex          MessageHeader.calculate_crc(payload) -> "<crc> <payload_size_bytes>" | ERR:<exc>
  ENC <seq0> t:v:src:hex,...  one encoder, sequence_number preset to seq0, one encode_message per call on a payload
                              object exposing get_type/get_version/pack -> outputs (hex|ERR:<exc>) joined by ',', final counter
  CLASSES                     names of registered payload classes whose default instance packs
  ENCOBJ <seq0> <src> <Class> encode a default instance -> "<out hex> <type> <version> <payload hex>"
  VV <hdrmsg hex> <off> <buf hex>...  one MessageHeader parsed from hdrmsg, validate_crc(buf, off) on each buffer in turn
                              -> outcomes joined by ',', then the header's crc and payload_size_bytes afterwards
  B <hex> / E <off> <xorhex> ...  analysis of the (corrupted) base: V=<ok|big|notenough|mismatch|short> D=<off:len;...|->
                              V: MessageHeader().unpack(buf, validate_crc=True); D: FusionEngineDecoder().on_data(buf)
"""
import logging, struct, sys
logging.disable(logging.CRITICAL)
from fusion_engine_client.messages import MessageHeader, MessagePayload, MessageType, message_type_to_class
from fusion_engine_client.messages import defs as _defs
from fusion_engine_client.parsers.encoder import FusionEngineEncoder
from fusion_engine_client.parsers.decoder import FusionEngineDecoder

crc32 = _defs.crc32


class Raw:
    """a payload object as encode_message sees it"""
    def __init__(self, t, v, data):
        self.t, self.v, self.data = t, v, data

    def get_type(self):
        return self.t

    def get_version(self):
        return self.v

    def pack(self, buffer=None, offset=0, return_buffer=True):
        return self.data


def unhex(h):
    return bytes.fromhex('' if h == '-' else h)


def analysis(buf):
    h = MessageHeader()
    try:
        h.unpack(buf, validate_crc=True, warn_on_unrecognized=False)
        v = 'ok'
    except ValueError as e:
        s = str(e)
        v = 'big' if 'sanity' in s else ('notenough' if 'Not enough data' in s else 'mismatch' if 'CRC mismatch' in s else 'ValueError:' + s[:30].replace(' ', '_'))
    except struct.error:
        v = 'short'
    d = FusionEngineDecoder(warn_on_error=FusionEngineDecoder.WarnOnError.NONE, return_bytes=True, return_offset=True)
    res = d.on_data(buf)
    fr = ';'.join('%d:%d' % (r[3], len(r[2])) for r in res) or '-'
    return 'V=%s D=%s' % (v, fr)


def main():
    base = b''
    out = sys.stdout
    for line in sys.stdin:
        w = line.split()
        try:
            if not w:
                r = '?'
            elif w[0] == 'C':
                r = str(crc32(unhex(w[1]), int(w[2])))
            elif w[0] == 'S':
                b, k = unhex(w[1]), int(w[2])
                r = str(crc32(b[k:], crc32(b[:k])))
            elif w[0] == 'HC':
                t, v, seq, src, hx = w[1].split(':')
                h = MessageHeader(int(t))
                h.message_version, h.sequence_number, h.source_identifier = int(v), int(seq), int(src)
                try:
                    c = h.calculate_crc(unhex(hx))
                    r = '%d %d' % (c, h.payload_size_bytes)
                except Exception as e:
                    r = 'ERR:' + type(e).__name__
            elif w[0] == 'ENC':
                enc = FusionEngineEncoder()
                enc.sequence_number = int(w[1])
                outs = []
                for c in w[2].split(','):
                    t, v, src, hx = c.split(':')
                    try:
                        outs.append(bytes(enc.encode_message(Raw(int(t), int(v), unhex(hx)), int(src))).hex())
                    except Exception as e:
                        outs.append('ERR:' + type(e).__name__)
                r = ','.join(outs) + ' ' + str(getattr(enc, 'sequence_number', '?'))
            elif w[0] == 'CLASSES':
                names = []
                for t, cls in sorted(message_type_to_class.items(), key=lambda kv: int(kv[0])):
                    try:
                        o = cls()
                        bytes(o.pack())
                        int(o.get_type()); int(o.get_version())
                        names.append(cls.__name__)
                    except Exception:
                        pass
                r = ' '.join(names) or '-'
            elif w[0] == 'ENCOBJ':
                cls = {c.__name__: c for c in message_type_to_class.values()}[w[3]]
                o = cls()
                enc = FusionEngineEncoder()
                enc.sequence_number = int(w[1])
                data = enc.encode_message(o, int(w[2]))
                r = '%s %d %d %s' % (bytes(data).hex(), int(o.get_type()), int(o.get_version()), bytes(o.pack()).hex() or '-')
            elif w[0] == 'VV':
                # one header object (parsed from w[1]) validating a sequence of buffers at offset w[2]
                h = MessageHeader()
                h.unpack(unhex(w[1]), warn_on_unrecognized=False)
                off, rs = int(w[2]), []
                for bx in w[3:]:
                    try:
                        h.validate_crc(unhex(bx), off)
                        rs.append('ok')
                    except ValueError as e:
                        t = str(e)
                        rs.append('big' if 'sanity' in t else ('notenough' if 'Not enough data' in t else 'mismatch' if 'CRC mismatch' in t else 'ValueError'))
                r = ','.join(rs) + ' %d %d' % (h.crc, h.payload_size_bytes)
            elif w[0] == 'B':
                base = unhex(w[1])
                r = analysis(base)
            elif w[0] == 'E':
                b = bytearray(base)
                for j in range(1, len(w) - 1, 2):
                    off, x = int(w[j]), unhex(w[j + 1])
                    for i, xb in enumerate(x):
                        if off + i < len(b):
                            b[off + i] ^= xb
                r = analysis(bytes(b))
            else:
                r = '?'
        except Exception as e:  # the runner must answer every line
            r = 'HARNESS-ERR:' + type(e).__name__ + ':' + str(e)[:60].replace(' ', '_')
        out.write(r + '\n')
    out.flush()


main()
