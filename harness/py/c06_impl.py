"""C06 IMPL runner (Python side): line protocol mirrored by ocaml/c06_driver.ml.
  C <hex|-> <init>            zlib.crc32(data, init)           (the crc32 that messages/defs.py imports)
  S <hex|-> <k>               crc32(b[k:], crc32(b[:k]))
  HC t:v:seq:src:hex          MessageHeader.calculate_crc(payload) -> "<crc> <payload_size_bytes>" | ERR:<exc>
  ENC <seq0> t:v:src:hex[:form],...  one encoder, sequence_number preset to seq0, one encode_message per call on a payload
                              object exposing get_type/get_version/pack -> outputs (hex|ERR:<exc>) joined by ',', final counter
  CLASSES                     names of registered payload classes whose default instance packs
  ENCOBJ <seq0> <src> <Class> encode a default instance -> "<out hex> <type> <version> <payload hex>"
  VV <hdrmsg hex> <off> <buf hex>...  one MessageHeader parsed from hdrmsg, validate_crc(buf, off) on each buffer in turn
                              -> outcomes joined by ',', then the header's crc and payload_size_bytes afterwards
  HH <op> ...                 a history on ONE MessageHeader object; ops (fields separated by ':'):
                              N:t new header of type t | S:ver:seq:src[:crc:reserved] set fields | F fields dump
                              U:hex unpack(validate_crc=True) | V:hex:off validate_crc(buf, off) | C:hex:form calculate_crc
                              P pack() | Q:hex:form pack(payload=) | B:hex:off:len pack(buffer=0xEE*len, offset=off, payload=)
                              form: b bytes, a bytearray, m memoryview.  Arguments must come back unmodified ("!..." otherwise)
  ST <opts> <chunking> <hex>  one FusionEngineDecoder fed the stream; opts k=v,... (woe warn_on_error, wu, wg, rb, ro, log);
                              chunking all | ints | n1,n2,... ; -> "<len>#<seq>#<crc>[@off];..." | EXC:<type>, then flags
  B <hex> / E <off> <xorhex> ...  analysis of the (corrupted) base: V=<ok|big|notenough|mismatch|short> D=<off:len;...|->
                              V: MessageHeader().unpack(buf, validate_crc=True); D: FusionEngineDecoder().on_data(buf)
"""
import logging, struct, sys
logging.disable(logging.CRITICAL)
from fusion_engine_client.messages import MessageHeader, MessagePayload, MessageType, message_type_to_class
from fusion_engine_client.messages import defs as _defs
from fusion_engine_client.parsers.encoder import FusionEngineEncoder
from fusion_engine_client.parsers.decoder import FusionEngineDecoder

crc32 = _defs.crc32


class Raw:
    """a payload object as encode_message sees it"""
    def __init__(self, t, v, data):
        self.t, self.v, self.data = t, v, data

    def get_type(self):
        return self.t

    def get_version(self):
        return self.v

    def pack(self, buffer=None, offset=0, return_buffer=True):
        return self.data


def form(data, f):
    return data if f == 'b' else (bytearray(data) if f == 'a' else memoryview(data))


def outcome(fn):
    try:
        fn()
        return 'ok'
    except ValueError as e:
        t = str(e)
        return 'big' if 'sanity' in t else ('notenough' if 'Not enough data' in t else 'mismatch' if 'CRC mismatch' in t else 'ValueError')
    except struct.error:
        return 'short'
    except Exception as e:
        return 'EXC:' + type(e).__name__


def history(ops):
    h = MessageHeader()
    out, dead = [], False
    for op in ops:
        w = op.split(':')
        if dead:
            out.append('-'); continue
        try:
            if w[0] == 'N':
                h = MessageHeader(int(w[1])); r = 'new'
            elif w[0] == 'S':
                h.message_version, h.sequence_number, h.source_identifier = int(w[1]), int(w[2]), int(w[3])
                if len(w) > 4:
                    h.crc, h.reserved = int(w[4]), int(w[5])
                r = 'set'
            elif w[0] == 'F':
                r = ','.join(str(int(x)) for x in (h.reserved, h.crc, h.protocol_version, h.message_version, h.message_type,
                                                   h.sequence_number, h.payload_size_bytes, h.source_identifier))
            elif w[0] == 'U':
                b = unhex(w[1]); r = outcome(lambda: h.unpack(b, validate_crc=True, warn_on_unrecognized=False))
            elif w[0] == 'V':
                b = unhex(w[1]); keep = bytes(b)
                arg = [b, bytearray(b), memoryview(b)][len(b) % 3]
                r = outcome(lambda: h.validate_crc(arg, int(w[2])))
                if bytes(arg) != keep:
                    r += '!buffer-modified'
            elif w[0] in ('C', 'Q', 'B'):
                data = unhex(w[1]); arg = form(data, w[2] if w[0] != 'B' else 'b')
                if w[0] == 'C':
                    r = str(h.calculate_crc(arg))
                elif w[0] == 'Q':
                    res = h.pack(payload=arg)
                    r = bytes(res).hex()
                    if isinstance(arg, bytearray) and isinstance(res, bytearray):
                        res[-1:] = b'\x00' if res[-1:] != b'\x00' else b'\x01'
                        if bytes(arg) != data:
                            r += '!result-aliases-payload'
                else:
                    off, blen = int(w[2]), int(w[3])
                    buf = bytearray(b'\xee' * blen)
                    ret = h.pack(buffer=buf, offset=off, payload=data)
                    r = bytes(buf).hex()
                    if len(buf) != blen:
                        r += '!buffer-resized'
                    if ret is not buf and bytes(ret) != bytes(buf):
                        r += '!returned-buffer-differs'
                if bytes(arg) != data:
                    r += '!payload-modified'
            elif w[0] == 'P':
                r = bytes(h.pack()).hex()
            else:
                r = '?'
        except struct.error:
            r, dead = 'ERR', True
        except Exception as e:
            r, dead = 'EXC:' + type(e).__name__, True
        out.append(r)
    return ' '.join(out)


import io
_FE_LOGGER = logging.getLogger('point_one.fusion_engine')
_LOG_SINK = logging.StreamHandler(io.StringIO())


def stream(opts, chunking, data):
    o = dict(kv.split('=') for kv in opts.split(',') if kv)
    woe = {'none': 'none', 'likely': 'likely', 'all': 'all', 'True': True, 'False': False,
           'NONE': FusionEngineDecoder.WarnOnError.NONE, 'LIKELY': FusionEngineDecoder.WarnOnError.LIKELY, 'ALL': FusionEngineDecoder.WarnOnError.ALL}[o.get('woe', 'NONE')]
    rb, ro = o.get('rb', '1') == '1', o.get('ro', '1') == '1'
    lvl = {'off': None, 'warn': logging.WARNING, 'debug': logging.DEBUG, 'trace': 1}[o.get('log', 'off')]
    old_level = _FE_LOGGER.level
    if lvl is not None:
        logging.disable(logging.NOTSET)
        _LOG_SINK.stream = io.StringIO()
        _FE_LOGGER.addHandler(_LOG_SINK); _FE_LOGGER.setLevel(lvl); _FE_LOGGER.propagate = False
    flags = []
    try:
        d = FusionEngineDecoder(warn_on_error=woe, warn_on_unrecognized=o.get('wu', '0') == '1', warn_on_gap=o.get('wg', '0') == '1',
                                return_bytes=rb, return_offset=ro)
        seen = []
        d.add_callback(None, lambda *a: seen.append(a))
        if chunking == 'all':
            chunks = [data]
        elif chunking == 'ints':
            chunks = list(data)
        else:
            sizes, chunks, i, k = [int(x) for x in chunking.split(',')], [], 0, 0
            while i < len(data):
                n = max(1, sizes[k % len(sizes)]); chunks.append(data[i:i + n]); i += n; k += 1
        results, snaps = [], []
        for c in chunks:
            for r in d.on_data(c):
                results.append(r)
                snaps.append((bytes(r[2]) if rb else None, bytes(r[1]) if isinstance(r[1], (bytes, bytearray)) else None))
        fr = []
        for r, (raw, pl) in zip(results, snaps):
            h = r[0]
            t = '%d#%d#%d' % (24 + h.payload_size_bytes, h.sequence_number, h.crc)
            if ro:
                t += '@%d' % r[-1]
            fr.append(t)
            if rb and (bytes(r[2]) != raw or len(raw) != 24 + h.payload_size_bytes):
                flags.append('!returned-bytes-changed-later')
            if pl is not None and bytes(r[1]) != pl:
                flags.append('!returned-payload-changed-later')
        if len(seen) != len(results):
            flags.append('!callbacks=%d' % len(seen))
        out = ';'.join(fr) or '-'
    except Exception as e:
        out = 'EXC:' + type(e).__name__
    finally:
        if lvl is not None:
            _FE_LOGGER.removeHandler(_LOG_SINK); _FE_LOGGER.setLevel(old_level); _FE_LOGGER.propagate = True
            logging.disable(logging.CRITICAL)
    return out + ''.join(sorted(set(flags)))


def unhex(h):
    return bytes.fromhex('' if h == '-' else h)


def analysis(buf):
    h = MessageHeader()
    try:
        h.unpack(buf, validate_crc=True, warn_on_unrecognized=False)
        v = 'ok'
    except ValueError as e:
        s = str(e)
        v = 'big' if 'sanity' in s else ('notenough' if 'Not enough data' in s else 'mismatch' if 'CRC mismatch' in s else 'ValueError:' + s[:30].replace(' ', '_'))
    except struct.error:
        v = 'short'
    except Exception as e:
        v = 'EXC:' + type(e).__name__
    d = FusionEngineDecoder(warn_on_error=FusionEngineDecoder.WarnOnError.NONE, return_bytes=True, return_offset=True)
    try:
        res = d.on_data(buf)
        fr = ';'.join('%d:%d' % (r[3], len(r[2])) for r in res) or '-'
    except Exception as e:
        fr = 'EXC:' + type(e).__name__
    return 'V=%s D=%s' % (v, fr)


def main():
    base = b''
    out = sys.stdout
    for line in sys.stdin:
        w = line.split()
        try:
            if not w:
                r = '?'
            elif w[0] == 'C':
                r = str(crc32(unhex(w[1]), int(w[2])))
            elif w[0] == 'S':
                b, k = unhex(w[1]), int(w[2])
                r = str(crc32(b[k:], crc32(b[:k])))
            elif w[0] == 'HC':
                t, v, seq, src, hx = w[1].split(':')
                h = MessageHeader(int(t))
                h.message_version, h.sequence_number, h.source_identifier = int(v), int(seq), int(src)
                try:
                    c = h.calculate_crc(unhex(hx))
                    r = '%d %d' % (c, h.payload_size_bytes)
                except Exception as e:
                    r = 'ERR:' + type(e).__name__
            elif w[0] == 'ENC':
                enc = FusionEngineEncoder()
                enc.sequence_number = int(w[1])
                outs = []
                for c in w[2].split(','):
                    f = c.split(':')
                    t, v, src, hx = f[:4]
                    data = unhex(hx)
                    arg = form(data, f[4] if len(f) > 4 else 'b')
                    obj = Raw(int(t), int(v), arg)
                    try:
                        res = enc.encode_message(obj, int(src))
                        o = bytes(res).hex()
                        if bytes(arg) != data or obj.data is not arg:
                            o += '!payload-modified'
                        if isinstance(res, bytearray) and isinstance(arg, bytearray):
                            res[-1:] = b'\x00' if res[-1:] != b'\x00' else b'\x01'
                            if bytes(arg) != data:
                                o += '!result-aliases-payload'
                        outs.append(o)
                    except Exception as e:
                        outs.append('ERR:' + type(e).__name__)
                r = ','.join(outs) + ' ' + str(getattr(enc, 'sequence_number', '?'))
            elif w[0] == 'CLASSES':
                names = []
                for t, cls in sorted(message_type_to_class.items(), key=lambda kv: int(kv[0])):
                    try:
                        o = cls()
                        bytes(o.pack())
                        int(o.get_type()); int(o.get_version())
                        names.append(cls.__name__)
                    except Exception:
                        pass
                r = ' '.join(names) or '-'
            elif w[0] == 'ENCOBJ':
                cls = {c.__name__: c for c in message_type_to_class.values()}[w[3]]
                o = cls()
                enc = FusionEngineEncoder()
                enc.sequence_number = int(w[1])
                data = enc.encode_message(o, int(w[2]))
                r = '%s %d %d %s' % (bytes(data).hex(), int(o.get_type()), int(o.get_version()), bytes(o.pack()).hex() or '-')
            elif w[0] == 'HH':
                r = history(w[1:])
            elif w[0] == 'ST':
                r = stream(w[1], w[2], unhex(w[3]))
            elif w[0] == 'VV':
                # one header object (parsed from w[1]) validating a sequence of buffers at offset w[2]
                h = MessageHeader()
                h.unpack(unhex(w[1]), warn_on_unrecognized=False)
                off, rs = int(w[2]), []
                for bx in w[3:]:
                    try:
                        h.validate_crc(unhex(bx), off)
                        rs.append('ok')
                    except ValueError as e:
                        t = str(e)
                        rs.append('big' if 'sanity' in t else ('notenough' if 'Not enough data' in t else 'mismatch' if 'CRC mismatch' in t else 'ValueError'))
                r = ','.join(rs) + ' %d %d' % (h.crc, h.payload_size_bytes)
            elif w[0] == 'B':
                base = unhex(w[1])
                r = analysis(base)
            elif w[0] == 'E':
                b = bytearray(base)
                for j in range(1, len(w) - 1, 2):
                    off, x = int(w[j]), unhex(w[j + 1])
                    for i, xb in enumerate(x):
                        if off + i < len(b):
                            b[off + i] ^= xb
                r = analysis(bytes(b))
            else:
                r = '?'
        except Exception as e:  # the runner must answer every line
            r = 'HARNESS-ERR:' + type(e).__name__ + ':' + str(e)[:60].replace(' ', '_')
        out.write(r + '\n')
    out.flush()


main()
