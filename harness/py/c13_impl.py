"""C13 IMPL runner: the line protocol of ocaml/c13_driver.ml executed on the real TimeRange class.
Only the public interface is used (constructor arguments, is_in_range, restart, make_absolute, intersect,
parse); private attributes are read with getattr for the advisory state column and 'NA' when absent.
Times are integers on a 1/8 s grid -> exact binary64 values."""
import math
import sys

from fusion_engine_client.messages import (EventNotificationMessage, IMUInput, MessageRequest, PoseMessage,
                                           Timestamp)
from fusion_engine_client.utils.time_range import TimeRange

G = 8.0


def bound(tok):
    if tok == 'N':
        return None
    k, r = tok[0], tok[1:]
    v = math.inf if r == 'i' else -math.inf if r == 'n' else math.nan if r == 'x' else int(r) / G
    if k == 'F':
        return v
    if k == 'T':
        return Timestamp(v)
    raise ValueError(tok)


def mk_range(a, b, c, d, t0_as_float=False):
    absolute = None if c == '-' else (c == '1')
    if d == '-':
        t0 = None
    elif d == 'x':
        t0 = Timestamp()
    else:
        t0 = int(d) / G if t0_as_float else Timestamp(int(d) / G)
    return TimeRange(start=bound(a), end=bound(b), absolute=absolute, p1_t0=t0)


def mk_msg(tok):
    k = tok[0]
    if k == 'u':
        return b'\x01\x02'                      # not a MessagePayload
    if k == 's':
        m = EventNotificationMessage(); m.system_time_ns = 41_000_000_000; return m
    if k == 'n':
        m = PoseMessage(); m.p1_time = Timestamp(); return m      # P1 time present but NaN
    if k == 'v':
        return MessageRequest()                 # payload with neither P1 nor system time
    if k == 'p':
        m = PoseMessage(); m.p1_time = Timestamp(int(tok[1:]) / G); return m
    if k == 'd':
        m = IMUInput(); m.details.p1_time = Timestamp(int(tok[1:]) / G); return m
    raise ValueError(tok)


def grid(x):
    if x is None:
        return 'None'
    x = float(x)
    if math.isnan(x):
        return 'None'
    if math.isinf(x):
        return 'inf' if x > 0 else '-inf'
    y = x * G
    return str(int(y)) if y == int(y) else repr(x)


_NA = object()


def state(r):
    def b(name):
        v = getattr(r, name, _NA)
        return 'NA' if v is _NA else ('1' if v else '0')

    def g(name):
        v = getattr(r, name, _NA)
        if v is _NA:
            return 'NA'
        try:
            return grid(v)
        except Exception:
            return 'NA'
    return ' '.join([b('_in_range_started'), b('_in_range_ended'), g('p1_t0'), g('start'), g('end'), b('absolute')])


def apply_ops(r, ops, with_ts=False):
    out = []
    if ops != '-':
        for tok in ops.split(','):
            if tok == 'r':
                r.restart()
            else:
                m = mk_msg(tok)
                if with_ts:
                    res = r.is_in_range(m, return_timestamps=True)
                    v = res[0]
                else:
                    v = r.is_in_range(m)
                out.append('1' if v else '0')
    return (''.join(out) or '-') + '|' + state(r)


def handle(w):
    cmd = w[0]
    if cmd == 'R':
        a, b, c, d, ops, flags = w[1:7]
        return apply_ops(mk_range(a, b, c, d, 'f' in flags), ops, 't' in flags)
    if cmd == 'I':
        A = mk_range(*w[1:5]); B = mk_range(*w[5:9]); inplace, ops = w[9], w[10]
        try:
            R = A.intersect(B) if inplace == '1' else A.intersect(B, in_place=False)
        except ValueError:
            return 'E'
        return apply_ops(R, ops)
    if cmd == 'A':
        r = mk_range(*w[1:5]); t, twice, ops = w[5], w[6], w[7]
        t0 = None if t == '-' else Timestamp(int(t) / G)
        try:
            r = r.make_absolute(t0)
            if twice == '1':
                r = r.make_absolute(t0)
        except ValueError:
            return 'E'
        return apply_ops(r, ops)
    if cmd == 'P':
        s = bytes.fromhex('' if w[1] == '-' else w[1]).decode('latin1')
        ab = None if w[2] == '-' else (w[2] == '1')
        try:
            r = TimeRange.parse(s) if ab is None else TimeRange.parse(s, absolute=ab)
        except ValueError:
            return 'E'
        return apply_ops(r, w[3])
    if cmd == 'PS':          # spec-only line: the text is rendered by the caller and sent as P
        return '-'
    if cmd == 'Q':
        a, b, ty, ab, ops = w[1:6]
        ab = None if ab == '-' else (ab == '1')
        t = (bound(a), bound(b)) if ty == '-' else (bound(a), bound(b), bytes.fromhex(ty).decode('latin1'))
        try:
            r = TimeRange.parse(t, absolute=ab)
        except ValueError:
            return 'E'
        return apply_ops(r, ops)
    if cmd == 'T':
        r = mk_range(*w[1:5]); ab, ops = w[5], w[6]
        try:
            r2 = TimeRange.parse(r) if ab == '-' else TimeRange.parse(r, absolute=(ab == '1'))
        except ValueError:
            return 'E'
        return apply_ops(r2, ops)
    return '?'


def main():
    out = []
    for line in sys.stdin:
        w = line.split()
        if not w:
            out.append('?'); continue
        if w[0] in ('M', 'L', 'S'):
            w = w[1:]
        try:
            out.append(handle(w))
        except Exception as e:      # anything but the documented ValueError is reported verbatim
            out.append('!%s:%s' % (type(e).__name__, str(e).replace('\n', ' ')[:120]))
    sys.stdout.write('\n'.join(out) + '\n')


main()
