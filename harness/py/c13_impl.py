"""C13 IMPL runner: the line protocol of ocaml/c13_driver.ml executed on the real TimeRange class.
Only the public interface is used (constructor arguments, is_in_range, restart, make_absolute, intersect,
parse); private attributes are read with getattr for the advisory state column and 'NA' when absent.
Times are integers on a 1/8 s grid -> exact binary64 values."""
import copy
import math
import sys

import numpy as np

from fusion_engine_client.messages import (EventNotificationMessage, IMUInput, MessageRequest, PoseMessage,
                                           Timestamp)
from fusion_engine_client.utils.time_range import TimeRange

G = 8.0


def bound(tok):
    if tok == 'N':
        return None
    k, r = tok[0], tok[1:]
    v = math.inf if r == 'i' else -math.inf if r == 'n' else math.nan if r == 'x' else int(r) / G
    if k == 'F':
        return v
    if k == 'T':
        return Timestamp(v)
    if k == 'J':                                   # Python int (whole seconds)
        return int(v) if v == int(v) else v
    if k == 'D':
        return np.float64(v)
    if k == 'E':
        return np.float32(v)
    if k == 'K':
        return np.int64(v) if v == int(v) else np.float64(v)
    raise ValueError(tok)


ARG_CHECKS = []      # (object, repr before) of every Timestamp handed to the constructor: must be unchanged at the end


def mk_range(a, b, c, d, t0_form=''):
    absolute = None if c == '-' else (c == '1')
    if d == '-':
        t0 = None
    elif d == 'x':
        t0 = Timestamp()
    elif 'f' in t0_form:
        t0 = int(d) / G
    elif 'i' in t0_form and int(d) % 8 == 0:
        t0 = int(d) // 8
    elif 'n' in t0_form:
        t0 = np.float64(int(d) / G)
    else:
        t0 = Timestamp(int(d) / G)
    st, en = bound(a), bound(b)
    for x in (st, en, t0):
        if isinstance(x, Timestamp):
            ARG_CHECKS.append((x, repr(x.seconds)))
    if absolute is None and 'o' in t0_form:          # `absolute` omitted altogether rather than passed as None
        return TimeRange(start=st, end=en, p1_t0=t0)
    if 'p' in t0_form:                               # positional arguments
        return TimeRange(st, en, absolute, t0)
    return TimeRange(start=st, end=en, absolute=absolute, p1_t0=t0)


def args_intact():
    ok = all(repr(x.seconds) == before for x, before in ARG_CHECKS)
    del ARG_CHECKS[:]
    return ok


def mk_msg(tok):
    k = tok[0]
    if k == 'u':
        return b'\x01\x02'                      # not a MessagePayload
    if k == 's':
        m = EventNotificationMessage(); m.system_time_ns = 41_000_000_000; return m
    if k == 'n':
        m = PoseMessage(); m.p1_time = Timestamp(); return m      # P1 time present but NaN
    if k == 'v':
        return MessageRequest()                 # payload with neither P1 nor system time
    if k == 'p':
        m = PoseMessage(); m.p1_time = Timestamp(int(tok[1:]) / G); return m
    if k == 'd':
        m = IMUInput(); m.details.p1_time = Timestamp(int(tok[1:]) / G); return m
    raise ValueError(tok)


def grid(x):
    if x is None:
        return 'None'
    x = float(x)
    if math.isnan(x):
        return 'None'
    if math.isinf(x):
        return 'inf' if x > 0 else '-inf'
    y = x * G
    return str(int(y)) if y == int(y) else repr(x)


_NA = object()


def state(r):
    def b(name):
        v = getattr(r, name, _NA)
        return 'NA' if v is _NA else ('1' if v else '0')

    def g(name):
        v = getattr(r, name, _NA)
        if v is _NA:
            return 'NA'
        try:
            return grid(v)
        except Exception:
            return 'NA'
    return ' '.join([b('_in_range_started'), b('_in_range_ended'), g('p1_t0'), g('start'), g('end'), b('absolute')])


def msg_sig(m):
    if not hasattr(m, 'get_p1_time'):
        return repr(m)
    t = m.get_p1_time()
    return (type(m).__name__, None if t is None else repr(t.seconds), repr(m.get_system_time_ns()))


def one_message(r, tok, with_ts=False):
    m = mk_msg(tok)
    before = msg_sig(m)
    if with_ts:
        res = r.is_in_range(m, return_timestamps=True)
        v = res[0]
        want_p1 = m.get_p1_time() if hasattr(m, 'get_p1_time') else None
        want_sys = m.get_system_time_ns() if hasattr(m, 'get_system_time_ns') else None
        if len(res) != 3 or res[1] is not want_p1 or repr(res[2]) != repr(want_sys):
            raise AssertionError('return_timestamps returned %r for %s' % (res[1:], tok))
    else:
        v = r.is_in_range(m)
    if not isinstance(v, (bool, np.bool_)):
        raise AssertionError('is_in_range returned %r' % (v,))
    if msg_sig(m) != before:
        raise AssertionError('message %s was modified by is_in_range' % tok)
    return '1' if v else '0'


def getters(r):
    return ('1' if r.is_specified() else '0') + ('1' if r.in_range_started() else '0')


def apply_ops(r, ops, with_ts=False):
    out = []
    if ops != '-':
        for tok in ops.split(','):
            if tok == 'r':
                r.restart()
            else:
                out.append(one_message(r, tok, with_ts))
    if not args_intact():
        raise AssertionError('a Timestamp passed to the constructor was modified')
    return (''.join(out) or '-') + ';' + getters(r) + '|' + state(r)


def snap(o):
    """everything the object holds, by value (Timestamps as their seconds)"""
    return repr(sorted((k, repr(v.seconds) if isinstance(v, Timestamp) else repr(v)) for k, v in vars(o).items()))


def history(w):
    n = int(w[1])
    objs = {i: mk_range(*w[2 + 4 * i:6 + 4 * i]) for i in range(n)}
    out = []
    for st in w[2 + 4 * n].split(','):
        c, rest = st[0], st[1:]
        # a step on a name that an earlier refused (ValueError) step did not create is skipped
        used = [int(rest.split('.')[0])] + ([int(rest.split('.')[1])] if c == 'x' else [])
        if any(u not in objs for u in used):
            out.append('~'); continue
        if c == 'm':
            i, _, tok = rest.partition('.')
            r = objs[int(i)]
            if tok == 'r':
                r.restart(); out.append('.')
            else:
                out.append(one_message(r, tok))
            continue
        f = rest.split('.')
        if c == 'x':
            i, j, k, ip = map(int, f)
            a, b = objs[i], objs[j]
            sa, sb = snap(a), snap(b)
            try:
                res = a.intersect(b) if ip else a.intersect(b, in_place=False)
            except ValueError:
                out.append('E' + ('M' if (snap(a), snap(b)) != (sa, sb) and a is not b else ''))
                continue
            objs[k] = res
            fl = ('s' if res is a else '') + ('o' if res is b and b is not a else '')
            if a is not b and snap(b) != sb:
                fl += 'M'
            if not ip and res is not a and snap(a) != sa:
                fl += 'M'
            out.append('.' + fl)
        elif c == 'a':
            r = objs[int(f[0])]
            t = None if f[1] == '-' else Timestamp(int(f[1]) / G)
            try:
                res = r.make_absolute(t)
                out.append('.' if res is r else '.?')
            except ValueError:
                out.append('E')
        elif c == 'b':
            r = objs[int(f[0])]
            t = None if f[2] == '-' else Timestamp(int(f[2]) / G)
            sa = snap(r)
            try:
                res = r.make_absolute(t, in_place=False)
            except ValueError:
                out.append('E' + ('M' if snap(r) != sa else ''))
                continue
            objs[int(f[1])] = res
            out.append('.' + ('s' if res is r else '') + ('M' if snap(r) != sa else ''))
        elif c in 'cd':
            r = objs[int(f[0])]
            sa = snap(r)
            res = copy.copy(r) if c == 'c' else copy.deepcopy(r)
            objs[int(f[1])] = res
            out.append('.' + ('s' if res is r else '') + ('M' if snap(r) != sa or snap(res) != sa else ''))
        elif c == 'q':
            r = objs[int(f[0])]
            ab = None if f[2] == '-' else (f[2] == '1')
            try:
                res = TimeRange.parse(r) if ab is None else TimeRange.parse(r, absolute=ab)
            except ValueError:
                out.append('E'); continue
            objs[int(f[1])] = res
            out.append('.' + ('s' if res is r else ''))
        else:
            raise ValueError(st)
    if not args_intact():
        raise AssertionError('a Timestamp passed to the constructor was modified')
    names = sorted(objs)
    return ','.join(out) + ';' + ''.join(getters(objs[k]) for k in names) + '|' + '/'.join(state(objs[k]) for k in names)


def handle(w):
    cmd = w[0]
    if cmd == 'R':
        a, b, c, d, ops, flags = w[1:7]
        return apply_ops(mk_range(a, b, c, d, flags), ops, 't' in flags)
    if cmd == 'H':
        return history(w)
    if cmd == 'I':
        A = mk_range(*w[1:5]); B = mk_range(*w[5:9]); inplace, ops = w[9], w[10]
        try:
            R = A.intersect(B) if inplace == '1' else A.intersect(B, in_place=False)
        except ValueError:
            return 'E'
        return apply_ops(R, ops)
    if cmd == 'A':
        r = mk_range(*w[1:5]); t, twice, ops = w[5], w[6], w[7]
        t0 = None if t == '-' else Timestamp(int(t) / G)
        try:
            r = r.make_absolute(t0)
            if twice == '1':
                r = r.make_absolute(t0)
        except ValueError:
            return 'E'
        return apply_ops(r, ops)
    if cmd == 'P':
        s = bytes.fromhex('' if w[1] == '-' else w[1]).decode('latin1')
        ab = None if w[2] == '-' else (w[2] == '1')
        try:
            r = TimeRange.parse(s) if ab is None else TimeRange.parse(s, absolute=ab)
        except ValueError:
            return 'E'
        return apply_ops(r, w[3])
    if cmd == 'PS':          # spec-only line: the text is rendered by the caller and sent as P
        return '-'
    if cmd == 'Q':
        a, b, ty, ab, ops = w[1:6]
        ab = None if ab == '-' else (ab == '1')
        form = w[6] if len(w) > 6 else '-'
        t = (bound(a), bound(b)) if ty == '-' else (bound(a), bound(b), bytes.fromhex(ty).decode('latin1'))
        if '1' in form:
            t = (bound(a),)                 # one-element tuple: start only (the line must carry end = N, no type)
        if '4' in form:
            t = tuple(t) + ('abs', 'abs')[:4 - len(t)]
        if 'l' in form:
            t = list(t)
        try:
            r = TimeRange.parse(t, absolute=ab)
        except ValueError:
            return 'E'
        return apply_ops(r, ops)
    if cmd == 'T':
        r = mk_range(*w[1:5]); ab, ops = w[5], w[6]
        try:
            r2 = TimeRange.parse(r) if ab == '-' else TimeRange.parse(r, absolute=(ab == '1'))
        except ValueError:
            return 'E'
        return apply_ops(r2, ops)
    return '?'


def main():
    out = []
    for line in sys.stdin:
        w = line.split()
        if not w:
            out.append('?'); continue
        if w[0] in ('M', 'L', 'S'):
            w = w[1:]
        try:
            out.append(handle(w))
        except Exception as e:      # anything but the documented ValueError is reported verbatim
            out.append('!%s:%s' % (type(e).__name__, str(e).replace('\n', ' ')[:120]))
    sys.stdout.write('\n'.join(out) + '\n')


main()
