"""C15 IMPL runner: one JSON case per input line -> one result line.

case = {"mode": "N"|"D"|"I", "mt": null | [class names], "mt_as": "type"|"class", "scale": k,
        "entries": [{"cls": name, "msgs": [[t, id], ...]}, ...]}        (IMPL time = t / scale, or "nan")
An entry {"type": TYPE_NAME} (no "cls") is a MessageType without payload class (message_class None, no messages).
Special line {"flags": "*"} -> for every MessageType "<class or ->:<'p1_time' in cls().__dict__>:<hasattr(cls(),'p1_time')>:<int>:<TYPE_NAME>"

Result: "OK <entry>*" where <entry> = "R:" + comma-joined items, an item being
    K<t>:<id>   the identical (`is`) input object with id <id> of this entry, its time still t
    F<t>        a new object of the entry's class equal to cls() in every attribute except p1_time == t
    B<t> / X / T!...  anything else (wrong class, foreign object, altered default, time of a kept object changed)
followed by " MUTATED" when the content of any input object changed, " RET" when the return value is not `data`,
" KEYS" when the dict keys changed; and finally " | lists=<0/1 per entry: list object identical>" (advisory).
An exception gives "EXC:<type>".
"""
import copy, json, math, sys, warnings
import numpy as np
warnings.filterwarnings('ignore')
import fusion_engine_client.messages as M
from fusion_engine_client.messages import MessageType, Timestamp
from fusion_engine_client.analysis.data_loader import DataLoader, MessageData, TimeAlignmentMode


CLASSES = {c.__name__: c for c in M.message_type_to_class.values()}


def get_class(name):
    return CLASSES[name] if name in CLASSES else getattr(M, name)


def canon(v, depth=0):
    """structural canonical form of an attribute value (NaN-stable)"""
    if depth > 6:
        return '...'
    if isinstance(v, Timestamp):
        return ('Timestamp', canon(float(v)))
    if isinstance(v, (float, np.floating)):
        f = float(v)
        return 'nan' if math.isnan(f) else repr(f)
    if isinstance(v, (bool, np.bool_)):
        return bool(v)
    if isinstance(v, (int, np.integer)):
        return int(v)
    if isinstance(v, np.ndarray):
        return ('ndarray', str(v.dtype), v.shape, [canon(x, depth + 1) for x in v.flat])
    if isinstance(v, (list, tuple)):
        return [canon(x, depth + 1) for x in v]
    if isinstance(v, dict):
        return {str(k): canon(x, depth + 1) for k, x in v.items()}
    if isinstance(v, (str, bytes, type(None))):
        return v
    if hasattr(v, '__dict__'):
        return (type(v).__name__, canon(vars(v), depth + 1))
    return repr(v)


def fmt_t(f):
    f = float(f)
    if math.isnan(f):
        return 'nan'
    return str(int(f)) if f == int(f) else repr(f)


def set_time(m, t):
    if 'p1_time' in m.__dict__:
        m.p1_time = Timestamp(t)
    elif hasattr(m, 'details') and hasattr(m.details, 'p1_time'):
        m.details.p1_time = Timestamp(t)


def distinct_content(m, ident):
    """make the object recognisable by content as well: every plain float attribute gets a value derived from the id"""
    k = 0
    for name, v in list(vars(m).items()):
        if name != 'p1_time' and isinstance(v, float):
            setattr(m, name, 1000.0 * ident + k + 0.5)
            k += 1


def run_case(c):
    scale = c.get('scale', 1)
    data, idmaps, origs, classes, nominal = {}, [], [], [], []
    snapshots = []
    for e in c['entries']:
        if e.get('cls') is None:
            # a MessageType without a payload class: read() creates an empty MessageData with message_class None
            mtype = MessageType[e['type']]
            md = MessageData(mtype, None)
            data[mtype] = md
            idmaps.append({}); origs.append((md.messages, [])); classes.append(mtype); nominal.append({})
            continue
        cls = get_class(e['cls'])
        md = MessageData(cls.MESSAGE_TYPE, None)
        idmap, nom = {}, {}
        for t, ident in e['msgs']:
            m = cls()
            tt = float('nan') if t == 'nan' else t / scale
            set_time(m, tt)
            distinct_content(m, ident)
            md.add_message(m)
            idmap[id(m)] = ident
            nom[ident] = tt
            snapshots.append((m, canon(vars(m))))
        data[cls.MESSAGE_TYPE] = md
        idmaps.append(idmap); origs.append((md.messages, list(md.messages))); classes.append(cls); nominal.append(nom)
    mode = {'N': TimeAlignmentMode.NONE, 'D': TimeAlignmentMode.DROP, 'I': TimeAlignmentMode.INSERT}[c['mode']]
    mt = c.get('mt')
    if mt is not None:
        mt = [get_class(n) if c.get('mt_as') == 'class' else get_class(n).MESSAGE_TYPE for n in mt]
        if c.get('mt_container') == 'tuple':
            mt = tuple(mt)
        elif c.get('mt_container') == 'set' and c.get('mt_as') != 'class':
            mt = set(mt)
    keys_before = list(data.keys())
    ret = DataLoader.time_align_data(data, mode, message_types=mt)
    out, lists = [], []
    all_ids = {}
    for im in idmaps:
        all_ids.update(im)
    for (cls, idmap, (lst, elems), nom) in zip(classes, idmaps, origs, nominal):
        if isinstance(cls, MessageType):
            md = data[cls]
            lists.append('1' if md.messages is lst else '0')
            out.append('R:' + ','.join('B?' for _ in md.messages))
            continue
        md = data[cls.MESSAGE_TYPE]
        lists.append('1' if md.messages is lst else '0')
        items = []
        timed = hasattr(cls(), 'p1_time')
        default_canon = None
        for el in md.messages:
            if id(el) in idmap:
                ident = idmap[id(el)]
                t = nom[ident]
                if timed:
                    now = float(el.p1_time)
                    if not (now == t or (math.isnan(now) and math.isnan(t))):
                        items.append('T!%s:%d' % (fmt_t(now), ident)); continue
                items.append('K%s:%d' % (fmt_t(t * scale), ident))
            elif id(el) in all_ids:
                items.append('X')
            else:
                try:
                    t = float(el.p1_time)
                except Exception:
                    items.append('B?'); continue
                if default_canon is None:
                    d = canon(vars(cls())); d.pop('p1_time', None); default_canon = d
                mine = canon(vars(el)); mine.pop('p1_time', None)
                ok = type(el) is cls and mine == default_canon
                items.append(('F' if ok else 'B') + fmt_t(t * scale))
        out.append('R:' + ','.join(items))
    s = 'OK ' + ' '.join(out)
    if any(canon(vars(m)) != snap for m, snap in snapshots):
        s += ' MUTATED'
    if ret is not data:
        s += ' RET'
    if list(data.keys()) != keys_before:
        s += ' KEYS'
    return s + ' | lists=' + ''.join(lists)


def main():
    for line in sys.stdin:
        line = line.strip()
        if not line:
            continue
        try:
            c = json.loads(line)
            if 'flags' in c:
                # every MessageType: <class name or ->:<'p1_time' in cls().__dict__>:<hasattr(cls(),'p1_time')>:<int>:<type name>
                r = []
                for t in sorted(MessageType, key=int):
                    cls = M.message_type_to_class.get(t)
                    if cls is None:
                        r.append('-:0:0:%d:%s' % (int(t), t.name))
                    else:
                        d = cls()
                        r.append('%s:%d:%d:%d:%s' % (cls.__name__, 'p1_time' in d.__dict__, hasattr(d, 'p1_time'), int(t), t.name))
                print(' '.join(r), flush=True)
            else:
                print(run_case(c), flush=True)
        except Exception as e:
            print('EXC:%s:%s' % (type(e).__name__, str(e).replace('\n', ' ')[:200]), flush=True)


main()
