"""C15 IMPL runner: one JSON case per input line -> one result line.

case = {"mode": "N"|"D"|"I", "mt": null | [class names], "mt_as": "type"|"class", "scale": k,
        "entries": [{"cls": name, "msgs": [[t, id], ...]}, ...]}        (IMPL time = t / scale, or "nan")
An entry {"type": TYPE_NAME} (no "cls") is a MessageType without payload class (message_class None, no messages).
Special line {"flags": "*"} -> for every MessageType "<class or ->:<'p1_time' in cls().__dict__>:<hasattr(cls(),'p1_time')>:<int>:<TYPE_NAME>"

Result: "OK <entry>*" where <entry> = "R:" + comma-joined items, an item being
    K<t>:<id>   the identical (`is`) input object with id <id> of this entry, its time still t
    F<t>        a new object of the entry's class equal to cls() in every attribute except p1_time == t
    B<t> / X / T!...  anything else (wrong class, foreign object, altered default, time of a kept object changed)
followed by " MUTATED" when the content of any input object changed, " RET" when the return value is not `data`,
" KEYS" when the dict keys changed; and finally " | lists=<0/1 per entry: list object identical>" (advisory).
An exception gives "EXC:<type>".
"""
import copy, json, math, sys, warnings
import numpy as np
warnings.filterwarnings('ignore')
import fusion_engine_client.messages as M
from fusion_engine_client.messages import MessageType, Timestamp
from fusion_engine_client.analysis.data_loader import DataLoader, MessageData, TimeAlignmentMode


CLASSES = {c.__name__: c for c in M.message_type_to_class.values()}


def get_class(name):
    return CLASSES[name] if name in CLASSES else getattr(M, name)


def canon(v, depth=0):
    """structural canonical form of an attribute value (NaN-stable)"""
    if depth > 6:
        return '...'
    if isinstance(v, Timestamp):
        return ('Timestamp', canon(float(v)))
    if isinstance(v, (float, np.floating)):
        f = float(v)
        return 'nan' if math.isnan(f) else repr(f)
    if isinstance(v, (bool, np.bool_)):
        return bool(v)
    if isinstance(v, (int, np.integer)):
        return int(v)
    if isinstance(v, np.ndarray):
        return ('ndarray', str(v.dtype), v.shape, [canon(x, depth + 1) for x in v.flat])
    if isinstance(v, (list, tuple)):
        return [canon(x, depth + 1) for x in v]
    if isinstance(v, dict):
        return {str(k): canon(x, depth + 1) for k, x in v.items()}
    if isinstance(v, (str, bytes, type(None))):
        return v
    if hasattr(v, '__dict__'):
        return (type(v).__name__, canon(vars(v), depth + 1))
    return repr(v)


GRID = {}


def fmt_t(f):
    """a time is printed as its grid index when it is bit-for-bit one of the case's timestamps (t / scale), else as repr"""
    f = float(f)
    if math.isnan(f):
        return 'nan'
    if GRID:
        return str(GRID[f]) if f in GRID else 'x' + repr(f)
    return str(int(f)) if f == int(f) else repr(f)


def set_time(m, t):
    if 'p1_time' in m.__dict__:
        m.p1_time = Timestamp(t)
    elif hasattr(m, 'details') and hasattr(m.details, 'p1_time'):
        m.details.p1_time = Timestamp(t)


def distinct_content(m, ident, wire=False):
    """make the object recognisable by content as well: every plain float attribute gets a value derived from the id
    (wire=True: small values that survive every fixed-point wire encoding)"""
    k = 0
    for name, v in list(vars(m).items()):
        if name != 'p1_time' and isinstance(v, float):
            setattr(m, name, (ident + 0.5) if wire else (1000.0 * ident + k + 0.5))
            k += 1


def run_case(c):
    if c.get('via') == 'read':
        return run_read(c)
    scale = c.get('scale', 1)
    GRID.clear()
    for e in c['entries']:
        for t, _ in e.get('msgs', []):
            if t != 'nan':
                GRID[t / scale] = t
    data, idmaps, origs, classes, nominal = {}, [], [], [], []
    snapshots = []
    for e in c['entries']:
        if e.get('cls') is None:
            # a MessageType without a payload class: read() creates an empty MessageData with message_class None
            mtype = MessageType[e['type']]
            md = MessageData(mtype, None)
            data[mtype] = md
            idmaps.append({}); origs.append((md.messages, [])); classes.append(mtype); nominal.append({})
            continue
        cls = get_class(e['cls'])
        md = MessageData(cls.MESSAGE_TYPE, None)
        idmap, nom = {}, {}
        for t, ident in e['msgs']:
            m = cls()
            tt = float('nan') if t == 'nan' else t / scale
            set_time(m, tt)
            distinct_content(m, ident)
            md.add_message(m)
            idmap[id(m)] = ident
            nom[ident] = tt
            snapshots.append((m, canon(vars(m))))
        data[cls.MESSAGE_TYPE] = md
        idmaps.append(idmap); origs.append((md.messages, list(md.messages))); classes.append(cls); nominal.append(nom)
    steps = c.get('steps') or [{k: c.get(k) for k in ('mode', 'mt', 'mt_as', 'mt_container', 'mode_form', 'call')}]
    next_id = sum(len(e.get('msgs', [])) for e in c['entries'])
    outs = []
    for st in steps:
        if st.get('numpy'):
            # numpy conversion of the same MessageData objects before this step (cached arrays stay on the objects)
            try:
                DataLoader.to_numpy(data, keep_messages=True)
            except Exception as e:
                outs.append('NUMPYEXC:%s' % type(e).__name__)
                break
        mode = MODES[st['mode']]
        mf = st.get('mode_form') or 'member'
        if mf == 'int':
            mode = int(mode)
        elif mf == 'np':
            mode = np.int64(int(mode))
        mt = make_mt(st)
        mt_copy = None if mt is None else list(mt)
        keys_before = list(data.keys())
        try:
            # every way of calling it: on the class, on an instance; mode positional or by keyword
            cv = st.get('call') or 'class'
            if cv == 'instance':
                ret = DataLoader().time_align_data(data, mode, message_types=mt)
            elif cv == 'keyword':
                ret = DataLoader.time_align_data(data=data, mode=mode, message_types=mt)
            else:
                ret = DataLoader.time_align_data(data, mode, message_types=mt)
        except Exception as e:
            outs.append('EXC:%s:%s' % (type(e).__name__, str(e).replace('\n', ' ')[:160]))
            break
        out, lists, fresh = [], [], []
        all_ids = {}
        for im in idmaps:
            all_ids.update(im)
        for (cls, idmap, (lst, elems), nom) in zip(classes, idmaps, origs, nominal):
            if isinstance(cls, MessageType):
                md = data[cls]
                lists.append('1' if md.messages is lst else '0')
                out.append('R:' + ','.join('B?' for _ in md.messages))
                continue
            md = data[cls.MESSAGE_TYPE]
            lists.append('1' if md.messages is lst else '0')
            items = []
            timed = hasattr(cls(), 'p1_time')
            default_canon = None
            for el in md.messages:
                if id(el) in idmap:
                    ident = idmap[id(el)]
                    t = nom[ident]
                    if timed:
                        now = float(el.p1_time)
                        if not (now == t or (math.isnan(now) and math.isnan(t))):
                            items.append('T!%s:%d' % (fmt_t(now), ident)); continue
                    items.append('K%s:%d' % (fmt_t(t), ident))
                elif id(el) in all_ids:
                    items.append('X')
                else:
                    try:
                        t = float(el.p1_time)
                    except Exception:
                        items.append('B?'); continue
                    if default_canon is None:
                        d = canon(vars(cls())); d.pop('p1_time', None); default_canon = d
                    mine = canon(vars(el)); mine.pop('p1_time', None)
                    ok = type(el) is cls and mine == default_canon
                    items.append(('F' if ok else 'B') + fmt_t(t))
                    fresh.append((el, idmap, nom, t))
            out.append('R:' + ','.join(items))
        s = 'OK ' + ' '.join(out)
        if any(canon(vars(m)) != snap for m, snap in snapshots):
            s += ' MUTATED'
        if ret is not data:
            s += ' RET'
        if list(data.keys()) != keys_before:
            s += ' KEYS'
        if mt is not None and (len(mt) != len(mt_copy) or (not isinstance(mt, set) and list(mt) != mt_copy)):
            s += ' ARGMUT'
        outs.append(s + ' | lists=' + ''.join(lists))
        # inserted messages are ordinary inputs of the next step: number them in (entry, position) order
        for el, idmap, nom, t in fresh:
            idmap[id(el)] = next_id
            nom[next_id] = t
            snapshots.append((el, canon(vars(el))))
            next_id += 1
        origs = [(data[cls if isinstance(cls, MessageType) else cls.MESSAGE_TYPE].messages, None) for cls in classes]
    return ' ;; '.join(outs)


MODES = {'N': TimeAlignmentMode.NONE, 'D': TimeAlignmentMode.DROP, 'I': TimeAlignmentMode.INSERT}


def make_mt(st):
    """message_types / aligned_message_types argument in the requested form: MessageType values, classes or a mix, in a
    list, tuple or set"""
    mt = st.get('mt')
    if mt is None:
        return None
    form = st.get('mt_as') or 'type'
    res = []
    for k, n in enumerate(mt):
        as_class = form == 'class' or (form == 'mixed' and k % 2 == 0)
        res.append(get_class(n) if as_class else get_class(n).MESSAGE_TYPE)
    cont = st.get('mt_container') or 'list'
    return tuple(res) if cont == 'tuple' else (set(res) if cont == 'set' else res)


def run_read(c):
    """the same property observed through DataLoader.read(time_align=..., aligned_message_types=...): the messages are
    written to a .p1log file; an unaligned read of that file gives the reference objects (identified by content and
    position), the aligned read is observed against them"""
    import os, tempfile
    from fusion_engine_client.parsers import FusionEngineEncoder
    scale = c.get('scale', 1)
    GRID.clear()
    enc = FusionEngineEncoder()
    per_entry = []
    nreq = len(c['entries'])
    # 'extra_entries' are in the file too but are not requested by the aligned read; those listed in 'pre' are read
    # earlier on the SAME loader (caching on), and read once more afterwards
    for e in c['entries'] + c.get('extra_entries', []):
        cls = get_class(e['cls'])
        lst = []
        for t, ident in e['msgs']:
            m = cls()
            set_time(m, t / scale)
            distinct_content(m, ident, wire=True)
            try:
                lst.append((ident, t, enc.encode_message(m)))
            except Exception as ex:
                return 'SKIP:cannot encode %s (%s)' % (cls.__name__, type(ex).__name__)
        per_entry.append((cls, lst))
    # interleave round-robin, keeping each type's own order
    blob, k = b'', 0
    while any(k < len(l) for _, l in per_entry):
        for _, l in per_entry:
            if k < len(l):
                blob += l[k][2]
        k += 1
    fd, path = tempfile.mkstemp(suffix='.p1log', dir=c['tmpdir'])
    os.write(fd, blob); os.close(fd)
    try:
        all_classes = [cls for cls, _ in per_entry]
        as_req = lambda lst: [(cls if c.get('read_as') == 'class' else cls.MESSAGE_TYPE) for cls in lst]
        ref = DataLoader(path, save_index=False, ignore_index=True, num_threads=1).read(message_types=as_req(all_classes), quiet=True)
        all_hashes, ref_canon = [], {}
        for cls, lst in per_entry:
            got = ref[cls.MESSAGE_TYPE].messages if cls.MESSAGE_TYPE in ref else []
            if len(got) != len(lst):
                return 'SKIP:unaligned read returned %d of %d %s' % (len(got), len(lst), cls.__name__)
            hm = {}
            for m, (ident, t, _) in zip(got, lst):
                try:
                    GRID[float(m.p1_time)] = t      # the decoded stamp of this grid point, bit for bit
                except Exception:
                    pass
            ref_canon[cls] = [json.dumps(canon(vars(m)), sort_keys=True, default=str) for m in got]
            for h, (ident, t, _) in zip(ref_canon[cls], lst):
                hm.setdefault(h, []).append((ident, t))
            all_hashes.append(hm)
        classes, hashes = all_classes[:nreq], all_hashes[:nreq]
        req = as_req(classes)
        st = {k: c.get(k) for k in ('mode', 'mt', 'mt_as', 'mt_container')}
        loader = DataLoader(path, save_index=False, ignore_index=True, num_threads=1)
        pre = [all_classes[nreq + i] for i in c.get('pre', [])] + [classes[i] for i in c.get('pre_requested', [])]
        earlier = []
        if pre:
            early = loader.read(message_types=as_req(pre), quiet=True)
            for cls in pre:
                md = early[cls.MESSAGE_TYPE]
                earlier.append((cls, md, md.messages, list(md.messages)))
        res = loader.read(message_types=list(req), time_align=MODES[c['mode']], aligned_message_types=make_mt(st), quiet=True)
        side = []
        for cls, md, lst, elems in earlier:
            # (b) what an earlier read returned is not touched by a later aligned read
            now = md.messages
            if len(now) != len(elems) or any(a is not b for a, b in zip(now, elems)) or \
                    [json.dumps(canon(vars(m)), sort_keys=True, default=str) for m in elems] != ref_canon[cls]:
                side.append('EARLIER')
                break
        if pre:
            # (c) reading the earlier types again on this loader gives what a fresh loader gives
            again = loader.read(message_types=as_req(pre), quiet=True)
            for cls in pre:
                got = again[cls.MESSAGE_TYPE].messages if cls.MESSAGE_TYPE in again else None
                if got is None or [json.dumps(canon(vars(m)), sort_keys=True, default=str) for m in got] != ref_canon[cls]:
                    side.append('REREAD')
                    break
        out = []
        for cls, hm in zip(classes, hashes):
            if cls.MESSAGE_TYPE not in res:
                out.append('R:MISSING'); continue
            items = []
            d = canon(vars(cls())); d.pop('p1_time', None)
            for el in res[cls.MESSAGE_TYPE].messages:
                h = json.dumps(canon(vars(el)), sort_keys=True, default=str)
                if hm.get(h):
                    # messages with identical content (classes without numeric fields) are told apart by their order
                    ident, t = hm[h].pop(0)
                    items.append('K%d:%d' % (t, ident))
                else:
                    try:
                        t = float(el.p1_time)
                    except Exception:
                        items.append('B?'); continue
                    mine = canon(vars(el)); mine.pop('p1_time', None)
                    items.append(('F' if (type(el) is cls and mine == d) else 'B') + fmt_t(t))
            out.append('R:' + ','.join(items))
        s = 'OK ' + ' '.join(out)
        if set(res.keys()) != set(cls.MESSAGE_TYPE for cls in classes):
            s += ' KEYS'
        for f in side:
            s += ' ' + f
        return s + ' | lists='
    finally:
        os.unlink(path)


def main():
    for line in sys.stdin:
        line = line.strip()
        if not line:
            continue
        try:
            c = json.loads(line)
            if 'flags' in c:
                # every MessageType: <class name or ->:<'p1_time' in cls().__dict__>:<hasattr(cls(),'p1_time')>:<int>:<type name>
                r = []
                for t in sorted(MessageType, key=int):
                    cls = M.message_type_to_class.get(t)
                    if cls is None:
                        r.append('-:0:0:%d:%s' % (int(t), t.name))
                    else:
                        d = cls()
                        r.append('%s:%d:%d:%d:%s' % (cls.__name__, 'p1_time' in d.__dict__, hasattr(d, 'p1_time'), int(t), t.name))
                print(' '.join(r), flush=True)
            else:
                print(run_case(c), flush=True)
        except Exception as e:
            print('EXC:%s:%s' % (type(e).__name__, str(e).replace('\n', ' ')[:200]), flush=True)


main()
