"""C02 Python side: byte-level probing of the real pack/unpack code.  Run under the implementation interpreter.

stdin : JSON {"structs": [{"cpp": name, "size": sizeof, "kind": "payload"|"object"|"construct", "py": locator,
                           "unpack_kwargs": {...}}], "patterns": k}
stdout: JSON {"c02": 1, "results": {cpp name: {...}}}

For every struct S with C++ sizeof n:
  baseline  = n zero bytes (+ a zero tail so that count fields can be perturbed);  unpack -> attribute map A0
  min_size  = the smallest L for which unpacking L zero bytes succeeds (Python's fixed-part size)
  for every byte b < n and k XOR masks m: buffer' = baseline with byte b ^= m; unpack -> A';
        changed(b) |= {attribute names whose canonical value differs between A0 and A'}   (or "raised")
        pack direction: take the baseline object, transplant exactly the changed attributes from A', pack;
        the first n bytes must equal buffer'[:n] (i.e. changing the attribute changes exactly byte b)
  for bytes in the tail right after the struct (n .. n+7) the same, to see whether Python reads past sizeof.
Nothing here knows the C++ member boundaries: the observation is per byte.

Message payload classes are probed on every way the library reads them (each gets its own full table):
  explicit : payload.unpack(buffer, offset=0, message_version=cls.MESSAGE_VERSION)   (MixedLogReader, fast indexer)
  default  : payload.unpack(buffer, offset=0)                                        (the documented call)
  decoder  : the payload framed with a MessageHeader (type, version, size, CRC) and fed to FusionEngineDecoder.on_data()
Sub-structures have a single way ("only")."""
import copy, importlib, json, logging, math, os, struct, sys

OUT_FD = os.dup(1)
os.dup2(2, 1)

import numpy as np
import fusion_engine_client.messages as M          # noqa: E402  (registers every payload class)

TAIL = 1 << 16
DECODER_TAIL = 2048          # a failed decode rescans the whole buffer byte by byte: keep it short on that path
logging.disable(logging.CRITICAL)
MASKS = [0x01, 0x80, 0x5A, 0x02, 0x04, 0x08, 0x10, 0x20, 0x40, 0xFF, 0xA5, 0x03, 0x81, 0x7F, 0xC3, 0x3C]


def locate(loc):
    mod, _, expr = loc.partition(':')
    m = importlib.import_module('fusion_engine_client.messages.' + mod)
    return eval(expr, dict(vars(m)))


def canon(v, depth=0):
    """NaN-safe, type-insensitive-where-harmless canonical form of an attribute value."""
    if depth > 8:
        return repr(v)
    if isinstance(v, (bool, np.bool_)):
        return ('b', bool(v))
    if isinstance(v, (int, np.integer)) and not isinstance(v, bool):
        return ('i', int(v))
    if isinstance(v, (float, np.floating)):
        return ('f', struct.pack('<d', float(v)))
    if isinstance(v, (bytes, bytearray, memoryview)):
        return ('y', bytes(v))
    if isinstance(v, str):
        return ('s', v)
    if v is None:
        return ('n',)
    if isinstance(v, np.ndarray):
        if v.dtype.kind == 'f':
            return ('a', v.shape, v.astype('<f8').tobytes())
        if v.dtype.kind in 'iub':
            return ('a', v.shape, tuple(int(x) for x in v.reshape(-1)))
        return ('a', v.shape, tuple(canon(x, depth + 1) for x in v.reshape(-1)))
    if isinstance(v, dict):
        return ('d', tuple(sorted((str(k), canon(x, depth + 1)) for k, x in v.items() if k != '_io')))
    if hasattr(v, '_asdict'):
        return ('t', type(v).__name__, tuple((k, canon(x, depth + 1)) for k, x in v._asdict().items()))
    if isinstance(v, (list, tuple, set, frozenset)):
        return ('l', tuple(canon(x, depth + 1) for x in v))
    if hasattr(v, '__dict__'):
        return ('o', type(v).__name__, tuple(sorted((k, canon(x, depth + 1)) for k, x in vars(v).items())))
    return ('r', repr(v))


class Adapter:
    """uniform view: unpack(bytes) -> (object, consumed or None); attrs(object) -> {name: value};
    transplant(base_obj, other_obj, names) -> new object; pack(object) -> bytes"""

    def __init__(self, spec, path='only'):
        self.spec = spec
        self.kind = spec['kind']
        self.path = path
        self.target = locate(spec['py'])
        self.kw = spec.get('unpack_kwargs') or {}
        self.tail = DECODER_TAIL if path == 'decoder' else TAIL

    def unpack(self, buf):
        if self.kind == 'construct':
            return self.target.parse(bytes(buf)), None
        if self.kind == 'payload' and self.path == 'decoder':
            from fusion_engine_client.messages.defs import MessageHeader
            from fusion_engine_client.parsers import FusionEngineDecoder
            h = MessageHeader()
            h.message_type = self.target.MESSAGE_TYPE
            h.message_version = self.target.MESSAGE_VERSION
            framed = h.pack(payload=bytes(buf))
            dec = FusionEngineDecoder(warn_on_error=FusionEngineDecoder.WarnOnError.NONE)
            msgs = dec.on_data(bytes(framed))
            if len(msgs) != 1 or not isinstance(msgs[0][1], self.target):
                raise RuntimeError('decoder returned %d messages' % len(msgs))
            # the decoder discards what unpack() returns; the consumed length is taken from the very call it makes
            # (same framed bytes, offset = header size, no version), so count / length members stay observable
            consumed = self.target().unpack(buffer=bytes(framed), offset=MessageHeader.calcsize())
            return msgs[0][1], consumed
        o = self.target()
        if self.kind == 'payload' and self.path == 'explicit':
            n = o.unpack(buffer=bytes(buf), offset=0, message_version=self.target.MESSAGE_VERSION, **self.kw)
        else:
            n = o.unpack(buffer=bytes(buf), offset=0, **self.kw)      # 'default' path: no version given
        return o, n

    def unpack_raw(self, buf):
        """like unpack, but hands the caller's buffer object (bytearray / memoryview) to the library as it is"""
        if self.kind == 'construct':
            return self.target.parse(buf), None
        if self.kind == 'payload' and self.path == 'decoder':
            return self.unpack(buf)
        o = self.target()
        if self.kind == 'payload' and self.path == 'explicit':
            n = o.unpack(buffer=buf, offset=0, message_version=self.target.MESSAGE_VERSION, **self.kw)
        else:
            n = o.unpack(buffer=buf, offset=0, **self.kw)
        return o, n

    def attrs(self, o):
        if self.kind == 'construct':
            if hasattr(o, '_asdict'):
                return dict(o._asdict())
            return {k: v for k, v in dict(o).items() if k != '_io'}
        return dict(vars(o))

    def transplant(self, base, other, names):
        src = self.attrs(other)
        if self.kind == 'construct':
            if hasattr(base, '_replace'):
                return base._replace(**{n: src[n] for n in names})
            d = copy.deepcopy({k: v for k, v in dict(base).items() if k != '_io'})
            for n in names:
                d[n] = copy.deepcopy(src[n])
            return d
        o = copy.deepcopy(base)
        for n in names:
            setattr(o, n, copy.deepcopy(src[n]))
        return o

    def pack_into(self, o, buf, off, **kw):
        """serialize in place into the caller's buffer at an offset; None when the counterpart has no such interface"""
        if self.kind == 'construct':
            return None
        o.pack(buffer=buf, offset=off, **kw)
        return buf

    def pack_kw(self, o, **kw):
        r = o.pack(**kw)
        if isinstance(r, tuple):
            r = r[0]
        return bytes(r)

    def pack(self, o):
        if self.kind == 'construct':
            return bytes(self.target.build(o))
        r = o.pack()
        if isinstance(r, tuple):
            r = r[0]
        if isinstance(r, int):
            r = o.pack(return_buffer=True)
        return bytes(r)


def all_masks():
    return MASKS + [m for m in range(1, 256) if m not in MASKS]


def container_len(c):
    """length of a canonical container value, else None"""
    if c[0] in ('y', 's'):
        return len(c[1])
    if c[0] == 'l':
        return len(c[1])
    if c[0] == 'a':
        return c[1]
    return None


def probe(spec, k, path='only'):
    n = spec['size']
    res = {'cpp': spec['cpp'], 'py': spec['py'], 'size': n, 'path': path}
    try:
        ad = Adapter(spec, path)
        TAIL = ad.tail
    except Exception as e:
        res['error'] = 'cannot locate Python counterpart: %r' % (e,)
        return res
    head = bytes.fromhex(spec.get('baseline_hex', ''))                # part of every baseline (e.g. header sync bytes)
    phead = bytes.fromhex(spec.get('probe_baseline_hex', '')) or head  # baseline of the perturbation runs only
    if len(head) > n or len(phead) > n:
        res['error'] = 'baseline_hex longer than the struct'
        return res

    def blank(L, fill=0, h=head):
        b = bytearray([0] * min(L, n) + [fill] * max(0, L - n))
        b[:min(len(h), L)] = h[:L]
        return b
    # ---- fixed-part size as Python sees it: the smallest (zero) buffer that unpacks, what unpack consumes of a
    #      buffer of exactly sizeof bytes, and what pack() of that object produces
    min_size = None
    for L in range(0, n + 17):
        try:
            ad.unpack(bytes(blank(L)))
            min_size = L
            break
        except Exception:
            continue
    res['min_size'] = min_size
    try:
        zobj, zcons = ad.unpack(bytes(blank(n)))
        res['consumed_exact'] = zcons
        try:
            zp = ad.pack(zobj)
            res['packed_len'] = len(zp)
            res['packed_head_hex'] = bytes(zp[:n + 8]).hex()
        except Exception as e:
            res['pack_error'] = repr(e)[:300]
    except Exception as e:
        res['exact_unpack_error'] = repr(e)[:200]
    # ---- perturbation baselines: the same fixed part followed by a tail of 0x00 bytes and by a tail of 0x01 bytes.
    #      An attribute whose value under the same perturbation differs between the two tails draws on the variable part.
    CONSUMED = '<consumed>'          # what unpack() returns is an observable too: it follows count / length members

    def amap(o, cons):
        d = {a: canon(v) for a, v in ad.attrs(o).items() if a != '_io'}
        if cons is not None:
            d[CONSUMED] = ('i', int(cons))
        return d
    runs = []
    for fill in (0, 1):
        bb = blank(n + TAIL, fill, phead)
        try:
            bo, bc = ad.unpack(bb)
        except Exception as e:
            if fill == 0:
                res['error'] = 'baseline does not unpack: %r' % (e,)
                return res
            continue
        run = {'fill': fill, 'buf': bb, 'A0': amap(bo, bc), 'exact_obj': None, 'packed': None}
        # object for the pack direction: this baseline with the shortest tail that still unpacks
        for L in range(n, n + 257):
            try:
                run['exact_obj'], _ = ad.unpack(bytes(blank(L, fill, phead)))
                break
            except Exception:
                continue
        if run['exact_obj'] is not None:
            try:
                pk = ad.pack(run['exact_obj'])
                if len(pk) >= n:
                    run['packed'] = pk
            except Exception as e:
                res['probe_pack_error'] = repr(e)[:300]
        runs.append(run)
    res['attributes'] = sorted(a for a in runs[0]['A0'] if a != CONSUMED)
    res['tails_probed'] = [r['fill'] for r in runs]
    rows = []
    for b in range(n + 8):
        fixed, var, raised, ok_masks, pack_changed, pack_err, pack_exact = set(), set(), 0, 0, set(), 0, 0
        detail = []
        for m in all_masks():
            if ok_masks >= k:
                break
            outs = []
            for run in runs:
                buf = bytearray(run['buf'])
                buf[b] ^= m
                try:
                    o, cons = ad.unpack(buf)
                    outs.append((run, buf, o, amap(o, cons)))
                except Exception:
                    outs.append(None)
            if outs[0] is None:
                raised += 1
                continue
            ok_masks += 1
            changed, tail_dep = set(), set()
            for out in outs:
                if out is None:
                    continue
                run, buf, o, A1 = out
                changed.update(a for a in set(run['A0']) | set(A1) if run['A0'].get(a) != A1.get(a))
            if not changed:
                continue
            if len(outs) > 1 and outs[1] is not None:
                tail_dep = {a for a in changed if outs[0][3].get(a) != outs[1][3].get(a)}
            else:
                # a non-zero tail cannot be parsed: fall back on "a container whose length changed"
                A0, A1 = outs[0][0]['A0'], outs[0][3]
                for a in changed:
                    c0, c1 = A0.get(a), A1.get(a)
                    if c0 is not None and c1 is not None and container_len(c1) is not None and container_len(c0) != container_len(c1):
                        tail_dep.add(a)
            if b >= n:
                tail_dep = set(changed)
            if CONSUMED in changed:
                tail_dep.add(CONSUMED)
            fixed.update(changed - tail_dep)
            var.update(tail_dep)
            if b < n:
                for out in outs:
                    if out is None:
                        continue
                    run, buf, o, A1 = out
                    if run['packed'] is None:
                        continue
                    real = [a for a in changed if a in A1 and a != CONSUMED]
                    try:
                        o2 = ad.transplant(run['exact_obj'], o, real)
                        p = ad.pack(o2)
                        if len(p) < n:
                            pack_err += 1
                        else:
                            pack_changed.update(i for i in range(n) if p[i] != run['packed'][i])
                            if bytes(p[:n]) == bytes(buf[:n]):
                                pack_exact += 1
                    except Exception as e:
                        pack_err += 1
                        if len(detail) < 1:
                            detail.append(repr(e)[:160])
        rows.append({'byte': b, 'fixed': sorted(fixed), 'var': sorted(var), 'raised': raised, 'observed': ok_masks,
                     'pack_changed': sorted(pack_changed), 'pack_errors': pack_err, 'pack_exact': pack_exact, 'detail': detail})
    res['bytes'] = rows
    return res


def main():
    req = json.load(sys.stdin)
    out = {}
    for spec in req['structs']:
        out[spec['cpp']] = {}
        for path in (['explicit', 'default', 'decoder'] if spec['kind'] == 'payload' else ['only']):
            try:
                out[spec['cpp']][path] = probe(spec, int(req.get('patterns', 3)), path)
            except Exception as e:          # never lose the whole run to one struct
                out[spec['cpp']][path] = {'cpp': spec['cpp'], 'py': spec.get('py'), 'size': spec['size'], 'path': path, 'error': 'probe crashed: %r' % (e,)}
    os.write(OUT_FD, (json.dumps({'c02': 1, 'results': out}) + '\n').encode())


if __name__ == "__main__":
    main()
