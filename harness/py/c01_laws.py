"""C01 IMPL harness: enumerates every payload class (+ sub-structures and every registered sub-payload of the
polymorphic containers), generates byte strings that parse, and evaluates the property's laws directly on the
implementation (this is the IMPL-vs-SPEC failing-input search).  Runs under /venv/bin/python with
PYTHONPATH=<repo>/python.

  c01_laws.py list                               -> JSON list of class keys
  c01_laws.py run <seed> <tier> <key> [<key>..]  -> one JSON object per key on stdout
  c01_laws.py one <key> <hex>                    -> evaluate one input, print the full record (replay)

A *key* is a class name ("PoseMessage", "Timestamp", ...) or "Container[SUBTYPE]" for one registered
sub-payload of SetConfigMessage / ConfigResponseMessage / FaultControlMessage.

Laws evaluated for an input b that parses (o = C(); n = o.unpack(b, 0); v = fields(o)):
  pack            b1 = o.pack() does not raise (explicit refusal allowed only for a container whose content
                  was not understood)
  size-pack       len(b1) == n
  size-calcsize   o.calcsize() == n
  reparse         o2.unpack(b1) == n and fields(o2) == v          (NaN == NaN, enum compared by value)
  repack          o2.pack() == b1
  offset-unpack   unpack(pre + b + post, len(pre)) gives (n, v)   for len(pre) in OFFSETS
  pack-into       o.pack(buf, off, return_buffer=False) == n, writes b1 at [off, off+n) and nothing else;
                  o.pack(buf, off) returns the caller's buffer
"""
import json, logging, math, os, random, struct, sys, zlib

logging.disable(logging.CRITICAL)
import numpy as np  # noqa
import fusion_engine_client.messages as M  # noqa
from fusion_engine_client.messages.defs import MessagePayload, MessageHeader  # noqa
from fusion_engine_client.messages.timestamp import Timestamp  # noqa
from fusion_engine_client.messages.measurement_details import MeasurementDetails  # noqa
from enum import IntEnum as _PyIntEnum  # noqa

logging.disable(logging.CRITICAL)

OFFSETS_QUICK = [0, 1, 3, 8]
FILL = 0xA5


# ------------------------------------------------------------------------------------------------
# class table
# ------------------------------------------------------------------------------------------------

def _sub(mod, name):
    return getattr(mod, name, None)


def containers():
    """{container class name: (class, {subtype name: seed bytes})} built from the registries the containers
    dispatch on.  Private names are looked up defensively (absent -> that container has no sub-payload seeds)."""
    out = {}
    conf = sys.modules.get('fusion_engine_client.messages.configuration')
    fc = sys.modules.get('fusion_engine_client.messages.fault_control')
    gen = _sub(conf, '_conf_gen')
    if gen is not None:
        sub_hdr = _sub(conf, '_InterfaceConfigSubmessageConstruct')
        seeds_set, seeds_resp = {}, {}
        for ct, adapter in sorted(gen.CONFIG_MAP.items(), key=lambda kv: int(kv[0])):
            try:
                body = bytes(adapter.sizeof())
            except Exception:
                body = b''
            seeds_set[ct.name] = struct.pack('<HBxI', int(ct), 0, len(body)) + body
            seeds_resp[ct.name] = struct.pack('<BBHB3xI', 0, 0, int(ct), 0, len(body)) + body
        ict = _sub(conf, 'ConfigType')
        for st, adapter in sorted(gen.INTERFACE_CONFIG_MAP.items(), key=lambda kv: int(kv[0])):
            try:
                body = bytes(adapter.sizeof())
            except Exception:
                body = b''
            hdr = struct.pack('<BB2xB3x', 1, 0, int(st))
            body = hdr + body
            t = int(ict.INTERFACE_CONFIG)
            seeds_set['INTERFACE_CONFIG.' + st.name] = struct.pack('<HBxI', t, 0, len(body)) + body
            seeds_resp['INTERFACE_CONFIG.' + st.name] = struct.pack('<BBHB3xI', 0, 0, t, 0, len(body)) + body
        out['SetConfigMessage'] = (conf.SetConfigMessage, seeds_set)
        out['ConfigResponseMessage'] = (conf.ConfigResponseMessage, seeds_resp)
    cg = _sub(fc, '_class_gen')
    if cg is not None:
        seeds = {}
        for ft, adapter in sorted(cg.TYPE_MAP.items(), key=lambda kv: int(kv[0])):
            try:
                body = bytes(adapter.sizeof())
            except Exception:
                body = b''
            seeds[ft.name] = struct.pack('<B15xI', int(ft), len(body)) + body
        out['FaultControlMessage'] = (fc.FaultControlMessage, seeds)
    return out


def class_table():
    """key -> (class, [seed bytes...], fixed_prefix_len or None)"""
    tab = {}
    for t, cls in sorted(MessagePayload.message_type_to_class.items(), key=lambda kv: int(kv[0])):
        tab[cls.__name__] = (cls, [])
    tab['MessageHeader'] = (MessageHeader, [])
    tab['Timestamp'] = (Timestamp, [])
    tab['MeasurementDetails'] = (MeasurementDetails, [])
    sat = getattr(M, 'SatelliteInfo', None)
    if sat is not None:
        tab['SatelliteInfo'] = (sat, [])
    for cname, (cls, seeds) in containers().items():
        for sname, seed in seeds.items():
            tab['%s[%s]' % (cname, sname)] = (cls, [seed])
    return tab


# ------------------------------------------------------------------------------------------------
# observation helpers
# ------------------------------------------------------------------------------------------------

def canon(x, depth=0):
    """Canonical, JSON-able form of a field value: floats by bit pattern (all NaNs equal), enums/bools/numpy
    ints as int, arrays as lists, objects by their public attributes."""
    if depth > 8:
        return 'DEPTH'
    if x is None:
        return None
    if isinstance(x, (bool, np.bool_)):
        return int(x)
    if isinstance(x, (int, np.integer)):       # includes IntEnum
        return int(x)
    if isinstance(x, (float, np.floating)):
        f = float(x)
        if f != f:
            return 'nan'
        return 'f:' + struct.pack('>d', f).hex()
    if isinstance(x, (bytes, bytearray, memoryview)):
        return 'b:' + bytes(x).hex()
    if isinstance(x, str):
        return 's:' + x
    if isinstance(x, np.ndarray):
        return [canon(e, depth + 1) for e in x.tolist()] if x.dtype != object else [canon(e, depth + 1) for e in x.flat]
    if isinstance(x, Timestamp):
        return {'Timestamp': canon(x.seconds, depth + 1)}
    if isinstance(x, tuple) and hasattr(x, '_fields'):
        return {type(x).__name__: {k: canon(getattr(x, k), depth + 1) for k in x._fields}}
    if isinstance(x, dict):
        return {str(k): canon(v, depth + 1) for k, v in x.items() if not str(k).startswith('_')}
    if isinstance(x, (list, tuple)):
        return [canon(e, depth + 1) for e in x]
    if hasattr(x, '__dict__'):
        return {type(x).__name__: {k: canon(v, depth + 1) for k, v in vars(x).items() if not k.startswith('_')}}
    return 'r:' + repr(x)


# Attributes that expose reserved wire bytes (MessageHeader.reserved: two bytes after the sync, not covered by the CRC,
# always transmitted as 0).  They are padding: the parsed value need not survive the round trip (the law starts from the
# first re-serialisation precisely because padding is not preserved) - BUT the observables must stay consistent: after
# pack() the object's padding attribute must equal what its own serialisation parses back to (law
# padding-attribute-inconsistent), and pack() may change it only to that value.  Inputs with non-zero reserved bytes
# are generated for every class (byte mutations of every padding area) and counted in evidence.
PADDING_ATTRS = {'MessageHeader': {'reserved'}}


def fields(o):
    skip = PADDING_ATTRS.get(type(o).__name__, ())
    return {k: canon(v) for k, v in vars(o).items() if not k.startswith('_') and k not in skip}


def padding_fields(o):
    """the padding attributes (reserved wire bytes the class exposes): their parsed value need not survive the round
    trip, but what the object says after pack() must be what its serialisation parses back to"""
    keep = PADDING_ATTRS.get(type(o).__name__, ())
    return {k: canon(v) for k, v in vars(o).items() if k in keep}


def first_diff(a, b, path=''):
    if type(a) != type(b):
        return path or '.'
    if isinstance(a, dict):
        for k in sorted(set(a) | set(b)):
            if k not in a or k not in b:
                return path + '.' + k
            d = first_diff(a[k], b[k], path + '.' + k)
            if d:
                return d
        return None
    if isinstance(a, list):
        if len(a) != len(b):
            return path + '.len'
        for i, (x, y) in enumerate(zip(a, b)):
            d = first_diff(x, y, path + '[%d]' % i)
            if d:
                return d
        return None
    return None if a == b else (path or '.')


_SUBOBJ = (Timestamp, MeasurementDetails)


def do_unpack(cls, buf, off):
    o = cls()
    n = o.unpack(buf, off)
    return o, n


def do_pack(o):
    """obj.pack() -> bytes.  Sub-structures whose pack() defaults to return_buffer=False are asked for the buffer."""
    if isinstance(o, Timestamp):
        r = o.pack(return_buffer=True)
    else:
        r = o.pack()
    return r


def exc_name(e):
    return type(e).__name__


def _floats_of_timestamps(c, path=''):
    """(path, seconds) for every Timestamp inside a canonical field tree."""
    out = []
    if isinstance(c, dict):
        for k, v in c.items():
            if k == 'Timestamp' and isinstance(v, str):
                out.append((path + '.Timestamp', float('nan') if v == 'nan' else struct.unpack('>d', bytes.fromhex(v[2:]))[0]))
            else:
                out += _floats_of_timestamps(v, path + '.' + k)
    elif isinstance(c, list):
        for i, v in enumerate(c):
            out += _floats_of_timestamps(v, path + '[%d]' % i)
    return out


TS_MAX = 4294967295.0     # 0xFFFFFFFF is the "invalid" sentinel of both fields


def ts_is_normalised_image(s):
    """Is the double s what some stamp (sec < 2^32-1, ns < 10^9) decodes to (sec + ns * 1e-9)?"""
    if s != s:
        return True
    if s < 0 or s >= TS_MAX:
        return False
    sec = int(s)
    for se in (sec, sec - 1, sec + 1):
        if se < 0:
            continue
        ns0 = int(round((s - se) * 1e9))
        for ns in (ns0, ns0 - 1, ns0 + 1, ns0 - 2, ns0 + 2):
            if 0 <= ns < 1000000000 and se + (ns * 1e-9) == s:
                return True
    return False


MUTABLE_LEAF = (list, dict, bytearray, np.ndarray)


def mutables(x, path='', depth=0, out=None):
    """(path, object) for every mutable object reachable from x's attributes: objects with a __dict__ (Timestamp,
    MeasurementDetails, ...), lists, dicts, bytearrays, numpy arrays.  Enum members, tuples and scalars are immutable."""
    if out is None:
        out = []
    if depth > 6 or x is None or isinstance(x, (bool, int, float, str, bytes, np.generic, _PyIntEnum)):
        return out
    if isinstance(x, tuple):
        for i, e in enumerate(x):
            mutables(e, '%s[%d]' % (path, i), depth + 1, out)
        return out
    if isinstance(x, MUTABLE_LEAF):
        if path:
            out.append((path, x))
        if isinstance(x, (list,)):
            for i, e in enumerate(x[:16]):
                mutables(e, '%s[%d]' % (path, i), depth + 1, out)
        elif isinstance(x, dict):
            for k, e in x.items():
                if not str(k).startswith('_'):
                    mutables(e, '%s.%s' % (path, k), depth + 1, out)
        return out
    if hasattr(x, '__dict__') and not isinstance(x, type):
        if path:
            out.append((path, x))
        for k, e in vars(x).items():
            if not k.startswith('_'):
                mutables(e, '%s.%s' % (path, k), depth + 1, out)
    return out


def shared_mutables(a, b):
    """mutable sub-objects that two different parsed objects have in common (by identity)"""
    ia = {id(o): p for p, o in mutables(a)}
    return [(p, ia[id(o)]) for p, o in mutables(b) if id(o) in ia]


def is_explicit_refusal(cls, e):
    """A container refusing to serialise content it did not understand: the guard in the container's own
    pack() raising TypeError('... must be set to a class decorated with ...')."""
    return isinstance(e, TypeError) and 'must be set to a class decorated' in str(e)


# ------------------------------------------------------------------------------------------------
# the laws
# ------------------------------------------------------------------------------------------------

def evaluate(key, cls, b, offsets=OFFSETS_QUICK, want_record=False, prev_b=None, extra=True):
    """Returns dict(parse=..., viol=[(law, detail, text)], rec=...)."""
    res = {'parse': None, 'viol': [], 'n': None}
    try:
        o, n = do_unpack(cls, b, 0)
    except Exception as e:
        res['parse'] = 'raise:' + exc_name(e)
        res['parse_msg'] = str(e)[:120]
        return res
    if not isinstance(n, (int, np.integer)) or n < 0 or n > len(b):
        res['parse'] = 'ok'
        res['viol'].append(('consumed-out-of-range', '', 'unpack reports %r bytes consumed of a %d-byte buffer' % (n, len(b))))
        return res
    n = int(n)
    res['parse'] = 'ok'
    res['n'] = n
    v = fields(o)
    pad0 = padding_fields(o)
    pad2 = None
    V = res['viol']
    rec = {'n': n, 'fields': v}
    if pad0:
        rec['padding_attributes'] = pad0
        res['nonzero_padding'] = any(x not in (0, None) for x in pad0.values())
    # -- pack --------------------------------------------------------------------------------
    try:
        b1 = do_pack(o)
    except Exception as e:
        if is_explicit_refusal(cls, e):
            res['refusal'] = exc_name(e)
            rec['pack'] = 'refusal'
        else:
            V.append(('pack-raises', exc_name(e), 'pack() of a parsed object raises %s: %s' % (exc_name(e), str(e)[:160])))
            rec['pack'] = 'raise:' + exc_name(e)
        b1 = None
    # -- calcsize ------------------------------------------------------------------------------
    try:
        cs = o.calcsize()
        rec['calcsize'] = int(cs)
        if int(cs) != n and 'refusal' not in res:
            V.append(('calcsize-differs', '', 'calcsize() = %d but unpack consumed %d' % (cs, n)))
    except Exception as e:
        if is_explicit_refusal(cls, e):
            res['refusal'] = exc_name(e)
        else:
            rec['calcsize'] = 'raise:' + exc_name(e)
            # when pack() itself raises the same way the failure is reported once, under pack-raises
            if not (b1 is None and any(l == 'pack-raises' and d == exc_name(e) for l, d, _ in V)):
                V.append(('calcsize-raises', exc_name(e), 'calcsize() of a parsed object raises %s: %s' % (exc_name(e), str(e)[:160])))
    b1_obj = b1
    if b1 is not None:
        if not isinstance(b1, (bytes, bytearray)):
            V.append(('pack-returns-non-bytes', type(b1).__name__, 'pack() returned %r' % (b1,)))
            b1 = None
    if b1 is not None:
        b1 = bytes(b1)
        rec['pack'] = b1.hex()
        if len(b1) != n:
            V.append(('size-pack-vs-consumed', '', 'len(pack()) = %d but unpack consumed %d' % (len(b1), n)))
        # -- reparse / repack ------------------------------------------------------------------
        try:
            o2, n2 = do_unpack(cls, b1, 0)
            v2 = fields(o2)
            pad2 = padding_fields(o2)
            rec['reparse_n'] = int(n2)
            d = first_diff(v, v2)
            if d:
                V.append(('reparse-values-differ', d.split('[')[0].lstrip('.'), 'field %s changes over pack/unpack: %s -> %s' % (d, _at(v, d), _at(v2, d))))
                rec['reparse_fields'] = v2
            if int(n2) != len(b1):
                V.append(('reparse-consumed-differs', '', 'unpack(pack()) consumed %d of %d bytes' % (n2, len(b1))))
            try:
                b2 = bytes(do_pack(o2))
                if b2 != b1:
                    V.append(('repack-bytes-differ', '', 'second serialisation differs from the first at byte %d' % _firstbyte(b1, b2)))
                    rec['repack'] = b2.hex()
            except Exception as e:
                V.append(('repack-raises', exc_name(e), 'pack() after unpack(pack()) raises %s' % exc_name(e)))
        except Exception as e:
            V.append(('reparse-raises', exc_name(e), 'unpack(pack()) raises %s: %s' % (exc_name(e), str(e)[:160])))
    # -- greedy detection: does the parse consume trailing bytes it is given? -----------------------
    greedy = False
    try:
        _, ng = do_unpack(cls, b + bytes([FILL]) * 5, 0)
        greedy = int(ng) > len(b) - 0 and int(ng) == len(b) + 5
    except Exception:
        pass
    res['greedy'] = greedy
    # -- offsets --------------------------------------------------------------------------------
    for off in offsets:
        pre = bytes((FILL ^ (i * 37 + off)) & 0xFF for i in range(off))
        post = b'' if greedy else bytes([0x5A, 0xC3, 0x00, 0xFF, 0x81])
        body = b if greedy else b[:n]
        buf = pre + body + post
        try:
            o3, n3 = do_unpack(cls, buf, off)
            want_n = len(body) if greedy else n
            v3 = fields(o3)
            if int(n3) != want_n:
                V.append(('offset-unpack-consumed', '', 'unpack at offset %d consumed %d, at offset 0 %d' % (off, n3, want_n)))
            d = first_diff(v, v3)
            if d:
                V.append(('offset-unpack-values', d.split('[')[0].lstrip('.'), 'unpack at offset %d: field %s differs from the parse at offset 0' % (off, d)))
        except Exception as e:
            V.append(('offset-unpack-raises', exc_name(e), 'unpack at offset %d raises %s: %s' % (off, exc_name(e), str(e)[:120])))
        if b1 is None:
            continue
        tail = 4
        cb = bytearray((FILL + 3 * i) & 0xFF for i in range(off + len(b1) + tail))
        orig = bytes(cb)
        try:
            r = o.pack(cb, off, return_buffer=False)
            if not isinstance(r, (int, np.integer)) or int(r) != len(b1):
                V.append(('pack-into-return', '', 'pack(buffer, %d, return_buffer=False) returns %r, pack() is %d bytes' % (off, r, len(b1))))
            if bytes(cb[off:off + len(b1)]) != b1:
                V.append(('pack-into-bytes', '', 'pack(buffer, %d) wrote bytes that differ from pack() at relative byte %d' % (off, _firstbyte(bytes(cb[off:off + len(b1)]), b1))))
            if bytes(cb[:off]) != orig[:off] or bytes(cb[off + len(b1):]) != orig[off + len(b1):] or len(cb) != len(orig):
                V.append(('pack-into-outside', '', 'pack(buffer, %d) modified the caller buffer outside [%d, %d)' % (off, off, off + len(b1))))
        except Exception as e:
            V.append(('pack-into-raises', exc_name(e), 'pack(buffer, %d, return_buffer=False) raises %s: %s' % (off, exc_name(e), str(e)[:120])))
        cb2 = bytearray(orig)
        try:
            if isinstance(o, Timestamp):
                r2 = o.pack(cb2, off, return_buffer=True)
            else:
                r2 = o.pack(cb2, off)
            if r2 is not cb2 and bytes(r2) != bytes(cb2):
                V.append(('pack-into-returned-buffer', '', 'pack(buffer, %d) returned something other than the buffer it filled' % off))
            elif bytes(cb2[off:off + len(b1)]) != b1:
                if not any(l == 'pack-into-bytes' for l, _, _ in V):
                    V.append(('pack-into-bytes', '', 'pack(buffer, %d) wrote bytes that differ from pack()' % off))
        except Exception as e:
            if not any(l == 'pack-into-raises' for l, _, _ in V):
                V.append(('pack-into-raises', exc_name(e), 'pack(buffer, %d) raises %s' % (off, exc_name(e))))
    # -- pack()/pack(buffer, offset) must leave the object as it was ------------------------------------------
    try:
        pad_after = padding_fields(o)
        if pad2 is not None and pad_after != pad2:
            dpad = first_diff(pad_after, pad2)
            V.append(('padding-attribute-inconsistent', (dpad or '.').lstrip('.'), 'after pack() the object says %s = %s but its own serialisation parses back with %s'
                      % ((dpad or '.').lstrip('.'), _at(pad_after, dpad or ''), _at(pad2, dpad or ''))))
        elif pad2 is not None and pad_after != pad0 and pad_after != pad2:
            V.append(('pack-mutates-object', 'padding', 'pack() changed a padding attribute to a value that is not what it wrote'))
        v_after = fields(o)
        d = first_diff(v, v_after)
        if d:
            V.append(('pack-mutates-object', d.split('[')[0].lstrip('.'), 'after pack() / pack(buffer, offset) the object differs in %s: %s -> %s' % (d, _at(v, d), _at(v_after, d))))
    except Exception as e:
        V.append(('pack-mutates-object', exc_name(e), 'reading the attributes after pack() raises %s' % exc_name(e)))
    # -- unpack must not keep a reference to the caller's buffer ---------------------------------------------------
    try:
        cb = bytearray(b)
        ob, nb = do_unpack(cls, cb, 0)
        vb0 = fields(ob)
        for i in range(len(cb)):
            cb[i] ^= 0xFF
        vb1 = fields(ob)
        d = first_diff(vb0, vb1) or first_diff(v, vb0)
        if d:
            V.append(('unpack-retains-buffer', d.split('[')[0].lstrip('.'), 'field %s of an object parsed from a bytearray changes when the caller later overwrites that bytearray' % d))
        shared = shared_mutables(o, ob)
        if shared:
            V.append(('objects-share-mutable-state', shared[0][0].split('[')[0].lstrip('.'), 'two objects parsed from the same bytes share the mutable sub-object %s (%s)' % shared[0]))
    except Exception as e:
        pass
    # -- a header serialised together with a payload, library-allocated and into a sentinel-filled caller buffer ------
    try:
        import inspect
        has_payload = 'payload' in inspect.signature(cls.pack).parameters
    except Exception:
        has_payload = False
    if has_payload:
        from zlib import crc32 as _crc32
        for off in offsets:
            p = bytes((off * 31 + i * 7 + 1) & 0xFF for i in range((off * 5 + 3) % 23))
            try:
                oa, _n = do_unpack(cls, b, 0)
                ref = oa.pack(payload=p)
                ref = bytes(ref)
                hs = len(ref) - len(p)
                ob2, _n = do_unpack(cls, ref, 0)
                if ref[hs:] != p or hs != n:
                    V.append(('pack-with-payload-bytes', '', 'pack(payload=p) is not header followed by p (%d bytes for a %d-byte header and %d-byte payload)' % (len(ref), n, len(p))))
                elif getattr(ob2, 'payload_size_bytes', len(p)) != len(p) or getattr(ob2, 'crc', None) != _crc32(ref[8:]):
                    V.append(('pack-with-payload-crc', '', 'pack(payload=p): the serialised header does not carry the payload size / the CRC-32 of everything after the CRC field'))
                oc, _n = do_unpack(cls, b, 0)
                cbuf = bytearray((0xC3 + 5 * i) & 0xFF for i in range(off + len(ref) + 6))
                orig = bytes(cbuf)
                oc.pack(cbuf, off, payload=p, return_buffer=False)
                if bytes(cbuf[off:off + len(ref)]) != ref:
                    V.append(('pack-into-payload-bytes', '', 'pack(buffer, %d, payload=p) wrote bytes that differ from pack(payload=p) at relative byte %d' % (off, _firstbyte(bytes(cbuf[off:off + len(ref)]), ref))))
                if bytes(cbuf[:off]) != orig[:off] or bytes(cbuf[off + len(ref):]) != orig[off + len(ref):] or len(cbuf) != len(orig):
                    V.append(('pack-into-payload-outside', '', 'pack(buffer, %d, payload=p) modified the caller buffer outside [%d, %d)' % (off, off, off + len(ref))))
            except Exception as e:
                V.append(('pack-with-payload-raises', exc_name(e), 'pack(..., payload=p) at offset %d raises %s: %s' % (off, exc_name(e), str(e)[:120])))
    # -- further access paths / argument forms / histories (AGENT_GUIDE checklist) -----------------------------------
    if extra:
        body = b if greedy else b[:n]
        # (1,3) every buffer form the API accepts, at two offsets; the caller's buffer is not modified by unpack and may be
        #       overwritten afterwards without the object noticing
        for fname, mk in (('bytearray', lambda x: bytearray(x)), ('memoryview(bytes)', lambda x: memoryview(bytes(x))),
                          ('memoryview(bytearray)', lambda x: memoryview(bytearray(x))), ('numpy.uint8', lambda x: np.frombuffer(bytearray(x), dtype=np.uint8))):
            for off in (0, 3):
                raw = bytes((FILL ^ (i * 29)) & 0xFF for i in range(off)) + body + (b'' if greedy else b'\x5a\x00\xff')
                try:
                    buf = mk(raw)
                    of, nf = do_unpack(cls, buf, off)
                except Exception as e:
                    if fname == 'bytearray':
                        V.append(('unpack-buffer-form-raises', fname, 'unpack from a %s at offset %d raises %s: %s' % (fname, off, exc_name(e), str(e)[:100])))
                    else:
                        res.setdefault('forms_refused', {})[fname] = exc_name(e)
                    continue
                vf = fields(of)
                d = first_diff(v, vf)
                if d or int(nf) != len(body if greedy else b[:n]):
                    V.append(('unpack-buffer-form-differs', fname, 'unpack from a %s at offset %d: %s' % (fname, off, ('field %s differs' % d) if d else ('consumed %s' % nf))))
                if bytes(buf) != raw:
                    V.append(('unpack-modifies-buffer', fname, 'unpack modified the caller\'s %s' % fname))
                if fname != 'memoryview(bytes)':
                    try:
                        tgt = buf.obj if isinstance(buf, memoryview) else buf
                        if isinstance(tgt, np.ndarray):
                            tgt[:] = 0xEE
                        else:
                            tgt[:] = bytes(len(tgt))
                        d2 = first_diff(vf, fields(of))
                        if d2:
                            V.append(('unpack-retains-buffer', d2.split('[')[0].lstrip('.'), 'field %s of an object parsed from a %s changes when the caller clears that buffer' % (d2, fname)))
                    except (TypeError, ValueError):
                        pass
        # (2,8) the same object used again: after parsing something else - or after a refused parse - it must be what a fresh object would be
        if prev_b is not None:
            try:
                ou = cls()
                try:
                    ou.unpack(prev_b, 0)
                except Exception:
                    pass
                nu = ou.unpack(b, 0)
                d = first_diff(v, fields(ou))
                if d or int(nu) != n:
                    V.append(('unpack-on-used-object-differs', (d or 'consumed').split('[')[0].lstrip('.'), 'an object that had parsed another input before gives %s after parsing this one'
                              % (('%s = %s instead of %s' % (d, _at(fields(ou), d), _at(v, d))) if d else ('%s bytes consumed' % nu))))
                else:
                    try:
                        pu = do_pack(ou)
                        if b1 is not None and bytes(pu) != b1:
                            V.append(('unpack-on-used-object-differs', 'pack', 'an object that had parsed another input before serialises differently after parsing this one'))
                    except Exception as e:
                        if b1 is not None:
                            V.append(('unpack-on-used-object-differs', 'pack-raises:' + exc_name(e), 'an object that had parsed another input before cannot be serialised after parsing this one: %s: %s' % (exc_name(e), str(e)[:100])))
            except Exception as e:
                V.append(('unpack-on-used-object-differs', 'raises:' + exc_name(e), 'unpack on an object used before raises %s' % exc_name(e)))
        # (5) explicit current message version == default; (6) options that must not matter
        try:
            import inspect
            params = inspect.signature(cls.unpack).parameters
        except Exception:
            params = {}
        if 'message_version' in params and hasattr(cls, 'MESSAGE_VERSION'):
            try:
                ov = cls(); nv = ov.unpack(b, 0, message_version=int(cls.MESSAGE_VERSION))
                d = first_diff(v, fields(ov))
                if d or int(nv) != n:
                    V.append(('unpack-explicit-version-differs', (d or 'consumed').split('[')[0].lstrip('.'), 'unpack(message_version=MESSAGE_VERSION) differs from the default in %s' % (d or 'bytes consumed')))
            except Exception as e:
                V.append(('unpack-explicit-version-differs', 'raises:' + exc_name(e), 'unpack(message_version=MESSAGE_VERSION) raises %s' % exc_name(e)))
        for opt, val in (('warn_on_unrecognized', False), ('return_sync_bytes', True)):
            if opt in params:
                try:
                    oo = cls(); ro = oo.unpack(b, 0, **{opt: val})
                    no = ro[0] if isinstance(ro, tuple) else ro
                    d = first_diff(v, fields(oo))
                    if d or int(no) != n:
                        V.append(('unpack-option-matters', opt, 'unpack(%s=%r) differs from the default in %s' % (opt, val, d or 'bytes consumed')))
                except Exception as e:
                    V.append(('unpack-option-matters', opt, 'unpack(%s=%r) raises %s' % (opt, val, exc_name(e))))
        # (7) numpy error state set to "raise" must not change anything
        try:
            with np.errstate(all='raise'):
                oe, ne = do_unpack(cls, b, 0)
                de = first_diff(v, fields(oe))
                pe = None if b1 is None else bytes(do_pack(oe))
            if de or int(ne) != n or (b1 is not None and pe != b1):
                V.append(('numpy-errstate-matters', '', 'under np.errstate(all="raise") unpack/pack give a different result'))
        except Exception as e:
            V.append(('numpy-errstate-matters', exc_name(e), 'under np.errstate(all="raise") unpack/pack raise %s: %s' % (exc_name(e), str(e)[:100])))
        # (1) the buffer pack() handed out earlier is still what it was, and a second pack() does not hand out the same mutable object
        if b1 is not None:
            try:
                if bytes(b1_obj) != b1:
                    V.append(('returned-buffer-changed-later', '', 'the buffer returned by pack() changed during later pack calls'))
                b3 = do_pack(o)
                if isinstance(b3, bytearray) and b3 is b1_obj:
                    V.append(('returned-buffer-aliased', '', 'two pack() calls returned the same mutable bytearray'))
                elif isinstance(b3, bytearray) and isinstance(b1_obj, bytearray):
                    b3[:] = bytes(len(b3))
                    if bytes(b1_obj) != b1:
                        V.append(('returned-buffer-aliased', '', 'clearing the buffer returned by a second pack() changed the first one'))
            except Exception:
                pass
    # classify a first-step size mismatch: the input was not in canonical form (over-long declared length,
    # NUL-padded string ...) but its serialisation is shorter and is a fixed point of unpack/pack
    if b1 is not None and len(b1) < n and not any(l in ('reparse-raises', 'repack-raises', 'repack-bytes-differ', 'reparse-consumed-differs') for l, _, _ in V):
        V[:] = [(l, 'input-not-canonical:serialisation-shorter-and-stable' if l in ('size-pack-vs-consumed', 'calcsize-differs') and d == '' and
                 (l != 'calcsize-differs' or rec.get('calcsize') == len(b1)) else d, t) for l, d, t in V]
        # an attribute that merely mirrors a wire length field follows the shorter serialisation
        V[:] = [(l, 'input-not-canonical:length-attribute' if l == 'reparse-values-differ' and (d.endswith('_length') or d.endswith('_length_bytes') or d.endswith('_len_bytes')) else d, t)
                for l, d, t in V]
    # classify timestamp-caused failures by the parsed value alone: (a) decoded seconds reach the sentinel
    # 2^32-1 (cannot be written back), (b) the decoded double is not the image of any normalised stamp (the wire
    # nanosecond field was >= 10^9), so re-decoding its normalised re-encoding may differ in the last bit
    tsv = _floats_of_timestamps(v)
    if isinstance(o, Timestamp):
        tsv.append(('.seconds', o.seconds))
    if any(x == x and x >= TS_MAX for _, x in tsv):
        V[:] = [(l, 'Timestamp:seconds>=2^32-1' if l in ('pack-raises', 'calcsize-raises', 'reparse-values-differ', 'repack-bytes-differ',
                                                        'pack-into-raises', 'reparse-raises', 'repack-raises') else d, t) for l, d, t in V]
    else:
        bad = {p.lstrip('.') for p, x in tsv if not ts_is_normalised_image(x)}
        V[:] = [(l, 'Timestamp:not-normalised(ns>=10^9)' if l == 'reparse-values-differ' and d in bad else d, t) for l, d, t in V]
    # dedupe by (law, detail)
    seen, uniq = set(), []
    for l, d, t in V:
        if (l, d) not in seen:
            seen.add((l, d)); uniq.append((l, d, t))
    res['viol'] = uniq
    if want_record:
        res['rec'] = rec
    else:
        res['rec'] = {'n': n, 'pack': rec.get('pack'), 'calcsize': rec.get('calcsize'), 'fields': v}
    return res


def _at(v, path):
    try:
        cur = v
        for part in path.replace('[', '.[').split('.'):
            if not part:
                continue
            if part == 'len':
                return len(cur)
            if part.startswith('['):
                cur = cur[int(part[1:-1])]
            else:
                cur = cur[part]
        return cur
    except Exception:
        return '?'


def _firstbyte(a, b):
    for i, (x, y) in enumerate(zip(a, b)):
        if x != y:
            return i
    return min(len(a), len(b))


# ------------------------------------------------------------------------------------------------
# input generation
# ------------------------------------------------------------------------------------------------

W32 = [0, 1, 2, 255, 256, 65535, 65536, 999999999, 1000000000, 1000000001, 273878287, 529378, 0x7FFFFFFF, 0x80000000,
       0xFFFFFFFE, 0xFFFFFFFF, 0x7FFF, 0x8000, 0xFFFF7FFF, 1400000000, 4294967, 0x00800000, 0x3F800000]
F32 = [struct.unpack('<I', struct.pack('<f', x))[0] for x in (0.0, -0.0, 1.0, -1.5, 0.1, 1e-3, 3.4e38, 1e-38)] + \
      [0x7FC00000, 0xFFC00001, 0x7F800000, 0xFF800000, 0x00000001, 0x007FFFFF, 0x7F7FFFFF, 0x7FA00000]
F64 = [struct.unpack('<Q', struct.pack('<d', x))[0] for x in (0.0, -0.0, 1.0, -1.5, 0.1, 37.77, -122.4, 1e-9, 1.7e308, 1e-300)] + \
      [0x7FF8000000000000, 0xFFF8000000000001, 0x7FF0000000000000, 0xFFF0000000000000, 1, 0x000FFFFFFFFFFFFF,
       0x7FEFFFFFFFFFFFFF, 0x7FF4000000000000]
B8 = list(range(0, 14)) + [0x7F, 0x80, 0xFE, 0xFF, 0x2F, 0x32, 0x2E, 0x31, 0xC3, 0xA9, 0x41]


def try_parse(cls, b):
    try:
        o, n = do_unpack(cls, b, 0)
        n = int(n)
        if n < 0 or n > len(b):
            return None
        return n
    except Exception:
        return None


def min_zero_len(cls, cap=4096):
    for n in list(range(0, 400)) + list(range(400, cap, 16)):
        if try_parse(cls, bytes(n)) is not None:
            return n
    return None


def complete(cls, b, rng, greedy=False):
    """Make b parse by appending bytes (variable-length parts the fixed part now announces); returns the exact
    encoding (truncated to the bytes consumed; a greedy layout keeps everything) or None."""
    n = try_parse(cls, b)
    if n is not None:
        return b if greedy else b[:n]
    if greedy:
        return None
    for extra in (8, 64, 600, 70000):
        bb = b + bytes(rng.randrange(256) for _ in range(min(extra, 600))) + bytes(max(0, extra - 600))
        n = try_parse(cls, bb)
        if n is not None:
            return bb[:n]
    return None


def gen_inputs(key, cls, seeds, rng, tier, budget):
    """Yields byte strings (most of which parse).  Seeds: minimal all-zero buffer, default object's pack(),
    registry seeds; mutations: single bytes (fixed part), aligned 32/64-bit boundary words (sentinels, 1 ns
    stamps, NaN/inf/denormals), count bytes 0..N with the announced tail appended, random multi-byte."""
    out, seen = [], set()

    def add(b):
        if b is not None and b not in seen:
            seen.add(b); out.append(b)

    base = list(seeds)
    z = min_zero_len(cls)
    if z is not None:
        base.append(bytes(z))
    try:
        d = cls()
        pb = do_pack(d)
        if isinstance(pb, (bytes, bytearray)):
            base.append(bytes(pb))
    except Exception:
        pass
    if not base:
        return out, {'no_seed': True}
    base = list(dict.fromkeys(base))
    greedy = False
    for s in base:
        c = complete(cls, s, rng)
        add(c)
        if c is not None:
            n = try_parse(cls, c + b'\x00' * 3)
            if n == len(c) + 3:
                greedy = True
    fixed = out[0] if out else base[0]
    L = len(fixed)
    thorough = tier == 'thorough'
    # greedy / variable tails of every length 0..N
    N = 8 if thorough else 3
    if greedy:
        for k in range(0, N + 1):
            add(fixed + bytes(rng.randrange(256) for _ in range(k)))
        add(fixed + b'.1' + bytes(20))
    cands = []
    # 1. every single byte x patterns
    pats = B8 if thorough else [1, 2, 3, 0x7F, 0x80, 0xFF]
    for i in range(L):
        for p in pats:
            cands.append(('b', i, p))
    # 2. aligned words
    for i in range(0, max(0, L - 3), 2 if thorough else 4):
        for w in W32 + F32:
            cands.append(('w', i, w))
    for i in range(0, max(0, L - 7), 4):
        for w in F64:
            cands.append(('q', i, w))
        # timestamp pairs
        for (s_, ns) in ((529378, 273878287), (1, 1), (0, 999999999), (1400000000, 1), (4294967294, 999999999), (0, 0xFFFFFFFF), (0xFFFFFFFF, 0), (123, 1000000000), (8388607, 500000001), (16777217, 3)):
            cands.append(('q', i, s_ | (ns << 32)))
    # 3. 16-bit words (counts, lengths, enum16)
    for i in range(0, max(0, L - 1), 1 if thorough else 2):
        for w in (0, 1, 2, 3, N, 0x0100, 0x7FFF, 0x8000, 0xFFFF, 20, 54, 300):
            cands.append(('h', i, w))
    # stratify: group candidates by (kind, position) and take them round-robin so that every position gets
    # each kind of boundary value before any position gets its second one
    groups = {}
    for c in cands:
        groups.setdefault((c[0], c[1]), []).append(c)
    for g in groups.values():
        rng.shuffle(g)
    order = list(groups.keys())
    rng.shuffle(order)
    # timestamp pairs and count bytes first: they are the ones that change the shape of the message
    order.sort(key=lambda k: {'q': 0, 'b': 1, 'h': 2, 'w': 3}[k[0]])
    sched, depth = [], 0
    while any(len(groups[k]) > depth for k in order):
        sched += [groups[k][depth] for k in order if len(groups[k]) > depth]
        depth += 1
    core = [('b', i, k) for i in range(L) for k in range(0, N + 1)] if thorough else []
    reserve = budget // 6
    for kind, i, val in core + sched:
        if len(out) >= budget - reserve:
            break
        bb = bytearray(fixed)
        if kind == 'b':
            bb[i] = val
        elif kind == 'h':
            bb[i:i + 2] = struct.pack('<H', val)
        elif kind == 'w':
            bb[i:i + 4] = struct.pack('<I', val)
        else:
            bb[i:i + 8] = struct.pack('<Q', val)
        c = complete(cls, bytes(bb), rng, greedy)
        add(c if c is not None else bytes(bb))
    # 4. random multi-field mutations
    tries = 0
    while len(out) < budget and tries < budget * 3:
        tries += 1
        bb = bytearray(fixed)
        for _ in range(rng.randint(2, 6)):
            if L == 0:
                break
            i = rng.randrange(L)
            r = rng.random()
            if r < 0.4:
                bb[i] = rng.choice(B8)
            elif r < 0.7 and i + 4 <= L:
                bb[i:i + 4] = struct.pack('<I', rng.choice(W32 + F32))
            elif i + 8 <= L:
                bb[i:i + 8] = struct.pack('<Q', rng.choice(F64))
            else:
                bb[i] = rng.randrange(256)
        c = complete(cls, bytes(bb), rng, greedy)
        add(c if c is not None else bytes(bb))
    return out, {'seeds': len(base), 'fixed_len': L, 'greedy': greedy}


KS = {'U8': 1, 'U16': 2, 'U32': 4, 'U40': 5, 'U64': 8, 'S8': 1, 'S16': 2, 'S32': 4, 'S64': 8, 'F32': 4, 'F64': 8}
TS_PAIRS = [(529378, 273878287), (1, 1), (0, 1), (0, 999999999), (1400000000, 1), (1400000000, 999999999), (4194303, 999999999), (8388607, 500000001),
            (16777217, 3), (4294967293, 999999999), (4294967294, 999999999), (0, 0xFFFFFFFF), (0xFFFFFFFF, 0), (0xFFFFFFFF, 0xFFFFFFFF),
            (123, 1000000000), (0, 3221225472), (7, 4294967294), (86400, 500000000), (604800, 250000000), (1, 999999999)]


def field_values(it, rng, thorough):
    """boundary wire values (unsigned, little-endian integer of the field's width) for one described field"""
    w = KS[it['kind']]; bits = 8 * w; top = 1 << (bits - 1); full = (1 << bits) - 1
    ad = it['adapter'][0]
    if ad == 'ts':
        vals = [s_ | (ns << 32) for s_, ns in TS_PAIRS]
        vals += [rng.randrange(0, 1 << 31) | (rng.randrange(0, 1000000000) << 32) for _ in range(20 if thorough else 6)]
        return vals
    if ad == 'strict':
        ms = [m % (1 << bits) for m in it['adapter'][1]]
        non = [u for u in range(0, 1 << min(bits, 9)) if u not in ms][:3] + [full]
        return ms + non
    if ad == 'bool':
        return [0, 1, 2, 0x80, 0xFF]
    if ad == 'sentinel':
        inv = it['adapter'][1] % (1 << bits)
        return [inv, (inv - 1) % (1 << bits), (inv + 1) % (1 << bits), 0, 1, top, top - 1, full, rng.randrange(1 << bits)]
    if ad == 'count':
        return list(range(0, (9 if thorough else 4))) + [full, top]
    if it['kind'] == 'F32':
        return F32 + [rng.randrange(1 << 32)]
    if it['kind'] == 'F64':
        return F64 + [rng.randrange(1 << 64)]
    vals = [0, 1, 2, 3, 0x7F, top - 1, top, full - 1, full, rng.randrange(1 << bits)]
    if w == 1:
        vals += list(range(4, 14)) + [0xFE]
    if it.get('from_enum'):
        # a lenient enum field: a member, then values the enum does not know (they must survive parse -> pack -> parse)
        ms = [m % (1 << bits) for m in it['from_enum']]
        unknown = [u for u in (full, top, 0x7F, max(ms) + 1) if u not in ms and u <= full]
        vals = ms[:1] + unknown[:2] + ms[1:3] + [x for x in vals if x not in ms[:3] and x not in unknown[:2]]
    return vals


def gen_inputs_desc(cls, desc, rng, tier, budget, greedy):
    """field-aware inputs from the generated description: every field gets its boundary values (sentinels, every
    enum member and unknown values, 1 ns stamps and non-normalised stamps, NaN/inf/denormals, counts 0..N)"""
    thorough = tier == 'thorough'
    items = desc['items']
    fixed = sum(KS[i['kind']] if i['t'] == 'field' else len(i['bytes']) if i['t'] == 'pad' else (i['len'][1] if i['t'] == 'bytes' and i['len'][0] == 'fixed' else 0) for i in items)
    base = bytearray(fixed)
    out, off, plan = [], 0, []
    for it in items:
        if it['t'] == 'field':
            plan.append((off, it)); off += KS[it['kind']]
        elif it['t'] == 'pad':
            plan.append((off, it)); off += len(it['bytes'])
        elif it['t'] == 'bytes' and it['len'][0] == 'fixed':
            plan.append((off, it)); off += it['len'][1]
    cands = []
    for o, it in plan:
        if it['t'] == 'field':
            for v in field_values(it, rng, thorough):
                cands.append((o, KS[it['kind']], v))
        elif it['t'] == 'pad':
            for v in (0xFF, 0x01):
                cands.append((o, 1, v)); cands.append((o + len(it['bytes']) - 1, 1, v))
        else:
            cands.append((o, 1, 0xAB))
    # round-robin over fields so that a small budget still touches every field
    byfield = {}
    for c in cands:
        byfield.setdefault(c[0], []).append(c)
    order = sorted(byfield)
    depth = 0
    sched = []
    while any(len(byfield[k]) > depth for k in order):
        sched += [byfield[k][depth] for k in order if len(byfield[k]) > depth]
        depth += 1
    # counted element fields: one element, each field's boundary values
    elem = []
    for it in items:
        if it['t'] == 'counted':
            cf = next(x for o, x in plan if x.get('name') == it['cnt'])
            co = next(o for o, x in plan if x.get('name') == it['cnt'])
            eo = 0
            for b in it['body']:
                if b['t'] == 'field':
                    for v in field_values(b, rng, thorough)[:(12 if thorough else 5)]:
                        elem.append((co, KS[cf['kind']], eo, KS[b['kind']], v, sum(KS[x['kind']] if x['t'] == 'field' else len(x['bytes']) for x in it['body'])))
                    eo += KS[b['kind']]
                else:
                    eo += len(b['bytes'])
    for (o, w, v) in sched:
        if len(out) >= budget:
            break
        bb = bytearray(base)
        bb[o:o + w] = int(v).to_bytes(w, 'little')
        c = complete(cls, bytes(bb), rng, greedy)
        out.append(c if c is not None else bytes(bb))
    # 8/16-bit integer fields that go through binary64 scale arithmetic: sweep the wire values (all 256; for 16 bits
    # a spread of 160 in the quick tier, all 65536 in the thorough tier) - these are extra to the budget
    for o, it in plan:
        if it['t'] == 'field' and it.get('conv', [''])[0] == 'scaled' and KS[it['kind']] <= 2:
            w = KS[it['kind']]
            if w == 1 or thorough:
                vals = range(1 << (8 * w))
            else:
                vals = sorted(set(list(range(0, 65536, 683)) + [rng.randrange(65536) for _ in range(64)]))
            for v in vals:
                bb = bytearray(base)
                bb[o:o + w] = int(v).to_bytes(w, 'little')
                out.append(bytes(bb))
    # polymorphic parts: for every registered layout the canonical encoding, each object field at its boundary values,
    # and the non-canonical variants (declared length one too long; object present although the skip flag is set)
    def rec_size(its):
        return sum(KS[x['kind']] if x['t'] == 'field' else len(x['bytes']) if x['t'] == 'pad' else x['n'] for x in its)

    def rec_variants(its, per_field):
        z = bytearray(rec_size(its))
        yield bytes(z)
        o = 0
        for x in its:
            if x['t'] == 'field':
                for v in field_values(x, rng, thorough)[:per_field]:
                    bb = bytearray(z); bb[o:o + KS[x['kind']]] = int(v).to_bytes(KS[x['kind']], 'little'); yield bytes(bb)
                o += KS[x['kind']]
            elif x['t'] == 'str':
                for sv in (b'A', b'caf\xc3\xa9', b'x' * x['n'], b'\xff', b'a\x00b'):
                    bb = bytearray(z); bb[o:o + min(len(sv), x['n'])] = sv[:x['n']]; yield bytes(bb)
                o += x['n']
            else:
                o += len(x['bytes'])
    fld = {x.get('name'): (o, x) for o, x in plan if x['t'] == 'field'}
    for it in items:
        if it['t'] == 'switch':
            to, tf = fld[it['tag']]
            for tv, case in it['cases'].items():
                for body in rec_variants(case['items'], 6 if thorough else 3):
                    bb = bytearray(base); bb[to:to + KS[tf['kind']]] = int(tv).to_bytes(KS[tf['kind']], 'little')
                    out.append(bytes(bb) + body)
        if it['t'] == 'tagged':
            to, tf = fld[it['tag']]
            lo, lf = fld[it['len']]
            def msg(tv, data, extra_len=0, flags=None):
                bb = bytearray(base)
                bb[to:to + KS[tf['kind']]] = int(tv).to_bytes(KS[tf['kind']], 'little')
                bb[lo:lo + KS[lf['kind']]] = (len(data) + extra_len).to_bytes(KS[lf['kind']], 'little')
                if flags is not None and it['skip']:
                    fo, ff = fld[it['skip'][0]]
                    bb[fo] = flags
                return bytes(bb) + data
            per = 6 if thorough else 3
            for tv, case in it['cases'].items():
                for k, body in enumerate(rec_variants(case['items'], per)):
                    out.append(msg(tv, body))
                    if k == 0:
                        out.append(msg(tv, body + b'\x07'))
                        out.append(msg(tv, body[:-1]) if body else msg(tv, b'', 0))
                        if it['skip']:
                            out.append(msg(tv, b'', 0, it['skip'][1])); out.append(msg(tv, body, 0, it['skip'][1] | 1))
            if it['sub']:
                sidf = next(h for h in it['sub']['hdr'] if h['t'] == 'field' and h['name'] == it['sub']['sid'])
                so = 0
                for h in it['sub']['hdr']:
                    if h is sidf:
                        break
                    so += KS[h['kind']] if h['t'] == 'field' else len(h['bytes'])
                hz = rec_size(it['sub']['hdr'])
                for sv, case in list(it['sub']['cases'].items()) + [('99', {'items': []})]:
                    for k, body in enumerate(rec_variants(case['items'], per)):
                        hdr = bytearray(hz); hdr[0] = rng.choice([1, 2, 3, 4, 5, 254]); hdr[1] = rng.randrange(4); hdr[so] = int(sv)
                        out.append(msg(it['sub']['tag_value'], bytes(hdr) + body))
                        if k == 0:
                            out.append(msg(it['sub']['tag_value'], bytes(hdr) + body + b'\x07'))
                            if it['skip']:
                                out.append(msg(it['sub']['tag_value'], bytes(hdr), 0, it['skip'][1]))
                out.append(msg(it['sub']['tag_value'], bytes(hz - 1)))
            # error / none shapes: a response without data, the interface header alone, the header with an unknown sub-type
            if 'response' in fld:
                ro, rf = fld['response']
                for tv in list(it['cases'])[:4] + ([str(it['sub']['tag_value'])] if it['sub'] else []):
                    for rv in (1, 8, 255):
                        mm = bytearray(msg(tv, b'')); mm[ro] = rv; out.append(bytes(mm))
            if it['sub']:
                hz_ = rec_size(it['sub']['hdr'])
                out.append(msg(it['sub']['tag_value'], bytes(hz_)))
                out.append(msg(it['sub']['tag_value'], b''))
            unk = (1 << (8 * KS[tf['kind']])) - 2
            out.append(msg(unk, b''))
            out.append(msg(unk, b'abc'))
    # length-prefixed byte strings / strings: contents that exercise the unpack-side processing
    cparts = [x for x in items if x['t'] == 'bytes' and x['len'][0] == 'count']
    if cparts and all(x['len'][1] in fld for x in cparts):
        def with_parts(datas, fix=None):
            bb = bytearray(base)
            for (o, w, v) in (fix or []):
                bb[o:o + w] = int(v).to_bytes(w, 'little')
            tail = b''
            for x, dta in zip(cparts, datas):
                co, cf = fld[x['len'][1]]
                if len(dta) < (1 << (8 * KS[cf['kind']])):
                    bb[co:co + KS[cf['kind']]] = len(dta).to_bytes(KS[cf['kind']], 'little')
                tail += dta
            return bytes(bb) + tail
        for i, x in enumerate(cparts):
            m = x.get('mode', ['raw'])
            if m[0] == 'str':
                pool = [b'A', b'FusionEngine 1.2', 'caf\u00e9'.encode(), '\u20ac\U0001F600'.encode(), b'a\x00', b'\x00', b'ab\x00\x00', b'a\x00b', b'\xff', b'\xc3', b'\xed\xa0\x80', b'\xc0\x80', b'\xf4\x90\x80\x80']
            elif m[0] == 'rewrite':
                src, dst = bytes(m[3]), bytes(m[4])
                pool = [src + b'XY', src, dst + b'Z', src[:1], b'', src + dst, bytes([src[0]]) + b'\x00', b'plain text']
            else:
                pool = [b'', b'\x00', b'\x01\x02\x03', bytes(rng.randrange(256) for _ in range(17))]
            for dta in pool:
                datas = [b''] * len(cparts)
                datas[i] = dta
                if m[0] == 'rewrite':
                    to, tf = fld[m[1]]
                    for tv in sorted(set(list(m[2]) + list(range(0, 7)) + [255])):
                        out.append(with_parts(datas, [(to, KS[tf['kind']], tv)]))
                else:
                    out.append(with_parts(datas))
            if len(cparts) > 1:
                out.append(with_parts([b'x' * (j + 1) for j in range(len(cparts))]))
            # size classes: 0, 1, 255, 256, 65535, 65536, 70000 bytes as far as the count field can express them
            co_, cf_ = fld[x['len'][1]]
            cap = (1 << (8 * KS[cf_['kind']])) - 1
            for ln in (0, 1, 255, 256, 65535, 65536, 70000):
                if ln <= cap and (m[0] != 'str' or ln <= 300):
                    datas = [b''] * len(cparts)
                    datas[i] = (b'Az' * (ln // 2 + 1))[:ln] if m[0] == 'str' else bytes((j * 13 + 1) & 0xFF for j in range(ln))
                    out.append(with_parts(datas))
    # counted records: 0, 1, the largest count a one-byte field can hold, more than 255, and (thorough) the 16-bit maximum
    for it in items:
        if it['t'] == 'counted':
            co, cf = fld[it['cnt']]
            esz = rec_size(it['body'])
            cap = (1 << (8 * KS[cf['kind']])) - 1
            for cnt in (0, 1, 255, 256, 300) + ((65535,) if thorough else ()):
                if cnt <= cap:
                    bb = bytearray(base); bb[co:co + KS[cf['kind']]] = cnt.to_bytes(KS[cf['kind']], 'little')
                    out.append(bytes(bb) + bytes(cnt * esz))
    if greedy:
        out.append(bytes(base) + bytes((j * 7) & 0xFF for j in range(70000)))
    for (co, cw, eo, ew, v, esz) in elem:
        k = rng.choice([1, 2, 3])
        bb = bytearray(base)
        bb[co:co + cw] = k.to_bytes(cw, 'little')
        tail = bytearray(rng.randrange(256) if rng.random() < 0.3 else 0 for _ in range(k * esz))
        j = rng.randrange(k)
        tail[j * esz + eo:j * esz + eo + ew] = int(v).to_bytes(ew, 'little')
        out.append(bytes(bb) + bytes(tail))
    return out


# ------------------------------------------------------------------------------------------------
# shrinking
# ------------------------------------------------------------------------------------------------

def shrink(key, cls, b, law, detail, offsets, limit=150):
    """Greedy: zero bytes / drop the tail while the same (law, detail) still fails."""
    def fails(x):
        r = evaluate(key, cls, x, offsets)
        return r['parse'] == 'ok' and any(l == law and d == detail for l, d, _ in r['viol'])
    cur, evals = b, 0
    for i in range(len(cur)):
        if evals >= limit:
            break
        if cur[i] == 0:
            continue
        cand = cur[:i] + b'\x00' + cur[i + 1:]
        evals += 1
        if fails(cand):
            cur = cand
    return cur


# ------------------------------------------------------------------------------------------------
# driver
# ------------------------------------------------------------------------------------------------

def run_key(key, seed, tier, corpus=()):
    tab = class_table()
    cls, seeds = tab[key]
    rng = random.Random((seed * 1000003) ^ zlib.crc32(key.encode()))
    thorough = tier == 'thorough'
    budget = int(os.environ.get('C01_BUDGET', '0')) or (240 if not thorough else 1500)
    if '[' in key:
        budget = max(12, budget // 6)
    offsets = OFFSETS_QUICK if not thorough else list(range(0, 17))
    desc = DESCS.get(key)
    dinputs = []
    if desc is not None:
        try:
            dinputs = gen_inputs_desc(cls, desc, rng, tier, (budget * 3) // 4, bool(desc.get('greedy')))
        except Exception as e:
            import traceback
            sys.stderr.write('gen_inputs_desc(%s) failed: %s\n' % (key, traceback.format_exc()[-600:]))
            dinputs = []
    inputs, ginfo = gen_inputs(key, cls, seeds, rng, tier, max(budget - len(dinputs), budget // 4))
    ginfo['field_aware'] = len(dinputs)
    seen_in = set()
    inputs = [x for x in [bytes.fromhex(h) for h in corpus] + dinputs + inputs if not (x in seen_in or seen_in.add(x))]
    out = {'key': key, 'gen': ginfo, 'evals': 0, 'parsed': 0, 'parse_fail': {}, 'refusals': 0, 'laws_ok': 0,
           'violations': {}, 'cases': [], 'greedy': False, 'fails': []}
    # a registered sub-payload type whose canonical all-zero encoding does not parse at all
    if '[' in key and seeds:
        r0 = evaluate(key, cls, seeds[0], OFFSETS_QUICK)
        if r0['parse'] != 'ok':
            out['seed_fail'] = {'exc': r0['parse'].split(':', 1)[1], 'msg': r0.get('parse_msg', ''), 'hex': seeds[0].hex()}
    for idx, b in enumerate(inputs):
        offs = offsets if (not thorough or idx % 8 == 0) else OFFSETS_QUICK
        prev_b = inputs[(idx * 7 + 3) % len(inputs)] if idx % 3 else (inputs[idx - 1] if idx > 0 else None)
        r = evaluate(key, cls, b, offs, prev_b=prev_b, extra=(thorough or idx % 2 == 0 or idx < 12))
        for fn_, ex_ in r.get('forms_refused', {}).items():
            out.setdefault('forms_refused', {})[fn_] = ex_
        out['evals'] += 1
        if r['parse'] != 'ok':
            out['parse_fail'][r['parse']] = out['parse_fail'].get(r['parse'], 0) + 1
            if len(out['fails']) < 80:
                out['fails'].append({'hex': b.hex(), 'exc': r['parse']})
            continue
        out['parsed'] += 1
        out['greedy'] = out['greedy'] or r.get('greedy', False)
        if 'refusal' in r:
            out['refusals'] += 1
        if r.get('nonzero_padding'):
            out['nonzero_padding'] = out.get('nonzero_padding', 0) + 1
        if not r['viol']:
            out['laws_ok'] += 1
        for law, detail, text in r['viol']:
            k = law + '|' + detail
            cur = out['violations'].get(k)
            if cur is None or (len(b), sum(1 for x in b if x)) < (len(bytes.fromhex(cur['hex'])), cur['nz']):
                out['violations'][k] = {'law': law, 'detail': detail, 'text': text, 'hex': b.hex(), 'nz': sum(1 for x in b if x),
                                        'count': (cur or {}).get('count', 0) + 1}
            else:
                cur['count'] += 1
        out['cases'].append({'hex': b.hex(), 'n': r['n'], 'pack': r['rec'].get('pack'), 'calcsize': r['rec'].get('calcsize'),
                             'fields': r['rec']['fields'], 'ok': not r['viol']})
    # shrink each distinct violation
    for k, vio in out['violations'].items():
        b = bytes.fromhex(vio['hex'])
        s = shrink(key, cls, b, vio['law'], vio['detail'], OFFSETS_QUICK)
        if s != b:
            vio['hex'] = s.hex()
            r = evaluate(key, cls, s, OFFSETS_QUICK)
            for law, detail, text in r['viol']:
                if law == vio['law'] and detail == vio['detail']:
                    vio['text'] = text
        vio.pop('nz', None)
    if thorough and len(out['cases']) > 400:
        out['cases'] = out['cases'][:400]
    return out


def cross_objects(seed, tier):
    """Shared mutable state and aliasing ACROSS objects: messages of all classes are parsed and serialised interleaved,
    over several epochs with a different class order each time; every object parsed earlier is kept and, after each
    batch of another class, its field values and its pack() bytes must still be what they were right after it was
    parsed, and no two kept objects may share a mutable sub-object."""
    tab = class_table()
    thorough = tier == 'thorough'
    keys = [k for k in tab if '[' not in k]
    # a few container sub-payloads as well
    keys += [k for k in tab if '[' in k][::7]
    rng = random.Random(seed * 7919 + 17)
    per_key = 10 if thorough else 5
    epochs = 4 if thorough else 3
    pools = {}
    for key in keys:
        cls, seeds = tab[key]
        r2 = random.Random((seed * 1000003) ^ zlib.crc32(key.encode()))
        desc = DESCS.get(key)
        ins = []
        try:
            if desc is not None:
                ins = gen_inputs_desc(cls, desc, r2, 'quick', 40, bool(desc.get('greedy')))
        except Exception:
            ins = []
        if len(ins) < 12:
            more, _ = gen_inputs(key, cls, seeds, r2, 'quick', 40)
            ins = ins + more
        ok = []
        for b in ins:
            if try_parse(cls, b) is not None:
                ok.append(b)
            if len(ok) >= per_key * epochs * 3:
                break
        pools[key] = ok
    kept = []          # dicts: key, hex, obj, fields, pack, epoch
    out = {'key': '<cross-object>', 'objects': 0, 'rechecks': 0, 'violations': {}, 'epochs': epochs, 'classes': len(keys)}
    reported = set()

    def snapshot(o):
        try:
            pk = do_pack(o)
            pk = bytes(pk).hex() if isinstance(pk, (bytes, bytearray)) else 'non-bytes'
        except Exception as e:
            pk = 'raise:' + exc_name(e)
        return fields(o), pk

    def recheck(culprit_key, culprit_inputs):
        for k in kept:
            if id(k) in reported:
                continue
            out['rechecks'] += 1
            f, pk = snapshot(k['obj'])
            d = first_diff(k['fields'], f)
            if d or pk != k['pack']:
                reported.add(id(k))
                what = ('field %s changed from %s to %s' % (d, _at(k['fields'], d), _at(f, d))) if d else 'pack() now gives different bytes'
                # which single input of the other class does it?
                single = None
                try:
                    cls_a, _ = tab[k['key']]
                    cls_b, _ = tab[culprit_key]
                    for hb in culprit_inputs:
                        oa, _n = do_unpack(cls_a, bytes.fromhex(k['hex']), 0)
                        fa, pa = snapshot(oa)
                        ob, _n = do_unpack(cls_b, bytes.fromhex(hb), 0)
                        do_pack(ob)
                        fa2, pa2 = snapshot(oa)
                        if first_diff(fa, fa2) or pa != pa2:
                            single = hb
                            break
                except Exception:
                    pass
                sig = 'object-changes-after-other-parse|' + ((d or 'pack').split('[')[0].lstrip('.'))
                vk = k['key'] + '|' + sig
                if vk not in out['violations']:
                    out['violations'][vk] = {'key': k['key'], 'law': 'object-changes-after-other-parse', 'detail': (d or 'pack').split('[')[0].lstrip('.'),
                                             'hex': k['hex'], 'then_key': culprit_key, 'then_hex': single or (culprit_inputs[0] if culprit_inputs else ''),
                                             'text': 'a %s parsed earlier (epoch %d) changed after %s messages were parsed and serialised: %s' % (k['key'], k['epoch'], culprit_key, what),
                                             'count': 1}
                else:
                    out['violations'][vk]['count'] += 1

    ids = {}
    for ep in range(epochs):
        order = list(keys)
        rng.shuffle(order)
        for key in order:
            cls, _ = tab[key]
            pool = pools[key]
            batch = pool[ep * per_key:(ep + 1) * per_key] or pool[:per_key]
            used = []
            for b in batch:
                try:
                    o, n = do_unpack(cls, b, 0)
                except Exception:
                    continue
                f, pk = snapshot(o)
                rec = {'key': key, 'hex': b.hex(), 'obj': o, 'fields': f, 'pack': pk, 'epoch': ep}
                # aliasing with any object kept so far
                for pth, m in mutables(o):
                    if id(m) in ids and ids[id(m)][0] is not o:
                        other = ids[id(m)]
                        vk = key + '|objects-share-mutable-state|' + pth.split('[')[0].lstrip('.')
                        if vk not in out['violations']:
                            out['violations'][vk] = {'key': key, 'law': 'objects-share-mutable-state', 'detail': pth.split('[')[0].lstrip('.'), 'hex': b.hex(),
                                                     'then_key': other[1], 'then_hex': other[2],
                                                     'text': 'the mutable sub-object %s of a parsed %s is the same object as %s of a %s parsed earlier' % (pth, key, other[3], other[1]), 'count': 1}
                        else:
                            out['violations'][vk]['count'] += 1
                    else:
                        ids[id(m)] = (o, key, b.hex(), pth)
                kept.append(rec)
                used.append(b.hex())
                out['objects'] += 1
            recheck(key, used)
    return out


DESCS = {}


def main():
    cmd = sys.argv[1]
    dp = os.environ.get('C01_DESC')
    if dp and os.path.exists(dp):
        DESCS.update(json.load(open(dp)).get('descriptions', {}))
    if cmd == 'list':
        print(json.dumps(list(class_table().keys())))
    elif cmd == 'run':
        seed, tier = int(sys.argv[2]), sys.argv[3]
        corpus = json.loads(os.environ.get('C01_CORPUS', '{}'))
        for key in sys.argv[4:]:
            try:
                print(json.dumps(run_key(key, seed, tier, corpus.get(key, ()))), flush=True)
            except Exception as e:
                import traceback
                print(json.dumps({'key': key, 'harness_error': traceback.format_exc()[-1500:]}), flush=True)
    elif cmd == 'ts':
        # timestamp cases: [[sec, ns], ...] on stdin -> [[dec_bits|-1, enc_sec|-1, enc_ns|-1, adapter_agrees], ...]
        from fusion_engine_client.messages.timestamp import TimestampConstruct
        out = []
        for sec, ns in json.load(sys.stdin):
            raw = struct.pack('<II', sec, ns)
            t = Timestamp(); t.unpack(raw, 0)
            bits = -1 if t.seconds != t.seconds else struct.unpack('<Q', struct.pack('<d', t.seconds))[0]
            try:
                b = t.pack(return_buffer=True)
                es, en = struct.unpack('<II', bytes(b))
            except Exception:
                es, en = -1, -1
            try:
                t2 = TimestampConstruct.parse(raw)
                same = (t2.seconds != t2.seconds and bits == -1) or (t2.seconds == t2.seconds and struct.unpack('<Q', struct.pack('<d', t2.seconds))[0] == bits)
                try:
                    b2 = TimestampConstruct.build(t2)
                    same = same and struct.unpack('<II', b2) == (es, en)
                except Exception:
                    same = same and es == -1
            except Exception:
                same = False
            out.append([bits, es, en, bool(same)])
        print(json.dumps(out))
    elif cmd == 'cross':
        print(json.dumps(cross_objects(int(sys.argv[2]), sys.argv[3])), flush=True)
    elif cmd == 'cross-one':
        # replay: parse A, snapshot, parse+pack B, compare
        tab = class_table()
        ka, ha, kb, hb = sys.argv[2:6]
        oa, _ = do_unpack(tab[ka][0], bytes.fromhex(ha), 0)
        fa = fields(oa); pa = bytes(do_pack(oa)).hex()
        ob, _ = do_unpack(tab[kb][0], bytes.fromhex(hb), 0)
        do_pack(ob)
        fa2 = fields(oa); pa2 = bytes(do_pack(oa)).hex()
        print(json.dumps({'first': {'key': ka, 'fields_after_parse': fa, 'pack_after_parse': pa}, 'then_parsed': {'key': kb, 'hex': hb},
                          'first_afterwards': {'fields': fa2, 'pack': pa2}, 'changed_field': first_diff(fa, fa2), 'shared': shared_mutables(oa, ob)}, indent=1, default=str))
    elif cmd == 'tsprobe':
        # what the translator needs to know about Timestamp / TimestampAdapter, obtained by evaluating the working tree:
        # the sentinel, the decode factor (unpack of (0 s, 1 ns)), and pack/unpack on a probe set that pins the shape
        from fusion_engine_client.messages.timestamp import TimestampConstruct
        def dec(sec, ns):
            t = Timestamp(); t.unpack(struct.pack('<II', sec, ns), 0)
            t2 = TimestampConstruct.parse(struct.pack('<II', sec, ns))
            a = None if t.seconds != t.seconds else struct.unpack('<Q', struct.pack('<d', t.seconds))[0]
            b = None if t2.seconds != t2.seconds else struct.unpack('<Q', struct.pack('<d', t2.seconds))[0]
            return a, b
        def enc(bits):
            x = float('nan') if bits is None else struct.unpack('<d', struct.pack('<Q', bits))[0]
            out = []
            for f in (lambda: struct.unpack('<II', bytes(Timestamp(x).pack(return_buffer=True))), lambda: struct.unpack('<II', TimestampConstruct.build(Timestamp(x)))):
                try:
                    out.append(list(f()))
                except Exception as e:
                    out.append(type(e).__name__)
            return out
        req = json.load(sys.stdin)
        print(json.dumps({'invalid_attr': int(getattr(Timestamp, '_INVALID', -1)), 'size': int(Timestamp.calcsize()),
                          'dec': [dec(a, b) for a, b in req['dec']], 'enc': [enc(x) for x in req['enc']]}))
    elif cmd == 'one':
        key, hx = sys.argv[2], sys.argv[3]
        cls, _ = class_table()[key]
        r = evaluate(key, cls, bytes.fromhex(hx), OFFSETS_QUICK, want_record=True)
        print(json.dumps(r, indent=1, default=str))


if __name__ == '__main__':
    main()
