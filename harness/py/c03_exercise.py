"""C03: use a broad slice of the public API in the interpreter the tables were read in, so that library code that
changes the registries while it runs (in-place set operations on COMMAND_MESSAGES, re-registration, enum surgery) shows
up as a difference between the snapshot taken at import and the one taken afterwards.  Every step is defensive: a step
that cannot run here (missing optional dependency, class that cannot be packed by default) is recorded and skipped.

static_scan(): additional signal only — an AST scan of the package for in-place operators / mutating method calls /
item assignment applied to the registry objects or to names bound to them."""
import ast, inspect, io, logging, os, shutil, tempfile, time


def exercise(enum_classes=None):
    log = {'ok': [], 'skipped': []}
    t0 = time.time()

    def step(name, fn):
        try:
            fn()
            log['ok'].append(name)
        except BaseException as e:            # noqa: BLE001  (SystemExit from application code included)
            if isinstance(e, KeyboardInterrupt):
                raise
            log['skipped'].append('%s: %s' % (name, repr(e)[:120]))
    logging.disable(logging.CRITICAL)
    from fusion_engine_client import messages as M
    from fusion_engine_client.messages import defs
    from fusion_engine_client.parsers import FusionEngineDecoder, FusionEngineEncoder
    tmp = tempfile.mkdtemp(prefix='c03ex-')
    try:
        enc = FusionEngineEncoder()
        frames = []
        # 1. every payload class: construct, print, encode, decode, unpack both ways
        for t, cls in sorted(M.message_type_to_class.items(), key=lambda kv: int(kv[0])):
            def one(cls=cls):
                o = cls()
                str(o); repr(o)
                data = enc.encode_message(o)
                frames.append(bytes(data))
                dec = FusionEngineDecoder()
                for h, m in dec.on_data(data):
                    str(m); repr(m); str(h)
                    defs.is_command(h.message_type); defs.is_response(h.message_type)
                    cls().unpack(buffer=bytes(data), offset=defs.MessageHeader.calcsize(), message_version=h.message_version)
            step('encode/decode/print %s' % cls.__name__, one)
        # a few messages with real content (times, an event, a command and its response)
        def content():
            for i in range(4):
                p = M.PoseMessage(); p.p1_time = M.Timestamp(10.0 + i); p.gps_time = M.Timestamp(1300000000.0 + i)
                p.solution_type = M.SolutionType.DGPS; p.lla_deg[:] = (37.0, -122.0, 10.0)
                frames.append(bytes(enc.encode_message(p)))
            ev = M.EventNotificationMessage(); ev.event_type = M.EventType.LOG; ev.system_time_ns = 10500000000
            ev.event_description = b'hello'
            frames.append(bytes(enc.encode_message(ev)))
            frames.append(bytes(enc.encode_message(M.ResetRequest(reset_mask=M.ResetRequest.RESTART_NAVIGATION_ENGINE))))
            r = M.CommandResponseMessage(); r.source_seq_number = 4; r.response = M.Response.OK
            frames.append(bytes(enc.encode_message(r)))
        step('content messages', content)
        # 2. lookups by name / value, enum helpers (including unrecognized values)
        def lookups():
            MP = defs.MessagePayload
            MP.find_matching_message_types('pose'); MP.find_matching_message_types('pos*'); MP.find_matching_message_types(['imu*', '13000'])
            MP.find_matching_message_types('pose', return_class=True)
            for t in list(M.MessageType):
                M.MessageType.get_type_string(t); MP.get_message_class(t); str(t); t.to_string()
            M.MessageType.get_type_string(54321); M.MessageType.get_type_string(21000)
            M.MessageType(54321, raise_on_unrecognized=False); M.SolutionType(77, raise_on_unrecognized=False)
            M.MessageType['pose']; M.MessageType('POSE')
            h = defs.MessageHeader(); h.message_type = 12345
            h.unpack(h.pack(payload=b''), warn_on_unrecognized=False); str(h); h.get_type_string()
        step('lookups and enum helpers', lookups)
        # 2b. every enum: strict and lenient conversion of unknown values and of unknown names (names other enums define
        #     included), from_string, the construct adapter's make_default()
        def enums():
            from construct import Int8ul, Int16ul
            from fusion_engine_client.utils.construct_utils import AutoEnum
            all_names = sorted({n for E in (enum_classes or {}).values() for n in E.__members__ if not n.startswith('_U')})
            for key, E in sorted((enum_classes or {}).items()):
                used = {int(m.value) for m in E.__members__.values()}
                unknown_values = [v for v in (250, 77, 201, 65000) if v not in used][:2]
                for v in unknown_values:
                    for fn in (lambda: E(v), lambda: E(v, raise_on_unrecognized=True), lambda: E[v]):
                        try:
                            fn()
                        except (ValueError, KeyError):
                            pass
                    try:
                        m = E(v, raise_on_unrecognized=False); str(m); repr(m); int(m)
                    except (ValueError, KeyError, TypeError):
                        pass
                for n in all_names + ['C03_NO_SUCH_NAME', 'unknown', 'invalid']:
                    for fn in (lambda: E(n), lambda: E[n], lambda: E.from_string(n, case_insensitive=True),
                               lambda: E(n, raise_on_unrecognized=False)):
                        try:
                            fn()
                        except (ValueError, KeyError, AttributeError, TypeError):
                            pass
                for ctor in (Int8ul, Int16ul):
                    for lenient in (False, True):
                        try:
                            AutoEnum(ctor, E, raise_on_unrecognized=not lenient).make_default()
                        except (ValueError, KeyError, AttributeError, TypeError):
                            pass
                list(E); len(E); list(reversed(E))
        step('enum conversions (unknown values and names, make_default) on %d enums' % len(enum_classes or {}), enums)
        # 3. readers on a small log
        path = os.path.join(tmp, 'ex.p1log')
        with open(path, 'wb') as f:
            for fr in frames:
                f.write(fr)

        def readers():
            from fusion_engine_client.parsers.mixed_log_reader import MixedLogReader
            for kw in ({}, {'message_types': {M.MessageType.POSE}}, {'return_bytes': True, 'return_offset': True}):
                rd = MixedLogReader(path, **kw)
                for _ in rd:
                    pass
            rd = MixedLogReader(path)
            rd.filter_in_place(defs.COMMAND_MESSAGES if hasattr(defs, 'COMMAND_MESSAGES') else None)
            for _ in rd:
                pass
        step('MixedLogReader', readers)

        def loader():
            from fusion_engine_client.analysis.data_loader import DataLoader
            dl = DataLoader(path)
            dl.read(); dl.read(message_types=[M.PoseMessage], return_numpy=True)
            dl.read(message_types={M.MessageType.EVENT_NOTIFICATION} | set(defs.COMMAND_MESSAGES) | set(defs.RESPONSE_MESSAGES), return_in_order=True)
            dl.read(message_types='pose*', max_messages=2)
        step('DataLoader', loader)
        # 4. the Analyzer's table / plot generators
        analyzer = []

        def make_analyzer():
            from fusion_engine_client.analysis.analyzer import Analyzer
            analyzer.append(Analyzer(path, output_dir=os.path.join(tmp, 'out')))
        step('Analyzer()', make_analyzer)
        if analyzer:
            an = analyzer[0]
            for name in sorted(n for n in dir(an) if n.startswith(('plot_', 'generate_'))):
                if time.time() - t0 > 90:
                    log['skipped'].append('%s: time budget' % name)
                    continue
                fn = getattr(an, name)
                if not callable(fn):
                    continue

                def call(fn=fn):
                    kw = {}
                    for pn, prm in inspect.signature(fn).parameters.items():
                        if pn == 'auto_open':
                            kw[pn] = False
                        elif prm.default is inspect.Parameter.empty and prm.kind in (prm.POSITIONAL_ONLY, prm.POSITIONAL_OR_KEYWORD):
                            raise TypeError('needs argument %s' % pn)
                    fn(**kw)
                step('Analyzer.%s' % name, call)
        # 5. command line style printing
        def printing():
            from fusion_engine_client.utils.print_utils import print_message
            dec = FusionEngineDecoder()
            import contextlib
            with contextlib.redirect_stdout(io.StringIO()):
                for fr in frames[:20]:
                    for h, m in dec.on_data(fr):
                        print_message(h, m)
        step('print_utils.print_message', printing)
    finally:
        shutil.rmtree(tmp, ignore_errors=True)
        logging.disable(logging.NOTSET)
    log['seconds'] = round(time.time() - t0, 2)
    return log


WATCH = {'COMMAND_MESSAGES', 'RESPONSE_MESSAGES', 'message_type_to_class', 'message_type_by_name'}
MUTATORS = {'add', 'update', 'discard', 'remove', 'pop', 'clear', 'intersection_update', 'difference_update',
            'symmetric_difference_update', 'setdefault', 'popitem', '__ior__', '__iand__', '__isub__', '__ixor__',
            '__setitem__', '__delitem__'}


def _name(node):
    if isinstance(node, ast.Name):
        return node.id
    if isinstance(node, ast.Attribute):
        return node.attr
    return None


def static_scan(root):
    """[file:line: what] for every place where library code changes one of the registries (or a name bound to one) in
    place.  The registration of payload classes in MessagePayload.__init_subclass__ is the one legitimate writer."""
    hits = []
    for dp, dn, fn in os.walk(root):
        for f in sorted(fn):
            if not f.endswith('.py'):
                continue
            p = os.path.join(dp, f)
            try:
                tree = ast.parse(open(p).read(), p)
            except SyntaxError:
                continue
            for scope in ast.walk(tree):
                if not isinstance(scope, (ast.Module, ast.FunctionDef, ast.AsyncFunctionDef)):
                    continue
                if isinstance(scope, ast.FunctionDef) and scope.name == '__init_subclass__':
                    continue
                body_nodes = []
                stack = list(ast.iter_child_nodes(scope))
                while stack:                      # nodes of this scope, not of nested functions
                    n = stack.pop()
                    if isinstance(n, (ast.FunctionDef, ast.AsyncFunctionDef, ast.Lambda)):
                        continue
                    body_nodes.append(n)
                    stack.extend(ast.iter_child_nodes(n))
                aliases = set(WATCH)
                changed = True
                while changed:                    # names bound directly to a registry object (x = COMMAND_MESSAGES)
                    changed = False
                    for n in body_nodes:
                        if isinstance(n, ast.Assign) and _name(n.value) in aliases:
                            for tg in n.targets:
                                if isinstance(tg, ast.Name) and tg.id not in aliases:
                                    aliases.add(tg.id); changed = True
                for n in body_nodes:
                    what = None
                    if isinstance(n, ast.AugAssign) and _name(n.target) in aliases:
                        what = 'in-place operator on %s' % _name(n.target)
                    elif isinstance(n, ast.Call) and isinstance(n.func, ast.Attribute) and n.func.attr in MUTATORS and _name(n.func.value) in aliases:
                        what = '%s.%s(...)' % (_name(n.func.value), n.func.attr)
                    elif isinstance(n, (ast.Assign, ast.Delete)):
                        for tg in (n.targets if isinstance(n, (ast.Assign, ast.Delete)) else []):
                            if isinstance(tg, ast.Subscript) and _name(tg.value) in aliases:
                                what = 'item assignment on %s' % _name(tg.value)
                    if what:
                        hits.append('%s:%d: %s' % (os.path.relpath(p, os.path.dirname(root)), n.lineno, what))
    return sorted(set(hits))
