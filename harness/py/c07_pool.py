"""Pool of valid FusionEngine messages of several classes, built with the repository's own Python encoder.
stdout: JSON list of hex strings."""
import json, sys, logging, random
logging.disable(logging.CRITICAL)
from fusion_engine_client.messages import *            # noqa
from fusion_engine_client.parsers.encoder import FusionEngineEncoder

r = random.Random(int(sys.argv[1]) if len(sys.argv) > 1 else 0)
enc = FusionEngineEncoder()
out = []
classes = [PoseMessage, GNSSInfoMessage, PoseAuxMessage, IMUOutput, VersionInfoMessage, EventNotificationMessage, ResetRequest,
           HeartbeatMessage if 'HeartbeatMessage' in globals() else PoseMessage, MessageRequest]
for cls in classes * 3:
    try:
        m = cls()
        if isinstance(m, VersionInfoMessage):
            m.fw_version_str = 'v' + '.' * r.randint(0, 30) + '1'
        if isinstance(m, EventNotificationMessage):
            m.event_description = bytes(r.choice(b'.1x') for _ in range(r.randint(0, 40)))
        out.append(enc.encode_message(m).hex())
    except Exception as e:   # noqa
        pass
print(json.dumps(out))
