"""C19 IMPL runner (runs under /venv/bin/python with PYTHONPATH=<repo>/python).

usage: c19_impl.py <in.json> <out.json>
in : {"deg": [hex, ...], "rad": [hex, ...]}                       inputs as float.hex strings
out: {"<fn>_<unit>": {"scalar": [...], "npscalar": [...], "array": [...], "array2d": [...]}, ...,
      "roundtrip_<unit>": {"yhy": [...], "hyh": [...]},
      "default_unit": {"y2h": [...], "h2y": [...]}}     f(x) without `deg`, first 64 degree inputs (advisory)
     fn in {y2h, h2y}; every result is float.hex of the returned value, or "EXC:<type>" if the call raised,
     or "TYPE:<type>" if the return value is not a real scalar / not an array of the input's shape.
Only return values are observed.
"""
import json
import sys

import numpy as np

from fusion_engine_client.messages.defs import heading_to_yaw, yaw_to_heading


def hx(v):
    try:
        if isinstance(v, np.ndarray) and v.ndim != 0:
            return 'TYPE:ndarray%r' % (v.shape,)
        return float(v).hex()
    except Exception as e:  # noqa
        return 'TYPE:%s' % type(v).__name__


def scalar(f, xs, deg, conv):
    out = []
    for x in xs:
        try:
            out.append(hx(f(conv(x), deg=deg)))
        except Exception as e:  # noqa
            out.append('EXC:%s' % type(e).__name__)
    return out


def array(f, xs, deg, shape2d=False):
    a = np.array(xs, dtype=np.float64)
    if shape2d:
        # a non-contiguous 2-D view: exercises the strided ufunc loops
        pad = (-len(xs)) % 4
        a = np.concatenate([a, np.zeros(pad)]).reshape(-1, 4).T
    try:
        r = f(a, deg=deg)
    except Exception as e:  # noqa
        return ['EXC:%s' % type(e).__name__] * len(xs)
    if not isinstance(r, np.ndarray) or r.shape != a.shape:
        return ['TYPE:%s' % type(r).__name__] * len(xs)
    if shape2d:
        r = r.T.reshape(-1)[:len(xs)]
    return [hx(v) for v in r]


def bits(a):
    """exact content of an array-like (dtype, shape and bytes in logical order)"""
    a = np.asarray(a)
    return (str(a.dtype), a.shape, np.ascontiguousarray(a).tobytes())


def array_semantics(sem):
    """Calling conventions of the array form, for several kinds of input built from sem[unit] (hex floats):
    the caller's input must be bit-identical after the call, the result must not share memory with it, must be an
    ndarray of the input's shape (a real scalar for 0-d / scalar input), calling twice must give identical results,
    integer arrays must give the values of the corresponding float scalars, and the round trip through both
    functions - using the caller's original array object afterwards - must equal the element-wise scalar round trip.
    Returns a list of issues {fn, unit, input_kind, issue, detail}."""
    issues = []

    def issue(fn, unit, kind, what, detail):
        issues.append({'fn': fn, 'unit': unit, 'input_kind': kind, 'issue': what, 'detail': detail})

    for unit, deg in (('deg', True), ('rad', False)):
        xs = [float.fromhex(h) for h in sem.get(unit, [])]
        if not xs:
            continue
        n4 = len(xs) - len(xs) % 4
        base = np.array(xs + xs, dtype=np.float64)

        def kinds():
            yield 'float64-1d', np.array(xs, dtype=np.float64), None
            b = base.copy()
            yield 'float64-strided-view', b[::2], b
            if n4:
                yield 'float64-2d', np.array(xs[:n4], dtype=np.float64).reshape(-1, 4), None
                b2 = np.array(xs[:n4], dtype=np.float64).reshape(4, -1)
                yield 'float64-2d-transposed-view', b2.T, b2
            yield 'float64-0d', np.array(xs[0], dtype=np.float64), None
            yield 'float64-1-element', np.array(xs[:1], dtype=np.float64), None
            yield 'float64-readonly', _readonly(np.array(xs, dtype=np.float64)), None
            yield 'float32-1d', np.array(xs, dtype=np.float32), None
            yield 'int64-1d', np.array([int(max(-1e6, min(1e6, round(x)))) for x in xs], dtype=np.int64), None
            yield 'list', list(xs), None

        for name, f in (('yaw_to_heading', yaw_to_heading), ('heading_to_yaw', heading_to_yaw)):
            for kind, a, owner in kinds():
                before = bits(a); before_owner = bits(owner) if owner is not None else None
                try:
                    r1 = f(a, deg=deg)
                except Exception as e:  # noqa
                    if kind != 'list':      # the functions are documented for floats and ndarrays only
                        issue(name, unit, kind, 'exception', type(e).__name__)
                    if bits(a) != before:
                        issue(name, unit, kind, 'input-modified', 'the call raised and left the caller\'s input changed')
                    continue
                if bits(a) != before or (owner is not None and bits(owner) != before_owner):
                    aa = np.asarray(a).reshape(-1); bb = np.frombuffer(before[2], dtype=before[0])
                    j = next((i for i in range(len(bb)) if aa[i].tobytes() != bb[i].tobytes()), 0)
                    issue(name, unit, kind, 'input-modified', 'element %d of the caller\'s input was %r before the call and is %r after it' % (j, bb[j].item(), aa[j].item()))
                    # restore for the remaining observations
                    if kind != 'list' and a.flags.writeable:
                        a[...] = np.frombuffer(before[2], dtype=before[0]).reshape(before[1])
                if isinstance(a, np.ndarray) and isinstance(r1, np.ndarray) and np.shares_memory(r1, a):
                    issue(name, unit, kind, 'result-aliases-input', 'np.shares_memory(result, input) is True')
                want_shape = np.shape(a)
                if want_shape == ():
                    if np.ndim(r1) != 0:
                        issue(name, unit, kind, 'bad-result-shape', '0-d input gave a result of shape %r' % (np.shape(r1),))
                elif kind != 'list' and (not isinstance(r1, np.ndarray) or r1.shape != want_shape):
                    issue(name, unit, kind, 'bad-result-shape', 'input shape %r, result %s of shape %r' % (want_shape, type(r1).__name__, np.shape(r1)))
                snapshot = bits(r1)
                try:
                    r2 = f(a, deg=deg)
                    if bits(r2) != snapshot:
                        issue(name, unit, kind, 'not-repeatable', 'calling twice on the same input object gives different results')
                    elif bits(r1) != snapshot:
                        issue(name, unit, kind, 'result-aliases-input', 'the first result changed when the function was called again')
                except Exception as e:  # noqa
                    issue(name, unit, kind, 'not-repeatable', 'second call raised %s' % type(e).__name__)
                if kind == 'int64-1d' and isinstance(r1, np.ndarray) and r1.shape == want_shape:
                    ref = [f(float(v), deg=deg) for v in np.frombuffer(before[2], dtype=np.int64)]
                    if [float(v).hex() for v in r1] != [float(v).hex() for v in ref]:
                        issue(name, unit, kind, 'int-array-differs', 'integer array gives other values than the same numbers as floats')
        # round trips on arrays, reusing the caller's original object after the first call
        for kind, a, owner in kinds():
            if not kind.startswith('float64') or kind == 'float64-0d':
                continue
            for first, second, nm in ((yaw_to_heading, heading_to_yaw, 'heading_to_yaw(yaw_to_heading(a))'),
                                      (heading_to_yaw, yaw_to_heading, 'yaw_to_heading(heading_to_yaw(a))')):
                flat0 = [float(v) for v in np.asarray(a).reshape(-1)]
                try:
                    ref = [float(second(first(v, deg=deg), deg=deg)).hex() for v in flat0]
                    mid = first(a, deg=deg)
                    back = second(mid, deg=deg)
                    again = second(first(a, deg=deg), deg=deg)        # the original object, used a second time
                    for label, res in (('', back), (' when the same array object is used again', again)):
                        got = [float(v).hex() for v in np.asarray(res).reshape(-1)]
                        if got != ref:
                            j = next((i for i in range(min(len(got), len(ref))) if got[i] != ref[i]), 0)
                            issue('roundtrip', unit, kind, 'array-roundtrip-differs',
                                  '%s%s: element %d (input %r) gives %s, the scalar round trip gives %s'
                                  % (nm, label, j, flat0[j], got[j] if j < len(got) else None, ref[j]))
                            break
                except Exception as e:  # noqa
                    issue('roundtrip', unit, kind, 'exception', '%s raised %s' % (nm, type(e).__name__))
    return issues


def _u64(a):
    return np.ascontiguousarray(a, dtype=np.float64).reshape(-1).view(np.uint64)


def large_arrays(inp, out, lengths):
    """Array calls at many lengths (tiling the main input set, rotated so that block boundaries fall on different
    elements), compared element-wise and bit-for-bit with the scalar results of the same inputs (out[...]['scalar'],
    which the check compares with the exact SPEC and the model)."""
    issues = []
    for unit, deg in (('deg', True), ('rad', False)):
        xs = np.array([float.fromhex(h) for h in inp[unit]], dtype=np.float64)
        if xs.size == 0:
            continue
        for key, name, f in (('y2h', 'yaw_to_heading', yaw_to_heading), ('h2y', 'heading_to_yaw', heading_to_yaw)):
            sc = out['%s_%s' % (key, unit)]['scalar']
            if any(v.startswith(('EXC', 'TYPE')) for v in sc):
                continue        # already reported by the scalar comparison
            ref = np.array([float.fromhex(v) for v in sc], dtype=np.float64)
            for n in lengths:
                idx = (np.arange(n) + (n * 7919) % xs.size) % xs.size
                shapes = [(n,)]
                if n >= 1024 and n % 8 == 0:
                    shapes.append((n // 8, 8))
                for shp in shapes:
                    a = xs[idx].reshape(shp); keep = a.copy()
                    kind = 'float64 shape %r' % (shp,)
                    try:
                        r = f(a, deg=deg)
                    except Exception as e:  # noqa
                        issues.append({'fn': name, 'unit': unit, 'input_kind': 'large-array', 'issue': 'exception', 'detail': '%s: %s' % (kind, type(e).__name__), 'length': n})
                        continue
                    if not isinstance(r, np.ndarray) or r.shape != shp:
                        issues.append({'fn': name, 'unit': unit, 'input_kind': 'large-array', 'issue': 'bad-result-shape',
                                       'detail': '%s gives %s of shape %r' % (kind, type(r).__name__, np.shape(r)), 'length': n})
                        continue
                    bad = np.nonzero(_u64(r) != _u64(ref[idx]))[0]
                    if bad.size:
                        j = int(bad[0])
                        issues.append({'fn': name, 'unit': unit, 'input_kind': 'large-array', 'issue': 'array-differs-from-scalars', 'length': n,
                                       'detail': '%s: %d of %d elements differ from the scalar results, first at flat index %d (input %r): array %s, scalar %s'
                                                 % (kind, bad.size, n, j, float(a.reshape(-1)[j]), float(r.reshape(-1)[j]).hex(), float(ref[idx][j]).hex())})
                    if (_u64(a) != _u64(keep)).any():
                        issues.append({'fn': name, 'unit': unit, 'input_kind': 'large-array', 'issue': 'input-modified', 'detail': kind, 'length': n})
    # keep one issue per (fn, unit, issue): the shortest array
    best = {}
    for it in issues:
        k = (it['fn'], it['unit'], it['issue'])
        if k not in best or it['length'] < best[k]['length']:
            best[k] = it
    return list(best.values())


def history_semantics(sem):
    """The result of a call depends only on the current contents of its argument: sequences of calls on one array
    object with in-place changes of the array (and of earlier results) in between, alternating units and functions,
    and arrays that are released and re-created.  Every result is compared bit-for-bit with the scalar calls on the
    array's contents at that moment (contents are always permutations / selections of the given inputs)."""
    issues = []

    def issue(fn, unit, what, detail):
        if not any(i['fn'] == fn and i['unit'] == unit and i['issue'] == what for i in issues):
            issues.append({'fn': fn, 'unit': unit, 'input_kind': 'history', 'issue': what, 'detail': detail})

    funcs = (('yaw_to_heading', yaw_to_heading), ('heading_to_yaw', heading_to_yaw))
    cache = {}
    handed_out = []          # (fn, unit, result object, its content when it was returned): re-checked at the end

    def ref(name, f, a, deg):
        outv = []
        for v in np.asarray(a, dtype=np.float64).reshape(-1):
            k = (name, deg, float(v).hex())
            if k not in cache:
                cache[k] = float(f(float(v), deg=deg)).hex()
            outv.append(cache[k])
        return outv

    def same(r, want):
        try:
            return [float(v).hex() for v in np.asarray(r).reshape(-1)] == want
        except Exception:  # noqa
            return False

    for unit, deg in (('deg', True), ('rad', False)):
        xs = [float.fromhex(h) for h in sem.get(unit, [])]
        if len(xs) < 8:
            continue
        half = len(xs) // 2
        for name, f in funcs:
            try:
                # 1. convert; change the array in place (several ways); convert again
                a = np.array(xs[:half], dtype=np.float64)
                steps = [('initial contents', lambda a: None),
                         ('after a[:] = a[::-1].copy()', lambda a: a.__setitem__(slice(None), a[::-1].copy())),
                         ('after a[::3] = other values', lambda a: a.__setitem__(slice(None, None, 3), np.array(xs[half:half + len(a[::3])]))),
                         ('after a.fill(v)', lambda a: a.fill(xs[-1])),
                         ('after a[0] = v', lambda a: a.__setitem__(0, xs[half])),
                         ('after np.copyto(a, other)', lambda a: np.copyto(a, np.array(xs[half:half + a.size]))),
                         ('after a.sort()', lambda a: a.sort())]
                for label, change in steps:
                    change(a)
                    r = f(a, deg=deg)
                    handed_out.append((name, unit, r, bits(r)))
                    if not same(r, ref(name, f, a, deg)):
                        issue(name, unit, 'stale-or-history-dependent-result',
                              'sequence of calls on one array object: the call %s does not return the conversion of the current contents' % label)
                        break
                # 2. changing an earlier RESULT must not change a later one
                a = np.array(xs[:half], dtype=np.float64)
                r1 = f(a, deg=deg)
                if isinstance(r1, np.ndarray) and r1.flags.writeable:
                    r1[...] = 12345.0
                r2 = f(a, deg=deg)
                if not same(r2, ref(name, f, a, deg)):
                    issue(name, unit, 'stale-or-history-dependent-result', 'overwriting the array returned by one call changes what the next call on the same input returns')
                # 3. alternating units on one object
                a = np.array(xs[:half], dtype=np.float64)
                for d in (deg, not deg, deg, deg, not deg):
                    if not same(f(a, deg=d), ref(name, f, a, d)):
                        issue(name, unit, 'stale-or-history-dependent-result', 'alternating deg=True/deg=False calls on one array object: a call with deg=%s returns other values than the scalar calls' % d)
                        break
                # 5. release and re-create arrays of the same size (address / id reuse)
                for k in range(6):
                    b = np.array(xs[k:k + half], dtype=np.float64)
                    rb = f(b, deg=deg)
                    okb = same(rb, ref(name, f, b, deg))
                    del b, rb
                    if not okb:
                        issue(name, unit, 'stale-or-history-dependent-result', 'arrays created and released in a loop: conversion %d returns other values than the scalar calls' % k)
                        break
            except Exception as e:  # noqa
                issue(name, unit, 'exception', 'call sequence raised %s: %s' % (type(e).__name__, e))
        # 4. alternating the two functions on one object, with a change in between
        try:
            a = np.array(xs[:half], dtype=np.float64)
            seq = [funcs[0], funcs[1], funcs[0], funcs[1], funcs[1], funcs[0]]
            for i, (name, f) in enumerate(seq):
                if i == 3:
                    a[:] = a[::-1].copy()
                if not same(f(a, deg=deg), ref(name, f, a, deg)):
                    issue(name, unit, 'stale-or-history-dependent-result', 'alternating yaw_to_heading / heading_to_yaw on one array object (step %d): result differs from the scalar calls' % i)
                    break
        except Exception as e:  # noqa
            issue('roundtrip', unit, 'exception', 'alternating call sequence raised %s' % type(e).__name__)
    for i, (name, unit, r, was) in enumerate(handed_out):
        if bits(r) != was:
            issue(name, unit, 'result-aliases-input', 'an array returned by an earlier call changed its contents during later calls')
        for (_, _, r2, _) in handed_out[i + 1:i + 3]:
            if isinstance(r, np.ndarray) and isinstance(r2, np.ndarray) and r.size and np.shares_memory(r, r2):
                issue(name, unit, 'result-aliases-input', 'arrays returned by different calls share memory')
    return issues


def _refmap(inp, out, unit, key):
    sc = out['%s_%s' % (key, unit)]['scalar']
    if any(v.startswith(('EXC', 'TYPE')) for v in sc):
        return None
    return dict(zip(inp[unit], sc))


def compositions(inp, out, groups):
    """Arrays composed of chosen classes of inputs (all inside the canonical range; all far outside; only wrap-point
    neighbours; one foreign element at the first / middle / last position of an otherwise uniform array; interleaved),
    so that any whole-array shortcut (np.all / np.any / min / max gated fast path) is exercised both ways.  Compared
    bit-for-bit with the scalar results of the same inputs."""
    issues = []
    for unit, deg in (('deg', True), ('rad', False)):
        g = groups.get(unit)
        if not g:
            continue
        hexes = inp[unit]
        small, wrap, far = g['small'], g['wrap'], g['far']
        comps = []
        for n in (1, 2, 5, 64, len(small)):
            comps.append(('all inside the canonical range (%d)' % min(n, len(small)), small[:n]))
        comps.append(('all far outside the range', far))
        comps.append(('only wrap-point neighbours', wrap))
        for host, hname in ((small, 'in-range'), (wrap, 'wrap-neighbour'), (far, 'far')):
            for guest, gname in ((far, 'far'), (wrap, 'wrap-neighbour'), (small, 'in-range')):
                if host is guest or not host or not guest:
                    continue
                h = host[:97]
                for pos in (0, len(h) // 2, len(h)):
                    for gi in (0, len(guest) // 3, len(guest) - 1):
                        comps.append(('%s array with one %s element at position %d' % (hname, gname, pos), h[:pos] + [guest[gi]] + h[pos:]))
        k = min(len(small), len(wrap), len(far))
        comps.append(('in-range / wrap-neighbour / far interleaved', [v for t in zip(small[:k], wrap[:k], far[:k]) for v in t]))
        for key, name, f in (('y2h', 'yaw_to_heading', yaw_to_heading), ('h2y', 'heading_to_yaw', heading_to_yaw)):
            ref = _refmap(inp, out, unit, key)
            if ref is None:
                continue
            for label, idx in comps:
                if not idx:
                    continue
                hx_in = [hexes[i] for i in idx]
                a = np.array([float.fromhex(h) for h in hx_in], dtype=np.float64)
                try:
                    r = f(a, deg=deg)
                    got = [float(v).hex() for v in np.asarray(r).reshape(-1)]
                except Exception as e:  # noqa
                    got = 'EXC:%s' % type(e).__name__
                want = [ref[h] for h in hx_in]
                if got != want:
                    j = next((i for i in range(len(want)) if not isinstance(got, list) or i >= len(got) or got[i] != want[i]), 0)
                    issues.append({'fn': name, 'unit': unit, 'input_kind': 'composed-array', 'issue': 'array-differs-from-scalars',
                                   'detail': '%s: element %d (input %r) gives %s, the scalar call gives %s'
                                             % (label, j, float(a[j]), got[j] if isinstance(got, list) and j < len(got) else got, want[j]),
                                   'length': len(idx)})
                    break
    return issues


def shapes(inp, out):
    """Every small rank / extent combination: all (a, b) with a, b in 0..5, (k, N) and (N, k) for k = 1..4 and several N,
    3-D and 4-D blocks, zero-length axes; C order, Fortran order and transposed views.  The result must have the shape of
    the input and equal the scalar results element by element (bit-for-bit)."""
    issues = []
    shp = [(a, b) for a in range(6) for b in range(6)]
    for k in (1, 2, 3, 4):
        for n in (7, 64, 1000):
            shp += [(k, n), (n, k)]
    shp += [(2, 3, 4), (3, 2, 2), (3, 1, 1), (1, 3, 1), (1, 1, 3), (3, 3, 3), (4, 3, 2), (3, 4, 5), (2, 1, 3, 2), (3, 3, 3, 3), (1, 1, 1), (1, 1, 1, 1),
            (0, 3, 2), (3, 0, 2), (3, 2, 0), (0,), (3,), (1,)]
    for unit, deg in (('deg', True), ('rad', False)):
        xs = np.array([float.fromhex(h) for h in inp[unit]], dtype=np.float64)
        if xs.size == 0:
            continue
        for key, name, f in (('y2h', 'yaw_to_heading', yaw_to_heading), ('h2y', 'heading_to_yaw', heading_to_yaw)):
            sc = out['%s_%s' % (key, unit)]['scalar']
            if any(v.startswith(('EXC', 'TYPE')) for v in sc):
                continue
            ref = np.array([float.fromhex(v) for v in sc], dtype=np.float64)
            found = {}
            for si, sh in enumerate(shp):
                n = int(np.prod(sh))
                idx = (np.arange(n) * 37 + si * 101) % xs.size
                variants = [('C order', xs[idx].reshape(sh))]
                if len(sh) >= 2:
                    variants.append(('Fortran order', np.asfortranarray(xs[idx].reshape(sh))))
                    variants.append(('transposed view', xs[idx].reshape(sh[::-1]).T))
                for label, a in variants:
                    want = ref[idx].reshape(a.shape) if label != 'transposed view' else ref[idx].reshape(sh[::-1]).T
                    keep = a.copy()
                    what = None
                    try:
                        r = f(a, deg=deg)
                    except Exception as e:  # noqa
                        what = ('exception', 'raises %s' % type(e).__name__)
                    else:
                        if not isinstance(r, np.ndarray) or r.shape != a.shape:
                            what = ('bad-result-shape', 'gives %s of shape %r' % (type(r).__name__, np.shape(r)))
                        elif n and (_u64(r) != _u64(want)).any():
                            j = int(np.nonzero(_u64(r) != _u64(want))[0][0])
                            what = ('array-differs-from-scalars', 'element %d (input %r) gives %s, the scalar call gives %s'
                                    % (j, float(np.ascontiguousarray(a).reshape(-1)[j]), float(np.ascontiguousarray(r).reshape(-1)[j]).hex(),
                                       float(np.ascontiguousarray(want).reshape(-1)[j]).hex()))
                        elif n and (_u64(a) != _u64(keep)).any():
                            what = ('input-modified', 'the input was changed')
                    if what and (what[0] not in found or (found[what[0]]['length'] == 0 and n > 0)):
                        found[what[0]] = {'length': n, 'fn': name, 'unit': unit, 'input_kind': 'array-shape', 'issue': what[0],
                                          'detail': 'float64 array of shape %r (%s) %s' % (a.shape, label, what[1])}
            issues += list(found.values())
    return issues


def forms_and_environment(inp, out, sem):
    """Argument forms (Python int / bool, numpy scalars of other types, 0-d arrays, lists / tuples, masked arrays,
    low-precision arrays), forms of the `deg` flag and its default, numpy's floating-point error state, non-finite
    elements, import paths.  Integer-like and float64 forms must give exactly the float64 scalar results; lists and
    tuples must either behave like arrays or raise TypeError/ValueError; float32/float16 forms must stay in range and
    within a few ulp OF THEIR OWN PRECISION of the float64 result."""
    issues = []

    def issue(fn, unit, kind, what, detail):
        if not any(i['fn'] == fn and i['unit'] == unit and i['issue'] == what and i['input_kind'] == kind for i in issues):
            issues.append({'fn': fn, 'unit': unit, 'input_kind': kind, 'issue': what, 'detail': detail})

    import fusion_engine_client.messages as pkg
    for nm, f in (('yaw_to_heading', yaw_to_heading), ('heading_to_yaw', heading_to_yaw)):
        if getattr(pkg, nm, f) is not f:
            issue(nm, 'deg', 'import-path', 'access-paths-differ', 'fusion_engine_client.messages.%s is not fusion_engine_client.messages.defs.%s' % (nm, nm))

    def h(v):
        return float(v).hex()

    for unit, deg in (('deg', True), ('rad', False)):
        xs = [float.fromhex(v) for v in sem.get(unit, [])]
        if len(xs) < 8:
            continue
        period = 360.0 if deg else 2.0 * np.pi
        scale = 512.0 if deg else 8.0
        ints = sorted({int(round(x)) for x in xs if abs(x) <= 1e6} | {0, 1, -1, 90, -90, 270, 300, 360, -360, 127, -128, 255})
        for name, f in (('yaw_to_heading', yaw_to_heading), ('heading_to_yaw', heading_to_yaw)):
            def ref(v):
                return h(f(float(v), deg=deg))
            try:
                # --- forms of the deg flag, and its default --------------------------------------------------
                for x in xs[:24]:
                    want = ref(x)
                    forms = [('positional', lambda: f(x, deg)), ('keyword', lambda: f(x, deg=deg)), ('int flag', lambda: f(x, deg=int(deg))),
                             ('numpy bool flag', lambda: f(x, deg=np.bool_(deg))), ('all keywords', lambda: f(**{f.__code__.co_varnames[0]: x, 'deg': deg}))]
                    if deg:
                        forms.append(('default (no deg argument)', lambda: f(x)))
                    for label, call in forms:
                        try:
                            got = h(call())
                        except Exception as e:  # noqa
                            got = 'EXC:%s' % type(e).__name__
                        if got != want:
                            issue(name, unit, 'deg-flag-form', 'default-unit-not-degrees' if label.startswith('default') else 'flag-form-differs',
                                  '%s(%r) with %s gives %s, with deg=%s it gives %s' % (name, x, label, got, deg, want))
                # --- integer-like scalars and arrays: exactly the float64 results ------------------------------
                for v in ints:
                    want = ref(v)
                    cands = [('Python int', v), ('numpy int64', np.int64(v)), ('0-d int64 array', np.array(v, dtype=np.int64)), ('0-d float64 array', np.array(float(v)))]
                    if -128 <= v <= 127:
                        cands.append(('numpy int8', np.int8(v)))
                    if 0 <= v <= 255:
                        cands.append(('numpy uint8', np.uint8(v)))
                    if v in (0, 1):
                        cands += [('Python bool', bool(v)), ('numpy bool', np.bool_(v))]
                    for label, arg in cands:
                        try:
                            r = f(arg, deg=deg)
                            got = h(r) if np.ndim(r) == 0 else 'shape %r' % (np.shape(r),)
                        except Exception as e:  # noqa
                            got = 'EXC:%s' % type(e).__name__
                        if got != want:
                            issue(name, unit, label, 'scalar-form-differs', '%s(%r as %s) gives %s, the float gives %s' % (name, v, label, got, want))
                for dt in (np.int8, np.int16, np.int32, np.uint8, np.uint16, np.bool_):
                    info = (0, 1) if dt is np.bool_ else (np.iinfo(dt).min, np.iinfo(dt).max)
                    vals = [v for v in ints if info[0] <= v <= info[1]]
                    a = np.array(vals, dtype=dt)
                    try:
                        got = [h(v) for v in f(a, deg=deg)]
                    except Exception as e:  # noqa
                        got = 'EXC:%s' % type(e).__name__
                    if got != [ref(v) for v in vals]:
                        issue(name, unit, '%s array' % np.dtype(dt).name, 'int-array-differs', 'array of dtype %s gives other values than the same numbers as floats' % np.dtype(dt).name)
                # --- lists / tuples: like arrays, or a clean TypeError / ValueError ------------------------------
                for label, arg in (('list', list(xs[:9])), ('tuple', tuple(xs[:9])), ('empty list', []), ('nested list', [list(xs[:4]), list(xs[4:8])])):
                    try:
                        r = f(arg, deg=deg)
                    except (TypeError, ValueError):
                        continue
                    except Exception as e:  # noqa
                        issue(name, unit, label, 'exception', 'raises %s (neither a result nor TypeError/ValueError)' % type(e).__name__)
                        continue
                    want = [ref(v) for v in np.asarray(arg, dtype=np.float64).reshape(-1)]
                    if np.shape(r) != np.shape(arg) or [h(v) for v in np.asarray(r).reshape(-1)] != want:
                        issue(name, unit, label, 'bad-result-shape', 'accepted, but the result has shape %r / other values than the element-wise conversion (input shape %r)' % (np.shape(r), np.shape(arg)))
                # --- masked arrays: unmasked elements like scalars, input untouched ------------------------------
                data = np.array(xs[:12]); mask = np.array([i % 3 == 1 for i in range(12)])
                ma = np.ma.masked_array(data.copy(), mask=mask.copy())
                try:
                    r = f(ma, deg=deg)
                    rd = np.ma.getdata(r)
                    if np.shape(r) != (12,) or any(h(rd[i]) != ref(data[i]) for i in range(12) if not mask[i]):
                        issue(name, unit, 'masked array', 'array-differs-from-scalars', 'unmasked elements of a masked array give other values than the scalar calls')
                    if isinstance(r, np.ma.MaskedArray) and not np.array_equal(np.ma.getmaskarray(r), mask):
                        issue(name, unit, 'masked array', 'array-differs-from-scalars', 'the mask of the result differs from the mask of the input')
                    if not np.array_equal(np.ma.getmaskarray(ma), mask) or np.ma.getdata(ma).tobytes() != data.tobytes():
                        issue(name, unit, 'masked array', 'input-modified', 'the masked input array was changed by the call')
                except (TypeError, ValueError):
                    pass
                # --- float32 / float16: in range and close, in their own precision -------------------------------
                for dt in (np.float32, np.float16):
                    lim = 6e4 if dt is np.float16 else 1e6
                    vals = np.array([x for x in xs if abs(x) <= lim], dtype=dt)
                    halfturn = dt(180.0) if deg else dt(np.pi)
                    full = dt(360.0) if deg else dt(2.0) * dt(np.pi)
                    for form, arg in (('array', vals), ('scalars', None)):
                        try:
                            res = f(vals, deg=deg) if form == 'array' else np.array([f(v, deg=deg) for v in vals])
                        except Exception as e:  # noqa
                            issue(name, unit, '%s %s' % (np.dtype(dt).name, form), 'exception', type(e).__name__)
                            continue
                        res = np.asarray(res)
                        if res.shape != vals.shape or not np.issubdtype(res.dtype, np.floating):
                            issue(name, unit, '%s %s' % (np.dtype(dt).name, form), 'bad-result-shape', 'shape %r dtype %s' % (res.shape, res.dtype))
                            continue
                        r64 = res.astype(np.float64)
                        lo, hi = (0.0, float(full)) if name == 'yaw_to_heading' else (-float(halfturn), float(halfturn))
                        if res.dtype == np.float64:
                            lo, hi = (0.0, period) if name == 'yaw_to_heading' else (-period / 2, period / 2)
                        bad = np.nonzero(~((r64 >= lo) & (r64 < hi)))[0]
                        if bad.size:
                            issue(name, unit, '%s %s' % (np.dtype(dt).name, form), 'out-of-range', 'input %r gives %r' % (float(vals[bad[0]]), float(r64[bad[0]])))
                            continue
                        want = np.array([float(f(float(v), deg=deg)) for v in vals])
                        d = np.abs(r64 - want) % period; d = np.minimum(d, period - d)
                        tol = (6.0 if deg else 16.0) * np.spacing(np.maximum(np.abs(vals), dt(scale))).astype(np.float64)
                        if not deg:
                            tol = tol + np.abs(vals.astype(np.float64)) * float(np.finfo(dt).eps)      # period constant rounded to this precision
                        badc = np.nonzero(d > tol)[0]
                        if badc.size:
                            j = badc[0]
                            issue(name, unit, '%s %s' % (np.dtype(dt).name, form), 'wrong-angle',
                                  'input %r gives %r, the float64 conversion gives %r (tolerance %g)' % (float(vals[j]), float(r64[j]), float(want[j]), float(tol[j])))
                # --- numpy error state: no spurious floating-point exception for finite input, same values ---------
                a = np.array(xs + [5e-324, -5e-324, 2.2250738585072014e-308, 1.7976931348623157e308, -1.7976931348623157e308, 0.0, -0.0])
                base = [h(v) for v in f(a, deg=deg)]
                for state in ('raise', 'ignore', 'warn'):
                    try:
                        with np.errstate(all=state):
                            import warnings
                            with warnings.catch_warnings():
                                warnings.simplefilter('error' if state == 'warn' else 'default')
                                got = [h(v) for v in f(a.copy(), deg=deg)]
                                sc = [h(f(float(v), deg=deg)) for v in a[-7:]]
                        if got != base or sc != base[-7:]:
                            issue(name, unit, 'np.errstate(all=%r)' % state, 'depends-on-error-state', 'results differ under np.errstate(all=%r)' % state)
                    except Exception as e:  # noqa
                        issue(name, unit, 'np.errstate(all=%r)' % state, 'spurious-fp-exception',
                              'finite inputs raise %s under np.errstate(all=%r): %s' % (type(e).__name__, state, e))
                # --- non-finite elements: NaN out, finite neighbours untouched, nothing raised ---------------------
                for bad in (float('nan'), float('inf'), float('-inf')):
                    a = np.array(xs[:16]); pos = [0, 7, 15]
                    a[pos] = bad
                    try:
                        with np.errstate(all='ignore'):
                            r = np.asarray(f(a, deg=deg), dtype=np.float64)
                            rs = f(bad, deg=deg)
                    except Exception as e:  # noqa
                        issue(name, unit, 'array with %r' % bad, 'exception', 'an array containing %r raises %s' % (bad, type(e).__name__))
                        continue
                    if r.shape != a.shape or any(h(r[i]) != ref(a[i]) for i in range(16) if i not in pos):
                        issue(name, unit, 'array with %r' % bad, 'array-differs-from-scalars', 'finite elements next to %r give other values than the scalar calls' % bad)
                    elif not all(np.isnan(r[i]) for i in pos) or not np.isnan(float(rs)):
                        issue(name, unit, 'array with %r' % bad, 'non-finite-input-not-nan', '%r is converted to %r (array) / %r (scalar) instead of NaN' % (bad, [float(r[i]) for i in pos], float(rs)))
            except Exception as e:  # noqa
                issue(name, unit, 'argument-forms', 'exception', 'the observation sequence raised %s: %s' % (type(e).__name__, e))
    return issues


def _readonly(a):
    a.flags.writeable = False
    return a


def main():
    inp = json.load(open(sys.argv[1]))
    out = {}
    for unit, deg in (('deg', True), ('rad', False)):
        xs = [float.fromhex(h) for h in inp[unit]]
        for name, f in (('y2h', yaw_to_heading), ('h2y', heading_to_yaw)):
            out['%s_%s' % (name, unit)] = {
                'scalar': scalar(f, xs, deg, float),
                'npscalar': scalar(f, xs, deg, np.float64),
                'array': array(f, xs, deg),
                'array2d': array(f, xs, deg, shape2d=True),
            }
        rt = {'yhy': [], 'hyh': []}
        for x in xs:
            try:
                rt['yhy'].append(hx(heading_to_yaw(yaw_to_heading(x, deg=deg), deg=deg)))
            except Exception as e:  # noqa
                rt['yhy'].append('EXC:%s' % type(e).__name__)
            try:
                rt['hyh'].append(hx(yaw_to_heading(heading_to_yaw(x, deg=deg), deg=deg)))
            except Exception as e:  # noqa
                rt['hyh'].append('EXC:%s' % type(e).__name__)
        out['roundtrip_%s' % unit] = rt
    # advisory only: the unit used when `deg` is not given (the README speaks in degrees)
    dflt = {}
    xs = [float.fromhex(h) for h in inp['deg'][:64]]
    for name, f in (('y2h', yaw_to_heading), ('h2y', heading_to_yaw)):
        r = []
        for x in xs:
            try:
                r.append(hx(f(x)))
            except Exception as e:  # noqa
                r.append('EXC:%s' % type(e).__name__)
        dflt[name] = r
    out['default_unit'] = dflt
    out['array_semantics'] = (array_semantics(inp.get('sem', {})) + history_semantics(inp.get('sem', {}))
                              + large_arrays(inp, out, inp.get('lengths', []))
                              + compositions(inp, out, inp.get('groups', {}))
                              + shapes(inp, out)
                              + forms_and_environment(inp, out, inp.get('sem', {})))
    json.dump(out, open(sys.argv[2], 'w'))


if __name__ == '__main__':
    main()
