"""C19 IMPL runner (runs under /venv/bin/python with PYTHONPATH=<repo>/python).

usage: c19_impl.py <in.json> <out.json>
in : {"deg": [hex, ...], "rad": [hex, ...]}                       inputs as float.hex strings
out: {"<fn>_<unit>": {"scalar": [...], "npscalar": [...], "array": [...], "array2d": [...]}, ...,
      "roundtrip_<unit>": {"yhy": [...], "hyh": [...]},
      "default_unit": {"y2h": [...], "h2y": [...]}}     f(x) without `deg`, first 64 degree inputs (advisory)
     fn in {y2h, h2y}; every result is float.hex of the returned value, or "EXC:<type>" if the call raised,
     or "TYPE:<type>" if the return value is not a real scalar / not an array of the input's shape.
Only return values are observed.
"""
import json
import sys

import numpy as np

from fusion_engine_client.messages.defs import heading_to_yaw, yaw_to_heading


def hx(v):
    try:
        if isinstance(v, np.ndarray) and v.ndim != 0:
            return 'TYPE:ndarray%r' % (v.shape,)
        return float(v).hex()
    except Exception as e:  # noqa
        return 'TYPE:%s' % type(v).__name__


def scalar(f, xs, deg, conv):
    out = []
    for x in xs:
        try:
            out.append(hx(f(conv(x), deg=deg)))
        except Exception as e:  # noqa
            out.append('EXC:%s' % type(e).__name__)
    return out


def array(f, xs, deg, shape2d=False):
    a = np.array(xs, dtype=np.float64)
    if shape2d:
        # a non-contiguous 2-D view: exercises the strided ufunc loops
        pad = (-len(xs)) % 4
        a = np.concatenate([a, np.zeros(pad)]).reshape(-1, 4).T
    try:
        r = f(a, deg=deg)
    except Exception as e:  # noqa
        return ['EXC:%s' % type(e).__name__] * len(xs)
    if not isinstance(r, np.ndarray) or r.shape != a.shape:
        return ['TYPE:%s' % type(r).__name__] * len(xs)
    if shape2d:
        r = r.T.reshape(-1)[:len(xs)]
    return [hx(v) for v in r]


def main():
    inp = json.load(open(sys.argv[1]))
    out = {}
    for unit, deg in (('deg', True), ('rad', False)):
        xs = [float.fromhex(h) for h in inp[unit]]
        for name, f in (('y2h', yaw_to_heading), ('h2y', heading_to_yaw)):
            out['%s_%s' % (name, unit)] = {
                'scalar': scalar(f, xs, deg, float),
                'npscalar': scalar(f, xs, deg, np.float64),
                'array': array(f, xs, deg),
                'array2d': array(f, xs, deg, shape2d=True),
            }
        rt = {'yhy': [], 'hyh': []}
        for x in xs:
            try:
                rt['yhy'].append(hx(heading_to_yaw(yaw_to_heading(x, deg=deg), deg=deg)))
            except Exception as e:  # noqa
                rt['yhy'].append('EXC:%s' % type(e).__name__)
            try:
                rt['hyh'].append(hx(yaw_to_heading(heading_to_yaw(x, deg=deg), deg=deg)))
            except Exception as e:  # noqa
                rt['hyh'].append('EXC:%s' % type(e).__name__)
        out['roundtrip_%s' % unit] = rt
    # advisory only: the unit used when `deg` is not given (the README speaks in degrees)
    dflt = {}
    xs = [float.fromhex(h) for h in inp['deg'][:64]]
    for name, f in (('y2h', yaw_to_heading), ('h2y', heading_to_yaw)):
        r = []
        for x in xs:
            try:
                r.append(hx(f(x)))
            except Exception as e:  # noqa
                r.append('EXC:%s' % type(e).__name__)
        dflt[name] = r
    out['default_unit'] = dflt
    json.dump(out, open(sys.argv[2], 'w'))


if __name__ == '__main__':
    main()
