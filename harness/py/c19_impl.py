"""C19 IMPL runner (runs under /venv/bin/python with PYTHONPATH=<repo>/python).

usage: c19_impl.py <in.json> <out.json>
in : {"deg": [hex, ...], "rad": [hex, ...]}                       inputs as float.hex strings
out: {"<fn>_<unit>": {"scalar": [...], "npscalar": [...], "array": [...], "array2d": [...]}, ...,
      "roundtrip_<unit>": {"yhy": [...], "hyh": [...]},
      "default_unit": {"y2h": [...], "h2y": [...]}}     f(x) without `deg`, first 64 degree inputs (advisory)
     fn in {y2h, h2y}; every result is float.hex of the returned value, or "EXC:<type>" if the call raised,
     or "TYPE:<type>" if the return value is not a real scalar / not an array of the input's shape.
Only return values are observed.
"""
import json
import sys

import numpy as np

from fusion_engine_client.messages.defs import heading_to_yaw, yaw_to_heading


def hx(v):
    try:
        if isinstance(v, np.ndarray) and v.ndim != 0:
            return 'TYPE:ndarray%r' % (v.shape,)
        return float(v).hex()
    except Exception as e:  # noqa
        return 'TYPE:%s' % type(v).__name__


def scalar(f, xs, deg, conv):
    out = []
    for x in xs:
        try:
            out.append(hx(f(conv(x), deg=deg)))
        except Exception as e:  # noqa
            out.append('EXC:%s' % type(e).__name__)
    return out


def array(f, xs, deg, shape2d=False):
    a = np.array(xs, dtype=np.float64)
    if shape2d:
        # a non-contiguous 2-D view: exercises the strided ufunc loops
        pad = (-len(xs)) % 4
        a = np.concatenate([a, np.zeros(pad)]).reshape(-1, 4).T
    try:
        r = f(a, deg=deg)
    except Exception as e:  # noqa
        return ['EXC:%s' % type(e).__name__] * len(xs)
    if not isinstance(r, np.ndarray) or r.shape != a.shape:
        return ['TYPE:%s' % type(r).__name__] * len(xs)
    if shape2d:
        r = r.T.reshape(-1)[:len(xs)]
    return [hx(v) for v in r]


def bits(a):
    """exact content of an array-like (dtype, shape and bytes in logical order)"""
    a = np.asarray(a)
    return (str(a.dtype), a.shape, np.ascontiguousarray(a).tobytes())


def array_semantics(sem):
    """Calling conventions of the array form, for several kinds of input built from sem[unit] (hex floats):
    the caller's input must be bit-identical after the call, the result must not share memory with it, must be an
    ndarray of the input's shape (a real scalar for 0-d / scalar input), calling twice must give identical results,
    integer arrays must give the values of the corresponding float scalars, and the round trip through both
    functions - using the caller's original array object afterwards - must equal the element-wise scalar round trip.
    Returns a list of issues {fn, unit, input_kind, issue, detail}."""
    issues = []

    def issue(fn, unit, kind, what, detail):
        issues.append({'fn': fn, 'unit': unit, 'input_kind': kind, 'issue': what, 'detail': detail})

    for unit, deg in (('deg', True), ('rad', False)):
        xs = [float.fromhex(h) for h in sem.get(unit, [])]
        if not xs:
            continue
        n4 = len(xs) - len(xs) % 4
        base = np.array(xs + xs, dtype=np.float64)

        def kinds():
            yield 'float64-1d', np.array(xs, dtype=np.float64), None
            b = base.copy()
            yield 'float64-strided-view', b[::2], b
            if n4:
                yield 'float64-2d', np.array(xs[:n4], dtype=np.float64).reshape(-1, 4), None
                b2 = np.array(xs[:n4], dtype=np.float64).reshape(4, -1)
                yield 'float64-2d-transposed-view', b2.T, b2
            yield 'float64-0d', np.array(xs[0], dtype=np.float64), None
            yield 'float64-1-element', np.array(xs[:1], dtype=np.float64), None
            yield 'float64-readonly', _readonly(np.array(xs, dtype=np.float64)), None
            yield 'float32-1d', np.array(xs, dtype=np.float32), None
            yield 'int64-1d', np.array([int(max(-1e6, min(1e6, round(x)))) for x in xs], dtype=np.int64), None
            yield 'list', list(xs), None

        for name, f in (('yaw_to_heading', yaw_to_heading), ('heading_to_yaw', heading_to_yaw)):
            for kind, a, owner in kinds():
                before = bits(a); before_owner = bits(owner) if owner is not None else None
                try:
                    r1 = f(a, deg=deg)
                except Exception as e:  # noqa
                    if kind != 'list':      # the functions are documented for floats and ndarrays only
                        issue(name, unit, kind, 'exception', type(e).__name__)
                    if bits(a) != before:
                        issue(name, unit, kind, 'input-modified', 'the call raised and left the caller\'s input changed')
                    continue
                if bits(a) != before or (owner is not None and bits(owner) != before_owner):
                    aa = np.asarray(a).reshape(-1); bb = np.frombuffer(before[2], dtype=before[0])
                    j = next((i for i in range(len(bb)) if aa[i].tobytes() != bb[i].tobytes()), 0)
                    issue(name, unit, kind, 'input-modified', 'element %d of the caller\'s input was %r before the call and is %r after it' % (j, bb[j].item(), aa[j].item()))
                    # restore for the remaining observations
                    if kind != 'list' and a.flags.writeable:
                        a[...] = np.frombuffer(before[2], dtype=before[0]).reshape(before[1])
                if isinstance(a, np.ndarray) and isinstance(r1, np.ndarray) and np.shares_memory(r1, a):
                    issue(name, unit, kind, 'result-aliases-input', 'np.shares_memory(result, input) is True')
                want_shape = np.shape(a)
                if want_shape == ():
                    if np.ndim(r1) != 0:
                        issue(name, unit, kind, 'bad-result-shape', '0-d input gave a result of shape %r' % (np.shape(r1),))
                elif kind != 'list' and (not isinstance(r1, np.ndarray) or r1.shape != want_shape):
                    issue(name, unit, kind, 'bad-result-shape', 'input shape %r, result %s of shape %r' % (want_shape, type(r1).__name__, np.shape(r1)))
                snapshot = bits(r1)
                try:
                    r2 = f(a, deg=deg)
                    if bits(r2) != snapshot:
                        issue(name, unit, kind, 'not-repeatable', 'calling twice on the same input object gives different results')
                    elif bits(r1) != snapshot:
                        issue(name, unit, kind, 'result-aliases-input', 'the first result changed when the function was called again')
                except Exception as e:  # noqa
                    issue(name, unit, kind, 'not-repeatable', 'second call raised %s' % type(e).__name__)
                if kind == 'int64-1d' and isinstance(r1, np.ndarray) and r1.shape == want_shape:
                    ref = [f(float(v), deg=deg) for v in np.frombuffer(before[2], dtype=np.int64)]
                    if [float(v).hex() for v in r1] != [float(v).hex() for v in ref]:
                        issue(name, unit, kind, 'int-array-differs', 'integer array gives other values than the same numbers as floats')
        # round trips on arrays, reusing the caller's original object after the first call
        for kind, a, owner in kinds():
            if not kind.startswith('float64') or kind == 'float64-0d':
                continue
            for first, second, nm in ((yaw_to_heading, heading_to_yaw, 'heading_to_yaw(yaw_to_heading(a))'),
                                      (heading_to_yaw, yaw_to_heading, 'yaw_to_heading(heading_to_yaw(a))')):
                flat0 = [float(v) for v in np.asarray(a).reshape(-1)]
                try:
                    ref = [float(second(first(v, deg=deg), deg=deg)).hex() for v in flat0]
                    mid = first(a, deg=deg)
                    back = second(mid, deg=deg)
                    again = second(first(a, deg=deg), deg=deg)        # the original object, used a second time
                    for label, res in (('', back), (' when the same array object is used again', again)):
                        got = [float(v).hex() for v in np.asarray(res).reshape(-1)]
                        if got != ref:
                            j = next((i for i in range(min(len(got), len(ref))) if got[i] != ref[i]), 0)
                            issue('roundtrip', unit, kind, 'array-roundtrip-differs',
                                  '%s%s: element %d (input %r) gives %s, the scalar round trip gives %s'
                                  % (nm, label, j, flat0[j], got[j] if j < len(got) else None, ref[j]))
                            break
                except Exception as e:  # noqa
                    issue('roundtrip', unit, kind, 'exception', '%s raised %s' % (nm, type(e).__name__))
    return issues


def _readonly(a):
    a.flags.writeable = False
    return a


def main():
    inp = json.load(open(sys.argv[1]))
    out = {}
    for unit, deg in (('deg', True), ('rad', False)):
        xs = [float.fromhex(h) for h in inp[unit]]
        for name, f in (('y2h', yaw_to_heading), ('h2y', heading_to_yaw)):
            out['%s_%s' % (name, unit)] = {
                'scalar': scalar(f, xs, deg, float),
                'npscalar': scalar(f, xs, deg, np.float64),
                'array': array(f, xs, deg),
                'array2d': array(f, xs, deg, shape2d=True),
            }
        rt = {'yhy': [], 'hyh': []}
        for x in xs:
            try:
                rt['yhy'].append(hx(heading_to_yaw(yaw_to_heading(x, deg=deg), deg=deg)))
            except Exception as e:  # noqa
                rt['yhy'].append('EXC:%s' % type(e).__name__)
            try:
                rt['hyh'].append(hx(yaw_to_heading(heading_to_yaw(x, deg=deg), deg=deg)))
            except Exception as e:  # noqa
                rt['hyh'].append('EXC:%s' % type(e).__name__)
        out['roundtrip_%s' % unit] = rt
    # advisory only: the unit used when `deg` is not given (the README speaks in degrees)
    dflt = {}
    xs = [float.fromhex(h) for h in inp['deg'][:64]]
    for name, f in (('y2h', yaw_to_heading), ('h2y', heading_to_yaw)):
        r = []
        for x in xs:
            try:
                r.append(hx(f(x)))
            except Exception as e:  # noqa
                r.append('EXC:%s' % type(e).__name__)
        dflt[name] = r
    out['default_unit'] = dflt
    out['array_semantics'] = array_semantics(inp.get('sem', {}))
    json.dump(out, open(sys.argv[2], 'w'))


if __name__ == '__main__':
    main()
