"""C19 IMPL runner (runs under /venv/bin/python with PYTHONPATH=<repo>/python).

usage: c19_impl.py <in.json> <out.json>
in : {"deg": [hex, ...], "rad": [hex, ...]}                       inputs as float.hex strings
out: {"<fn>_<unit>": {"scalar": [...], "npscalar": [...], "array": [...], "array2d": [...]}, ...,
      "roundtrip_<unit>": {"yhy": [...], "hyh": [...]},
      "default_unit": {"y2h": [...], "h2y": [...]}}     f(x) without `deg`, first 64 degree inputs (advisory)
     fn in {y2h, h2y}; every result is float.hex of the returned value, or "EXC:<type>" if the call raised,
     or "TYPE:<type>" if the return value is not a real scalar / not an array of the input's shape.
Only return values are observed.
"""
import json
import sys

import numpy as np

from fusion_engine_client.messages.defs import heading_to_yaw, yaw_to_heading


def hx(v):
    try:
        if isinstance(v, np.ndarray) and v.ndim != 0:
            return 'TYPE:ndarray%r' % (v.shape,)
        return float(v).hex()
    except Exception as e:  # noqa
        return 'TYPE:%s' % type(v).__name__


def scalar(f, xs, deg, conv):
    out = []
    for x in xs:
        try:
            out.append(hx(f(conv(x), deg=deg)))
        except Exception as e:  # noqa
            out.append('EXC:%s' % type(e).__name__)
    return out


def array(f, xs, deg, shape2d=False):
    a = np.array(xs, dtype=np.float64)
    if shape2d:
        # a non-contiguous 2-D view: exercises the strided ufunc loops
        pad = (-len(xs)) % 4
        a = np.concatenate([a, np.zeros(pad)]).reshape(-1, 4).T
    try:
        r = f(a, deg=deg)
    except Exception as e:  # noqa
        return ['EXC:%s' % type(e).__name__] * len(xs)
    if not isinstance(r, np.ndarray) or r.shape != a.shape:
        return ['TYPE:%s' % type(r).__name__] * len(xs)
    if shape2d:
        r = r.T.reshape(-1)[:len(xs)]
    return [hx(v) for v in r]


def bits(a):
    """exact content of an array-like (dtype, shape and bytes in logical order)"""
    a = np.asarray(a)
    return (str(a.dtype), a.shape, np.ascontiguousarray(a).tobytes())


def array_semantics(sem):
    """Calling conventions of the array form, for several kinds of input built from sem[unit] (hex floats):
    the caller's input must be bit-identical after the call, the result must not share memory with it, must be an
    ndarray of the input's shape (a real scalar for 0-d / scalar input), calling twice must give identical results,
    integer arrays must give the values of the corresponding float scalars, and the round trip through both
    functions - using the caller's original array object afterwards - must equal the element-wise scalar round trip.
    Returns a list of issues {fn, unit, input_kind, issue, detail}."""
    issues = []

    def issue(fn, unit, kind, what, detail):
        issues.append({'fn': fn, 'unit': unit, 'input_kind': kind, 'issue': what, 'detail': detail})

    for unit, deg in (('deg', True), ('rad', False)):
        xs = [float.fromhex(h) for h in sem.get(unit, [])]
        if not xs:
            continue
        n4 = len(xs) - len(xs) % 4
        base = np.array(xs + xs, dtype=np.float64)

        def kinds():
            yield 'float64-1d', np.array(xs, dtype=np.float64), None
            b = base.copy()
            yield 'float64-strided-view', b[::2], b
            if n4:
                yield 'float64-2d', np.array(xs[:n4], dtype=np.float64).reshape(-1, 4), None
                b2 = np.array(xs[:n4], dtype=np.float64).reshape(4, -1)
                yield 'float64-2d-transposed-view', b2.T, b2
            yield 'float64-0d', np.array(xs[0], dtype=np.float64), None
            yield 'float64-1-element', np.array(xs[:1], dtype=np.float64), None
            yield 'float64-readonly', _readonly(np.array(xs, dtype=np.float64)), None
            yield 'float32-1d', np.array(xs, dtype=np.float32), None
            yield 'int64-1d', np.array([int(max(-1e6, min(1e6, round(x)))) for x in xs], dtype=np.int64), None
            yield 'list', list(xs), None

        for name, f in (('yaw_to_heading', yaw_to_heading), ('heading_to_yaw', heading_to_yaw)):
            for kind, a, owner in kinds():
                before = bits(a); before_owner = bits(owner) if owner is not None else None
                try:
                    r1 = f(a, deg=deg)
                except Exception as e:  # noqa
                    if kind != 'list':      # the functions are documented for floats and ndarrays only
                        issue(name, unit, kind, 'exception', type(e).__name__)
                    if bits(a) != before:
                        issue(name, unit, kind, 'input-modified', 'the call raised and left the caller\'s input changed')
                    continue
                if bits(a) != before or (owner is not None and bits(owner) != before_owner):
                    aa = np.asarray(a).reshape(-1); bb = np.frombuffer(before[2], dtype=before[0])
                    j = next((i for i in range(len(bb)) if aa[i].tobytes() != bb[i].tobytes()), 0)
                    issue(name, unit, kind, 'input-modified', 'element %d of the caller\'s input was %r before the call and is %r after it' % (j, bb[j].item(), aa[j].item()))
                    # restore for the remaining observations
                    if kind != 'list' and a.flags.writeable:
                        a[...] = np.frombuffer(before[2], dtype=before[0]).reshape(before[1])
                if isinstance(a, np.ndarray) and isinstance(r1, np.ndarray) and np.shares_memory(r1, a):
                    issue(name, unit, kind, 'result-aliases-input', 'np.shares_memory(result, input) is True')
                want_shape = np.shape(a)
                if want_shape == ():
                    if np.ndim(r1) != 0:
                        issue(name, unit, kind, 'bad-result-shape', '0-d input gave a result of shape %r' % (np.shape(r1),))
                elif kind != 'list' and (not isinstance(r1, np.ndarray) or r1.shape != want_shape):
                    issue(name, unit, kind, 'bad-result-shape', 'input shape %r, result %s of shape %r' % (want_shape, type(r1).__name__, np.shape(r1)))
                snapshot = bits(r1)
                try:
                    r2 = f(a, deg=deg)
                    if bits(r2) != snapshot:
                        issue(name, unit, kind, 'not-repeatable', 'calling twice on the same input object gives different results')
                    elif bits(r1) != snapshot:
                        issue(name, unit, kind, 'result-aliases-input', 'the first result changed when the function was called again')
                except Exception as e:  # noqa
                    issue(name, unit, kind, 'not-repeatable', 'second call raised %s' % type(e).__name__)
                if kind == 'int64-1d' and isinstance(r1, np.ndarray) and r1.shape == want_shape:
                    ref = [f(float(v), deg=deg) for v in np.frombuffer(before[2], dtype=np.int64)]
                    if [float(v).hex() for v in r1] != [float(v).hex() for v in ref]:
                        issue(name, unit, kind, 'int-array-differs', 'integer array gives other values than the same numbers as floats')
        # round trips on arrays, reusing the caller's original object after the first call
        for kind, a, owner in kinds():
            if not kind.startswith('float64') or kind == 'float64-0d':
                continue
            for first, second, nm in ((yaw_to_heading, heading_to_yaw, 'heading_to_yaw(yaw_to_heading(a))'),
                                      (heading_to_yaw, yaw_to_heading, 'yaw_to_heading(heading_to_yaw(a))')):
                flat0 = [float(v) for v in np.asarray(a).reshape(-1)]
                try:
                    ref = [float(second(first(v, deg=deg), deg=deg)).hex() for v in flat0]
                    mid = first(a, deg=deg)
                    back = second(mid, deg=deg)
                    again = second(first(a, deg=deg), deg=deg)        # the original object, used a second time
                    for label, res in (('', back), (' when the same array object is used again', again)):
                        got = [float(v).hex() for v in np.asarray(res).reshape(-1)]
                        if got != ref:
                            j = next((i for i in range(min(len(got), len(ref))) if got[i] != ref[i]), 0)
                            issue('roundtrip', unit, kind, 'array-roundtrip-differs',
                                  '%s%s: element %d (input %r) gives %s, the scalar round trip gives %s'
                                  % (nm, label, j, flat0[j], got[j] if j < len(got) else None, ref[j]))
                            break
                except Exception as e:  # noqa
                    issue('roundtrip', unit, kind, 'exception', '%s raised %s' % (nm, type(e).__name__))
    return issues


def _u64(a):
    return np.ascontiguousarray(a, dtype=np.float64).reshape(-1).view(np.uint64)


def large_arrays(inp, out, lengths):
    """Array calls at many lengths (tiling the main input set, rotated so that block boundaries fall on different
    elements), compared element-wise and bit-for-bit with the scalar results of the same inputs (out[...]['scalar'],
    which the check compares with the exact SPEC and the model)."""
    issues = []
    for unit, deg in (('deg', True), ('rad', False)):
        xs = np.array([float.fromhex(h) for h in inp[unit]], dtype=np.float64)
        if xs.size == 0:
            continue
        for key, name, f in (('y2h', 'yaw_to_heading', yaw_to_heading), ('h2y', 'heading_to_yaw', heading_to_yaw)):
            sc = out['%s_%s' % (key, unit)]['scalar']
            if any(v.startswith(('EXC', 'TYPE')) for v in sc):
                continue        # already reported by the scalar comparison
            ref = np.array([float.fromhex(v) for v in sc], dtype=np.float64)
            for n in lengths:
                idx = (np.arange(n) + (n * 7919) % xs.size) % xs.size
                shapes = [(n,)]
                if n >= 1024 and n % 8 == 0:
                    shapes.append((n // 8, 8))
                for shp in shapes:
                    a = xs[idx].reshape(shp); keep = a.copy()
                    kind = 'float64 shape %r' % (shp,)
                    try:
                        r = f(a, deg=deg)
                    except Exception as e:  # noqa
                        issues.append({'fn': name, 'unit': unit, 'input_kind': 'large-array', 'issue': 'exception', 'detail': '%s: %s' % (kind, type(e).__name__), 'length': n})
                        continue
                    if not isinstance(r, np.ndarray) or r.shape != shp:
                        issues.append({'fn': name, 'unit': unit, 'input_kind': 'large-array', 'issue': 'bad-result-shape',
                                       'detail': '%s gives %s of shape %r' % (kind, type(r).__name__, np.shape(r)), 'length': n})
                        continue
                    bad = np.nonzero(_u64(r) != _u64(ref[idx]))[0]
                    if bad.size:
                        j = int(bad[0])
                        issues.append({'fn': name, 'unit': unit, 'input_kind': 'large-array', 'issue': 'array-differs-from-scalars', 'length': n,
                                       'detail': '%s: %d of %d elements differ from the scalar results, first at flat index %d (input %r): array %s, scalar %s'
                                                 % (kind, bad.size, n, j, float(a.reshape(-1)[j]), float(r.reshape(-1)[j]).hex(), float(ref[idx][j]).hex())})
                    if (_u64(a) != _u64(keep)).any():
                        issues.append({'fn': name, 'unit': unit, 'input_kind': 'large-array', 'issue': 'input-modified', 'detail': kind, 'length': n})
    # keep one issue per (fn, unit, issue): the shortest array
    best = {}
    for it in issues:
        k = (it['fn'], it['unit'], it['issue'])
        if k not in best or it['length'] < best[k]['length']:
            best[k] = it
    return list(best.values())


def history_semantics(sem):
    """The result of a call depends only on the current contents of its argument: sequences of calls on one array
    object with in-place changes of the array (and of earlier results) in between, alternating units and functions,
    and arrays that are released and re-created.  Every result is compared bit-for-bit with the scalar calls on the
    array's contents at that moment (contents are always permutations / selections of the given inputs)."""
    issues = []

    def issue(fn, unit, what, detail):
        if not any(i['fn'] == fn and i['unit'] == unit and i['issue'] == what for i in issues):
            issues.append({'fn': fn, 'unit': unit, 'input_kind': 'history', 'issue': what, 'detail': detail})

    funcs = (('yaw_to_heading', yaw_to_heading), ('heading_to_yaw', heading_to_yaw))
    cache = {}

    def ref(name, f, a, deg):
        outv = []
        for v in np.asarray(a, dtype=np.float64).reshape(-1):
            k = (name, deg, float(v).hex())
            if k not in cache:
                cache[k] = float(f(float(v), deg=deg)).hex()
            outv.append(cache[k])
        return outv

    def same(r, want):
        try:
            return [float(v).hex() for v in np.asarray(r).reshape(-1)] == want
        except Exception:  # noqa
            return False

    for unit, deg in (('deg', True), ('rad', False)):
        xs = [float.fromhex(h) for h in sem.get(unit, [])]
        if len(xs) < 8:
            continue
        half = len(xs) // 2
        for name, f in funcs:
            try:
                # 1. convert; change the array in place (several ways); convert again
                a = np.array(xs[:half], dtype=np.float64)
                steps = [('initial contents', lambda a: None),
                         ('after a[:] = a[::-1].copy()', lambda a: a.__setitem__(slice(None), a[::-1].copy())),
                         ('after a[::3] = other values', lambda a: a.__setitem__(slice(None, None, 3), np.array(xs[half:half + len(a[::3])]))),
                         ('after a.fill(v)', lambda a: a.fill(xs[-1])),
                         ('after a[0] = v', lambda a: a.__setitem__(0, xs[half])),
                         ('after np.copyto(a, other)', lambda a: np.copyto(a, np.array(xs[half:half + a.size]))),
                         ('after a.sort()', lambda a: a.sort())]
                for label, change in steps:
                    change(a)
                    r = f(a, deg=deg)
                    if not same(r, ref(name, f, a, deg)):
                        issue(name, unit, 'stale-or-history-dependent-result',
                              'sequence of calls on one array object: the call %s does not return the conversion of the current contents' % label)
                        break
                # 2. changing an earlier RESULT must not change a later one
                a = np.array(xs[:half], dtype=np.float64)
                r1 = f(a, deg=deg)
                if isinstance(r1, np.ndarray) and r1.flags.writeable:
                    r1[...] = 12345.0
                r2 = f(a, deg=deg)
                if not same(r2, ref(name, f, a, deg)):
                    issue(name, unit, 'stale-or-history-dependent-result', 'overwriting the array returned by one call changes what the next call on the same input returns')
                # 3. alternating units on one object
                a = np.array(xs[:half], dtype=np.float64)
                for d in (deg, not deg, deg, deg, not deg):
                    if not same(f(a, deg=d), ref(name, f, a, d)):
                        issue(name, unit, 'stale-or-history-dependent-result', 'alternating deg=True/deg=False calls on one array object: a call with deg=%s returns other values than the scalar calls' % d)
                        break
                # 5. release and re-create arrays of the same size (address / id reuse)
                for k in range(6):
                    b = np.array(xs[k:k + half], dtype=np.float64)
                    rb = f(b, deg=deg)
                    okb = same(rb, ref(name, f, b, deg))
                    del b, rb
                    if not okb:
                        issue(name, unit, 'stale-or-history-dependent-result', 'arrays created and released in a loop: conversion %d returns other values than the scalar calls' % k)
                        break
            except Exception as e:  # noqa
                issue(name, unit, 'exception', 'call sequence raised %s: %s' % (type(e).__name__, e))
        # 4. alternating the two functions on one object, with a change in between
        try:
            a = np.array(xs[:half], dtype=np.float64)
            seq = [funcs[0], funcs[1], funcs[0], funcs[1], funcs[1], funcs[0]]
            for i, (name, f) in enumerate(seq):
                if i == 3:
                    a[:] = a[::-1].copy()
                if not same(f(a, deg=deg), ref(name, f, a, deg)):
                    issue(name, unit, 'stale-or-history-dependent-result', 'alternating yaw_to_heading / heading_to_yaw on one array object (step %d): result differs from the scalar calls' % i)
                    break
        except Exception as e:  # noqa
            issue('roundtrip', unit, 'exception', 'alternating call sequence raised %s' % type(e).__name__)
    return issues


def _readonly(a):
    a.flags.writeable = False
    return a


def main():
    inp = json.load(open(sys.argv[1]))
    out = {}
    for unit, deg in (('deg', True), ('rad', False)):
        xs = [float.fromhex(h) for h in inp[unit]]
        for name, f in (('y2h', yaw_to_heading), ('h2y', heading_to_yaw)):
            out['%s_%s' % (name, unit)] = {
                'scalar': scalar(f, xs, deg, float),
                'npscalar': scalar(f, xs, deg, np.float64),
                'array': array(f, xs, deg),
                'array2d': array(f, xs, deg, shape2d=True),
            }
        rt = {'yhy': [], 'hyh': []}
        for x in xs:
            try:
                rt['yhy'].append(hx(heading_to_yaw(yaw_to_heading(x, deg=deg), deg=deg)))
            except Exception as e:  # noqa
                rt['yhy'].append('EXC:%s' % type(e).__name__)
            try:
                rt['hyh'].append(hx(yaw_to_heading(heading_to_yaw(x, deg=deg), deg=deg)))
            except Exception as e:  # noqa
                rt['hyh'].append('EXC:%s' % type(e).__name__)
        out['roundtrip_%s' % unit] = rt
    # advisory only: the unit used when `deg` is not given (the README speaks in degrees)
    dflt = {}
    xs = [float.fromhex(h) for h in inp['deg'][:64]]
    for name, f in (('y2h', yaw_to_heading), ('h2y', heading_to_yaw)):
        r = []
        for x in xs:
            try:
                r.append(hx(f(x)))
            except Exception as e:  # noqa
                r.append('EXC:%s' % type(e).__name__)
        dflt[name] = r
    out['default_unit'] = dflt
    out['array_semantics'] = (array_semantics(inp.get('sem', {})) + history_semantics(inp.get('sem', {}))
                              + large_arrays(inp, out, inp.get('lengths', [])))
    json.dump(out, open(sys.argv[2], 'w'))


if __name__ == '__main__':
    main()
