"""C17 introspection (runs under the IMPL interpreter, fresh process): member tables of every IntEnum subclass
defined in the fusion_engine_client package, mask-helper parameters, reserved attribute names.  JSON on stdout."""
import importlib, inspect, json, os, pkgutil, sys

OUT = os.fdopen(os.dup(1), 'w')   # some package modules rebind sys.stdout at import time


def main():
    import fusion_engine_client
    from fusion_engine_client.utils import enum_utils
    skipped, loaded = [], []
    for m in pkgutil.walk_packages(fusion_engine_client.__path__, 'fusion_engine_client.'):
        try:
            importlib.import_module(m.name)
            loaded.append(m.name)
        except BaseException as e:  # optional GUI / plotting dependencies may be missing
            skipped.append([m.name, type(e).__name__ + ': ' + str(e)[:120]])
    seen, todo, classes = set(), [enum_utils.IntEnum], []
    while todo:
        c = todo.pop()
        for s in c.__subclasses__():
            if s not in seen:
                seen.add(s)
                todo.append(s)
                classes.append(s)
    out = []
    for c in classes:
        if not c.__module__.startswith('fusion_engine_client.') or '<locals>' in c.__qualname__:
            continue
        # the object must be reachable by its advertised name (that is how the harness finds it again)
        obj = importlib.import_module(c.__module__)
        for part in c.__qualname__.split('.'):
            obj = getattr(obj, part)
        if obj is not c:
            raise RuntimeError('enum %s.%s is not reachable by its qualified name' % (c.__module__, c.__qualname__))
        members = [[k, int(v)] for k, v in c._member_map_.items()]
        ent = {'module': c.__module__, 'qualname': c.__qualname__, 'members': members,
               'member_names': list(c._member_names_)}
        if callable(getattr(c, 'to_bitmask', None)) and callable(getattr(c, 'to_values', None)):
            # an enum_bitmask helper; its parameters are read off its public behaviour: -1 has every bit set
            ev = c.to_values(-1)
            if not ev:
                raise RuntimeError('mask helper %s knows no members' % c.__qualname__)
            et = type(ev[0])
            # offset: what most members say (a helper that misbehaves on some member must still get a table, so that
            # the check can show the failing input); the private attribute only when behaviour says nothing
            cands = []
            for v in ev:
                try:
                    b = c.to_bitmask([v])
                except Exception:
                    continue
                if b > 0 and b & (b - 1) == 0:
                    cands.append(int(v) - (b.bit_length() - 1))
            if cands:
                off = max(set(cands), key=cands.count)
            elif hasattr(c, '_enum_offset'):
                off = int(c._enum_offset)
            else:
                raise RuntimeError('offset of mask helper %s cannot be determined' % c.__qualname__)
            if any(type(v) is not et for v in ev):
                raise RuntimeError('mask helper %s reports members of several enumerations' % c.__qualname__)
            ent['mask'] = {'offset': off, 'values': [[v.name, int(v)] for v in ev],
                           'enum': et.__module__ + ':' + et.__qualname__}
        out.append(ent)
    out.sort(key=lambda e: (e['module'], e['qualname']))

    class Dummy(enum_utils.IntEnum):
        pass
    internals = [e[0] for e in inspect.getmembers(Dummy)]
    # the naming of hidden members, read off a scratch class: prefix + separator + decimal value
    class Probe(enum_utils.IntEnum):
        A = 0
    prefix = enum_utils.DynamicEnumMeta.UNRECOGNIZED_PREFIX
    hidden = Probe(7, raise_on_unrecognized=False).name
    if not (hidden.startswith(prefix) and hidden.endswith('7') and len(hidden) > len(prefix)):
        raise RuntimeError('hidden member of value 7 is named %r: not prefix %r + separator + value' % (hidden, prefix))
    sep = hidden[len(prefix):-1]
    json.dump({'sep': sep, 'enums': out, 'skipped_modules': skipped, 'loaded_modules': len(loaded), 'internals': internals,
               'prefix': enum_utils.DynamicEnumMeta.UNRECOGNIZED_PREFIX}, OUT)
    OUT.flush()


main()
