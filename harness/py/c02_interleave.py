"""C02 interleaved probe: one interpreter, all classes, objects kept.

The byte and value probes look at one freshly unpacked object at a time.  Here every class is unpacked (every call path,
two rounds with different values at every leaf), ALL unpacked objects are kept, and at the end
  * every kept object is re-read and re-packed: its attributes and its pack() output must be what they were right after
    its own unpack (another message being decoded must not change it), and
  * the caller's buffer (a bytearray in round 1, a memoryview of one in round 2, where the library accepts it) is overwritten
    with 0xFF right after unpack: an unpacked object must not keep a view into the buffer it was read from, and
  * no two kept objects may share a mutable sub-object (an instance with attributes, a list, dict, set, bytearray or
    numpy array reachable from both).
One row per kept object: raw = its pack() bytes (as one number) right after unpack, obs = its pack() bytes at the end;
nothing observed (with a note) when its attributes changed or it shares state.

stdin as for c02_values.py; stdout {"c02i": 1, "rows": [...]}"""
import hashlib, json, os, sys

sys.path.insert(0, os.path.dirname(os.path.abspath(__file__)))
import c02_probe as P          # noqa: E402
import c02_values as V         # noqa: E402
import numpy as np             # noqa: E402
import enum                    # noqa: E402
import types                   # noqa: E402


def mutable_parts(o, path, out, depth=0, seen=None):
    """{id: (object, path)} of the mutable things reachable from o"""
    seen = seen if seen is not None else set()
    if id(o) in seen or depth > 6:
        return
    seen.add(id(o))
    if o is None or isinstance(o, (bool, int, float, complex, str, bytes, enum.Enum, type, types.ModuleType, types.FunctionType,
                                   types.MethodType, types.BuiltinFunctionType, np.generic)):
        return
    if isinstance(o, np.ndarray):
        out[id(o)] = (o, path)
        b = o.base
        if isinstance(b, np.ndarray):
            out[id(b)] = (b, path + '.base')
        return
    if isinstance(o, (list, set, bytearray, dict)):
        out[id(o)] = (o, path)
        items = o.items() if isinstance(o, dict) else enumerate(o) if isinstance(o, list) else []
        for k, v in items:
            if k != '_io':
                mutable_parts(v, '%s[%r]' % (path, k), out, depth + 1, seen)
        return
    if isinstance(o, tuple):
        for k, v in enumerate(o):
            mutable_parts(v, '%s[%d]' % (path, k), out, depth + 1, seen)
        return
    if hasattr(o, '__dict__'):
        out[id(o)] = (o, path)
        for k, v in vars(o).items():
            if k != '_io':
                mutable_parts(v, path + '.' + k, out, depth + 1, seen)


def number(b):
    return int.from_bytes(b, 'little') if b else 0


def main():
    req = json.load(sys.stdin)
    kept = []
    for rnd in (0, 1):
        for spec in req['structs']:
            n = spec['size']
            head = bytes.fromhex(spec.get('baseline_hex', ''))
            buf = bytearray(n + V.TAIL)
            buf[:len(head)] = head
            for leaf in spec['leaves']:
                v = leaf['values'][min(rnd, len(leaf['values']) - 1)]
                buf[leaf['offset']:leaf['offset'] + leaf['size']] = V.encode(leaf['kind'], leaf['size'], v)
            for path in (['explicit', 'default', 'decoder'] if spec['kind'] == 'payload' else ['only']):
                rec = {'struct': spec['cpp'], 'path': path, 'round': rnd, 'obj': None}
                try:
                    ad = P.Adapter(spec, path)
                    rec['ad'] = ad
                    own = bytearray(buf)
                    try:
                        rec['obj'], _ = ad.unpack_raw(own if rnd == 0 else memoryview(own))
                        rec['buffer_form'] = 'bytearray' if rnd == 0 else 'memoryview'
                    except Exception:
                        rec['obj'], _ = ad.unpack(buf)
                        rec['buffer_form'] = 'bytes'
                    rec['attrs'] = {a: P.canon(v) for a, v in ad.attrs(rec['obj']).items() if a != '_io'}
                    try:
                        rec['packed'] = ad.pack(rec['obj'])
                    except Exception:
                        rec['packed'] = None
                    if own != bytearray(buf):
                        rec['error_after'] = 'unpack() changed the caller\'s buffer'
                    own[:] = b'\xff' * len(own)          # the caller reuses its buffer
                except Exception as e:
                    rec['error'] = repr(e)[:160]
                kept.append(rec)
    # ---- everything has been decoded; look at all kept objects again
    owners = {}
    for i, rec in enumerate(kept):
        if rec.get('obj') is None:
            continue
        parts = {}
        mutable_parts(rec['obj'], rec['struct'], parts)
        rec['parts'] = parts
        for k, (o, pth) in parts.items():
            owners.setdefault(k, []).append((i, pth))
    rows = []
    for i, rec in enumerate(kept):
        row = {'struct': rec['struct'], 'leaf': '(kept object)', 'scale': [1, 1], 'obs': None,
               'how': 'kept object re-read and re-packed after all other classes were unpacked (path %s, round %d)' % (rec['path'], rec['round'] + 1)}
        if rec.get('obj') is None:
            row.update(how='skipped', skip='could not be unpacked with every leaf set: %s' % rec.get('error', ''), raw=[1, 1])
            rows.append(row)
            continue
        ad = rec['ad']
        digest = number(hashlib.sha1(repr(sorted(rec['attrs'].items())).encode()).digest()) or 1
        row['raw'] = [number(rec['packed']) or digest, 1]
        now = {a: P.canon(v) for a, v in ad.attrs(rec['obj']).items() if a != '_io'}
        changed = sorted(a for a in set(now) | set(rec['attrs']) if now.get(a) != rec['attrs'].get(a))
        shared = [(pth, kept[j]['struct'], kept[j]['path'], kept[j]['round'] + 1) for k, (o, pth) in rec['parts'].items()
                  for j, _ in owners[k] if j != i]
        if rec.get('error_after'):
            row['note'] = rec['error_after']
        elif changed:
            row['note'] = 'attributes %r changed although this object was not touched (its input buffer, a %s, was overwritten after unpack; other messages were unpacked)' % (changed, rec.get('buffer_form'))
        elif shared:
            row['note'] = 'shares the mutable object at %s with the %s unpacked on path %s in round %d' % shared[0]
        else:
            try:
                again = ad.pack(rec['obj']) if rec['packed'] is not None else None
                row['obs'] = [number(again) or digest, 1]
            except Exception as e:
                row['note'] = 're-pack raised %r' % (e,)
        rows.append(row)
    os.write(P.OUT_FD, (json.dumps({'c02i': 1, 'rows': rows}) + '\n').encode())


if __name__ == '__main__':
    main()
