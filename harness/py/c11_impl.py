"""C11 implementation runner.  usage: c11_impl.py <cases.jsonl> <out.jsonl> <logdir>
Each case: {"id", "log": spec, "logkey", "flags", "max_bytes", "srcs", "ops": [op...]}, op one of
  ["r"]                         next(reader)
  ["ft", [types]]               filter_in_place(set of MessageType)  (one element: the bare MessageType)
  ["fs", start8, stop8, hint, ts]  filter_in_place(slice(start, stop, hint))  floats (or Timestamps when ts), eighths of a second
  ["fr", start8, end8, abs, t0]   filter_in_place(TimeRange(...))
  ["fi", a, b, step]            filter_in_place(slice(a, b, step)) with ints
  ["u"]                         filter_out_invalid_p1_times()
  ["c"]                         clear_filters()
  ["w"]                         rewind()
  ["s", i, filtered]            seek_to_message(i, is_filtered_index=filtered)
  ["e"]                         seek_to_eof()
The script is run twice on two fresh readers (determinism); per op the result (yielded pieces / STOP / exception
class / DONE) and, as advisory private state, next_index_elem and len(index) when those attributes exist."""
import json, os, sys, warnings
warnings.filterwarnings('ignore')
sys.path.insert(0, os.path.dirname(os.path.abspath(__file__)))
import c10_logs as L
from fusion_engine_client.messages import Timestamp
from fusion_engine_client.parsers import MixedLogReader
from fusion_engine_client.utils.time_range import TimeRange

COMMON = dict(save_index=False, ignore_index=True, num_threads=1)
HINTS = {'i': 'include_nans', 'a': 'all_nans', 'r': 'remove_nans', None: None}


def private(r):
    try:
        return [int(r.next_index_elem), len(r.index)]
    except Exception:
        return None


def do_op(r, op, flags, kept=None):
    k = op[0]
    if k == 'r':
        x = next(r)
        if kept is not None:
            kept.append(x)
        return ['MSG', L.canon_result(x, flags)]
    if k == 'ft':
        ts = [L.mtype(t) for t in op[1]]
        form = op[2] if len(op) > 2 else None
        r.filter_in_place((ts[0] if len(ts) == 1 else set(ts)) if form is None else L.types_arg(op[1], form))
    elif k == 'fs':
        # op[4]: False / True (both floats / both Timestamps) or a two-letter string of 'f' / 't' per end
        reps = op[4] if len(op) > 4 and isinstance(op[4], str) else ('tt' if (len(op) > 4 and op[4]) else 'ff')
        r.filter_in_place(slice(L.endpoint(op[1], reps[0]), L.endpoint(op[2], reps[1]), HINTS[op[3]]))
    elif k == 'fr':
        # op[5], op[6]: representation of start / end ('f', 't', 'x'); op[3] may be None (inferred)
        r.filter_in_place(L.make_range({'start': op[1], 'end': op[2], 'abs': op[3], 't0': op[4],
                                        'rs': op[5] if len(op) > 5 else 'f', 're': op[6] if len(op) > 6 else 'f'}))
    elif k == 'fi':
        r.filter_in_place(slice(op[1], op[2], op[3]))
    elif k == 'u':
        r.filter_out_invalid_p1_times()
    elif k == 'c':
        r.clear_filters()
    elif k == 'w':
        r.rewind()
    elif k == 's':
        r.seek_to_message(op[1], is_filtered_index=bool(op[2]))
    elif k == 'e':
        r.seek_to_eof()
    else:
        raise RuntimeError('unknown op %r' % (op,))
    return ['DONE']


def run_script(path, case):
    flags = case['flags']
    kw = dict(COMMON)
    kw.update(L.flag_kwargs(flags))
    if case.get('max_bytes') is not None:
        kw['max_bytes'] = case['max_bytes']
    if case.get('srcs') is not None:
        kw['source_ids'] = set(case['srcs'])
    try:
        r = MixedLogReader(path, **kw)
    except Exception as e:
        return {'cerr': type(e).__name__}
    out = []
    kept = []
    for op in case['ops']:
        try:
            res = do_op(r, op, flags, kept)
        except StopIteration:
            res = ['STOP']
        except Exception as e:
            res = ['ERR', type(e).__name__]
        out.append({'res': res, 'priv': private(r)})
    # the messages as a caller that kept them sees them after the whole script
    after = [L.canon_result(x, flags) for x in kept]
    live = [s['res'][1] for s in out if s['res'][0] == 'MSG']
    return {'steps': out, 'retained_same': after == live, 'alias': L.aliased(kept, flags),
            'retained_first_diff': next(([a, b] for a, b in zip(live, after) if a != b), None)}


def main():
    cases_path, out_path, logdir = sys.argv[1:4]
    seen = {}
    with open(out_path, 'w') as fo:
        for line in open(cases_path):
            case = json.loads(line)
            k = case['logkey']
            path = os.path.join(logdir, k + '.p1log')
            extra = {}
            if k not in seen:
                _, msgs = L.write(path, case['log'])
                seen[k] = True
                extra = {'msgs': msgs, 'path': path}
            a = run_script(path, case)
            b = run_script(path, case)
            out = {'id': case['id'], 'run': a, 'deterministic': a == b}
            if a != b:
                out['run2'] = b
            out.update(extra)
            fo.write(json.dumps(out) + '\n')


if __name__ == '__main__':
    main()
