"""IMPL runner for C09 (runs under /venv/bin/python with PYTHONPATH=<repo>/python).

usage: c09_impl.py p1 <tmpdir>    < cases {"id", "hex", "frames": [[off, len], ...]}  -> {"id", "p1": [[frame hex, seconds|null], ...]}
       c09_impl.py open <tmpdir>  < cases {"id", "data": hex, "p1i": hex|null, "ignore": bool, "threads": int|null}
            -> {"id", "first": R, "second": R}
       c09_impl.py hist <tmpdir>  < cases {"id", "name", "steps": [...]}   -> {"id", "opens": [R + {"before_p1i"}, ...]}
            (a whole multi-step history in ONE interpreter: rewrite data / index file, open [with max_bytes], ...)
       where R = {"exc": name, "msg": ...} | {"msgs": [[off, len], ...], "bytes_ok": bool, "p1i": hex|null}

For an `open` case the data file <dir>/<name> (name given by the case: *.p1log, *.bin, *.raw, no extension ...) and
(unless null) the index file <dir>/<stem>.p1i are written, then the log is
opened with MixedLogReader(path, ignore_index=ignore, return_bytes=True, return_offset=True[, num_threads=threads]) and iterated to
the end ("first"); then it is opened again with ignore_index=False ("second": the re-open of the history).
"""
import json, logging, os, shutil, sys, traceback

sys.path.insert(0, os.path.dirname(os.path.abspath(__file__)))
from c18_impl import p1_of, rd  # noqa: E402


def index_raw(reader):
    """the index the reader works from, through the public get_index(), in the .p1i record format"""
    from fusion_engine_client.parsers.file_index import FileIndex
    try:
        idx = reader.get_index()
        return FileIndex._to_raw(idx._data).tobytes().hex()
    except Exception as e:      # private attribute gone: advisory observable only
        return 'unavailable: %r' % (e,)


def read_log(path, data, ignore, threads, max_bytes=None, opts=None):
    from fusion_engine_client.parsers import MixedLogReader
    try:
        kw = {} if threads is None else {'num_threads': threads}
        if max_bytes is not None:
            kw['max_bytes'] = max_bytes
        kw.update(opts or {})      # save_index / show_progress / warn_on_gaps
        reader = MixedLogReader(path, ignore_index=ignore, return_header=False, return_payload=True, return_bytes=True,
                                return_offset=True, **kw)
        try:
            index = index_raw(reader)
            msgs, ok = [], True
            for payload, b, off in reader:
                msgs.append([int(off), len(b)])
                ok = ok and bytes(b) == data[off:off + len(b)]
        finally:
            reader.input_file.close()
        return {'msgs': msgs, 'bytes_ok': ok, 'index': index, 'p1i': rd(os.path.splitext(path)[0] + '.p1i')}
    except BaseException as e:
        return {'exc': type(e).__name__, 'msg': str(e)[:200], 'tb': traceback.format_exc()[-500:], 'p1i': rd(os.path.splitext(path)[0] + '.p1i')}


def read_two(path, data, threads):
    """two readers on the same log alive at once, read alternately"""
    from fusion_engine_client.parsers import MixedLogReader
    try:
        kw = {} if threads is None else {'num_threads': threads}
        ra = MixedLogReader(path, return_header=False, return_payload=False, return_bytes=True, return_offset=True, **kw)
        rb = MixedLogReader(path, return_header=False, return_payload=False, return_bytes=True, return_offset=True, **kw)
        seqs, ok = [[], []], True
        live = [ra, rb]
        done = [False, False]
        try:
            while not all(done):
                for i, r in enumerate(live):
                    if done[i]:
                        continue
                    try:
                        b, off = next(r)
                        seqs[i].append([int(off), len(b)])
                        ok = ok and bytes(b) == data[off:off + len(b)]
                    except StopIteration:
                        done[i] = True
        finally:
            ra.input_file.close(); rb.input_file.close()
        return {'msgs': seqs[0], 'msgs_b': seqs[1], 'bytes_ok': ok, 'p1i': rd(os.path.splitext(path)[0] + '.p1i')}
    except BaseException as e:
        return {'exc': type(e).__name__, 'msg': str(e)[:200], 'tb': traceback.format_exc()[-500:], 'p1i': rd(os.path.splitext(path)[0] + '.p1i')}


def open_case(c, tmp):
    d = os.path.join(tmp, 'o' + c['id'])
    os.makedirs(d)
    data = bytes.fromhex(c['data'])
    path = os.path.join(d, c.get('name', 'log.p1log'))     # the index of <stem><ext> is <stem>.p1i (FileIndex.get_path)
    with open(path, 'wb') as f:
        f.write(data)
    if c['p1i'] is not None:
        with open(os.path.splitext(path)[0] + '.p1i', 'wb') as f:
            f.write(bytes.fromhex(c['p1i']))
    res = {'id': c['id']}
    res['first'] = read_log(path, data, c['ignore'], c.get('threads'))
    res['second'] = read_log(path, data, False, c.get('threads'))
    res['data_unchanged'] = rd(path) == c['data']
    shutil.rmtree(d, ignore_errors=True)
    return res


def hist_case(c, tmp):
    """a whole history inside this interpreter and one directory: steps {"op": "data", "hex"} (rewrite the data file),
    {"op": "p1i", "hex"|null} (write / remove the index file), {"op": "open", "ignore", "threads", "max_bytes"|null}."""
    d = os.path.join(tmp, 'h' + c['id'])
    os.makedirs(d)
    path = os.path.join(d, c.get('name', 'log.p1log'))
    ipath = os.path.splitext(path)[0] + '.p1i'
    data = b''
    out = []
    for st in c['steps']:
        if st['op'] == 'data':
            data = bytes.fromhex(st['hex'])
            with open(path, 'wb') as f:
                f.write(data)
        elif st['op'] == 'p1i':
            if st['hex'] is None:
                if os.path.exists(ipath):
                    os.remove(ipath)
            else:
                with open(ipath, 'wb') as f:
                    f.write(bytes.fromhex(st['hex']))
        else:
            before = rd(ipath)
            if st['op'] == 'open2':
                r = read_two(path, data, st.get('threads'))
            else:
                r = read_log(path, data, st.get('ignore', False), st.get('threads'), st.get('max_bytes'), st.get('opts'))
            r['before_p1i'] = before
            r['data_unchanged'] = rd(path) == data.hex()
            out.append(r)
    shutil.rmtree(d, ignore_errors=True)
    return {'id': c['id'], 'opens': out}


def p1_case(c, tmp):
    data = bytes.fromhex(c['hex'])
    return {'id': c['id'], 'p1': [[data[o:o + n].hex(), p1_of(data[o:o + n])] for o, n in c['frames']]}


def main():
    logging.disable(logging.CRITICAL)
    mode, tmp = sys.argv[1], sys.argv[2]
    fn = {'open': open_case, 'hist': hist_case, 'p1': p1_case}[mode]
    for line in sys.stdin:
        line = line.strip()
        if not line:
            continue
        c = json.loads(line)
        try:
            out = fn(c, tmp)
        except BaseException as e:
            out = {'id': c['id'], 'harness_error': repr(e)[:300], 'tb': traceback.format_exc()[-800:]}
        sys.stdout.write(json.dumps(out) + '\n')
        sys.stdout.flush()


if __name__ == '__main__':
    main()
