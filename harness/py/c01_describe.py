"""C01 translator back end (runs under the IMPL interpreter): derives one wire description per payload class from
the source objects of the working tree and prints them as JSON.

 * construct-based classes: the Construct object is walked (Struct / Renamed / FormatField / Padded / Array /
   FixedSized / GreedyBytes / BytesInteger / Flag and the library's adapters with their scale / invalid / enum
   class); every field found is then *located* in the parsed object by probing (perturb its bytes -> which
   attribute moves); a field whose bytes move no attribute is written back as a constant (padding).
 * struct-based classes: the byte -> attribute map is obtained by probing alone (perturb one byte -> which leaf of
   the parsed object moves), contiguous bytes moving the same leaf form a field, and the kind / signedness /
   scale / sentinel / enum strictness of the field are identified by further probes; the field widths are then
   checked against the struct format strings found on the class.
Anything not understood raises Inexpressible(reason): the class is then covered by the law evaluation only.
"""
import json, struct, sys, os, math
sys.path.insert(0, os.path.dirname(os.path.abspath(__file__)))
import c01_laws as L  # noqa
import construct as C  # noqa
import numpy as np  # noqa
from enum import IntEnum as PyIntEnum  # noqa
from fusion_engine_client.messages.timestamp import Timestamp, TimestampAdapter  # noqa
from fusion_engine_client.utils import construct_utils as CU  # noqa


class Inexpressible(Exception):
    pass


FMT = {'B': ('U8', 1), 'H': ('U16', 2), 'L': ('U32', 4), 'I': ('U32', 4), 'Q': ('U64', 8),
       'b': ('S8', 1), 'h': ('S16', 2), 'l': ('S32', 4), 'i': ('S32', 4), 'q': ('S64', 8),
       'f': ('F32', 4), 'd': ('F64', 8)}
KSIZE = {'U8': 1, 'U16': 2, 'U32': 4, 'U40': 5, 'U64': 8, 'S8': 1, 'S16': 2, 'S32': 4, 'S64': 8, 'F32': 4, 'F64': 8}
TAIL = 80000


# ------------------------------------------------------------------------------------------------
# walking a Construct
# ------------------------------------------------------------------------------------------------

class _Rec(dict):
    def __init__(self):
        super().__init__(); self.seen = []

    def __getitem__(self, k):
        self.seen.append(k); return 0

    def __getattr__(self, k):
        return self[k]


def _ref_name(fn):
    r = _Rec()
    try:
        fn(r)
    except Exception as e:
        raise Inexpressible('count expression not understood: %r' % (fn,))
    if len(r.seen) != 1:
        raise Inexpressible('count expression refers to %r' % (r.seen,))
    return r.seen[0]


def _tname(c):
    return type(c).__name__


def _cond_true(fn, tag, v):
    try:
        return bool(fn({tag: v}))
    except Exception:
        return False


def walk(c, name=''):
    """-> list of items (dicts) in wire order."""
    t = _tname(c)
    if isinstance(c, C.Renamed):
        return walk(c.subcon, (name + '.' if name else '') + c.name)
    if isinstance(c, C.Struct):
        out = []
        for s in c.subcons:
            out += walk(s, name)
        return out
    if isinstance(c, (CU.ClassAdapter, CU.NamedTupleAdapter)):
        if not isinstance(c.subcon, C.Struct):
            raise Inexpressible('%s over %s' % (t, _tname(c.subcon)))
        return walk(c.subcon, name)
    if isinstance(c, TimestampAdapter):
        sub = c.subcon
        if not (isinstance(sub, C.Struct) and [getattr(s.subcon, 'fmtstr', None) for s in sub.subcons] == ['<L', '<L']):
            raise Inexpressible('TimestampAdapter over an unexpected construct')
        return [{'t': 'field', 'name': name, 'kind': 'U64', 'adapter': ['ts'], 'conv': ['ts']}]
    if isinstance(c, CU.FixedPointAdapter):
        f = _format(c.subcon)
        if f[0] in ('F32', 'F64'):
            raise Inexpressible('FixedPointAdapter over a float')
        sc = float(c.scale)
        m, e = math.frexp(sc)
        if m != 0.5:
            raise Inexpressible('FixedPointAdapter scale %r is not a power of two' % sc)
        ad = ['id'] if c.invalid is None else ['sentinel', int(c.invalid)]
        return [{'t': 'field', 'name': name, 'kind': f[0], 'adapter': ad, 'conv': ['scaled', sc]}]
    if isinstance(c, CU.EnumAdapter):
        if not isinstance(c.subcon, C.Enum):
            raise Inexpressible('EnumAdapter over %s' % _tname(c.subcon))
        f = _format(c.subcon.subcon)
        if c.raise_on_unrecognized:
            return [{'t': 'field', 'name': name, 'kind': f[0], 'adapter': ['strict', sorted(int(m) for m in c.enum_cls)], 'conv': ['int']}]
        return [{'t': 'field', 'name': name, 'kind': f[0], 'adapter': ['id'], 'conv': ['int'], 'from_enum': sorted(int(m) for m in c.enum_cls)}]
    if isinstance(c, C.FormatField):
        k, _ = _format(c)
        if k == 'F32':
            return [{'t': 'field', 'name': name, 'kind': k, 'adapter': ['quiet32'], 'conv': ['f32']}]
        if k == 'F64':
            return [{'t': 'field', 'name': name, 'kind': k, 'adapter': ['id'], 'conv': ['f64']}]
        return [{'t': 'field', 'name': name, 'kind': k, 'adapter': ['id'], 'conv': ['int']}]
    if c is C.Flag or t == 'Flag':
        return [{'t': 'field', 'name': name, 'kind': 'U8', 'adapter': ['bool'], 'conv': ['int']}]
    if isinstance(c, C.BytesInteger):
        if not (c.swapped is True and c.signed is False and c.length == 5):
            raise Inexpressible('BytesInteger(%r, signed=%r, swapped=%r)' % (c.length, c.signed, c.swapped))
        return [{'t': 'field', 'name': name, 'kind': 'U40', 'adapter': ['id'], 'conv': ['int']}]
    if isinstance(c, C.Padded):
        if not (_tname(c.subcon) == 'Pass' and isinstance(c.length, int) and c.pattern == b'\x00'):
            raise Inexpressible('Padded(%r, %s)' % (c.length, _tname(c.subcon)))
        return [{'t': 'pad', 'bytes': [0] * c.length}]
    if isinstance(c, C.Array):
        body = walk(c.subcon, '')
        if isinstance(c.count, int):
            out = []
            for i in range(c.count):
                for it in body:
                    it2 = dict(it)
                    if it2['t'] != 'field' and it2['t'] != 'pad':
                        raise Inexpressible('nested variable part inside a fixed array')
                    if it2['t'] == 'field':
                        it2['name'] = '%s[%d]%s' % (name, i, ('.' + it['name']) if it['name'] else '')
                    out.append(it2)
            return out
        cnt = _ref_name(c.count)
        if any(it['t'] not in ('field', 'pad') for it in body):
            raise Inexpressible('nested variable part inside a counted array')
        return [{'t': 'counted', 'name': name, 'cnt': cnt, 'body': body}]
    if isinstance(c, C.StringEncoded):
        fs = c.subcon
        if not (str(c.encoding).lower().replace('-', '').replace('_', '') == 'utf8' and isinstance(fs, C.FixedSized)
                and _tname(fs.subcon) == 'NullStripped' and _tname(fs.subcon.subcon) == 'GreedyBytes'
                and getattr(fs.subcon, 'pad', b'\x00') == b'\x00'):
            raise Inexpressible('StringEncoded(%r) over an unexpected construct' % (c.encoding,))
        if isinstance(fs.length, int):
            return [{'t': 'str', 'name': name, 'n': fs.length}]
        return [{'t': 'bytes', 'name': name, 'len': ['count', _ref_name(fs.length)], 'mode': ['str']}]
    if isinstance(c, C.IfThenElse):
        if _tname(c.elsesubcon) != 'Pass':
            raise Inexpressible('IfThenElse with an else branch')
        tag = _ref_name(c.condfunc)
        vals = [v for v in range(0, 1024) if _cond_true(c.condfunc, tag, v)]
        if len(vals) != 1:
            raise Inexpressible('IfThenElse condition on %s holds for %r' % (tag, vals[:5]))
        body = walk(c.thensubcon, '')
        if any(it['t'] not in ('field', 'pad', 'str') for it in body):
            raise Inexpressible('variable part inside a conditional')
        return [{'t': 'switch', 'name': name, 'tag': tag, 'cases': {str(vals[0]): {'items': body}}}]
    if isinstance(c, C.Bytes):
        if isinstance(c.length, int):
            return [{'t': 'bytes', 'name': name, 'len': ['fixed', c.length]}]
        return [{'t': 'bytes', 'name': name, 'len': ['count', _ref_name(c.length)]}]
    if isinstance(c, C.FixedSized):
        if _tname(c.subcon) != 'GreedyBytes':
            raise Inexpressible('FixedSized over %s' % _tname(c.subcon))
        if isinstance(c.length, int):
            return [{'t': 'bytes', 'name': name, 'len': ['fixed', c.length]}]
        return [{'t': 'bytes', 'name': name, 'len': ['count', _ref_name(c.length)]}]
    if t == 'GreedyBytes':
        return [{'t': 'bytes', 'name': name, 'len': ['greedy']}]
    raise Inexpressible('construct type %s not in the description language' % t)


def _format(c):
    if not isinstance(c, C.FormatField):
        raise Inexpressible('expected a FormatField, found %s' % _tname(c))
    f = c.fmtstr
    if len(f) != 2 or f[0] != '<' or f[1] not in FMT:
        raise Inexpressible('format %r' % f)
    return FMT[f[1]]


def isize(it):
    if it['t'] == 'field':
        return KSIZE[it['kind']]
    if it['t'] == 'pad':
        return len(it['bytes'])
    if it['t'] == 'bytes' and it['len'][0] == 'fixed':
        return it['len'][1]
    if it['t'] == 'str':
        return it['n']
    return 0


# ------------------------------------------------------------------------------------------------
# probing
# ------------------------------------------------------------------------------------------------

def flat(c, path='', out=None):
    """canonical field tree -> {leaf path: value}; lists and byte strings also get a '.len' pseudo-leaf."""
    if out is None:
        out = {}
    if isinstance(c, dict):
        for k, v in c.items():
            flat(v, path + '.' + k, out)
    elif isinstance(c, list):
        out[path + '.len'] = len(c)
        for i, v in enumerate(c):
            flat(v, '%s[%d]' % (path, i), out)
    else:
        out[path] = c
        if isinstance(c, str) and c.startswith('b:'):
            out[path + '.len'] = (len(c) - 2) // 2
    return out


class Prober:
    def __init__(self, cls, greedy):
        self.cls, self.greedy = cls, greedy

    def parse(self, b):
        """-> (n, flat leaves, object) or None"""
        buf = b if self.greedy else b + bytes(TAIL)
        try:
            o, n = L.do_unpack(self.cls, buf, 0)
            n = int(n)
        except Exception:
            return None
        return n, flat(L.fields(o)), o

    def moved(self, base, off, width, vals):
        """set bytes [off, off+width) of base to LE value v for v in vals until it parses; -> (v, n, changed paths, leaves, obj)"""
        r0 = self.parse(base)
        for v in vals:
            b = bytearray(base)
            b[off:off + width] = int(v).to_bytes(width, 'little')
            r = self.parse(bytes(b))
            if r is None:
                continue
            ch = {p for p in set(r0[1]) | set(r[1]) if r0[1].get(p, '<absent>') != r[1].get(p, '<absent>')}
            # a list / byte string that changed length: its elements appearing or disappearing are consequences
            for lp in [p for p in ch if p.endswith('.len')]:
                pref = lp[:-4]
                ch = {p for p in ch if p == lp or not (p == pref or p.startswith(pref + '['))}
            return v, r[0], ch, r[1], r[2]
        return None


def raw_at(o, path):
    """the real attribute behind a canonical leaf path ('.a.ClassName.b[2]')"""
    cur = o
    toks = []
    for part in path.split('.'):
        if not part:
            continue
        name, idx = part, []
        while name.endswith(']'):
            i = name.rindex('[')
            idx.insert(0, int(name[i + 1:-1])); name = name[:i]
        toks.append((name, idx))
    for name, idx in toks:
        if name == 'len':
            return len(cur)
        if name == type(cur).__name__ and not hasattr(cur, name) and not (isinstance(cur, dict) and name in cur):
            pass          # the class-name level canon() inserts
        elif name == 'Timestamp' and isinstance(cur, Timestamp):
            cur = cur.seconds
        elif isinstance(cur, dict):
            cur = cur[name]
        else:
            cur = getattr(cur, name)
        for i in idx:
            cur = cur[i]
    return cur


def locate(pr, base, off, width):
    """which leaf paths move when the bytes of a field are perturbed (union over a few patterns per byte)"""
    paths, ok = set(), 0
    for i in range(width):
        m = pr.moved(base, off + i, 1, [1, 2, 3, 4, 5, 6, 0x10, 0x40, 0x80, 0xFF])
        if m is None:
            continue
        ok += 1
        paths |= m[2]
    return paths, ok


def describe_construct(key, cls, con, pr):
    items = walk(con)
    # every name referenced as a count must be an earlier integer field
    base_len = sum(isize(it) for it in items)
    base = bytes(base_len)
    r0 = pr.parse(base)
    if r0 is None:
        raise Inexpressible('the all-zero fixed part does not parse')
    pack0 = _pack_or_none(r0[2])
    off = 0
    names = {}
    for it in items:
        if it['t'] == 'field':
            names[it['name']] = it
    for it in items:
        sz = isize(it)
        if it['t'] == 'field':
            paths, ok = locate(pr, base, off, sz)
            lens = {p for p in paths if p.endswith('.len')}
            vals = paths - lens
            it['off'] = off
            if ok == 0:
                raise Inexpressible('field %s: no perturbation of its bytes parses' % it['name'])
            if not paths:
                # bytes ignored by unpack: what pack() writes there is a constant
                if pack0 is None:
                    raise Inexpressible('field %s is ignored by unpack and pack() of the parsed zero message fails' % it['name'])
                const = list(pack0[off:off + sz])
                it.clear(); it.update({'t': 'pad', 'bytes': const, 'ignored_field': True})
            else:
                it['paths'] = sorted(vals)
                it['len_paths'] = sorted(lens)
                if it['conv'] == ['int'] and it['adapter'] == ['id'] and len(it['paths']) == 1:
                    v1 = _val(pr, base, off, sz, 1, it['paths'][0])
                    v3 = _val(pr, base, off, sz, 3, it['paths'][0])
                    if v1 and isinstance(v1[0], int) and v1[0] not in (0, 1):
                        if not (v3 and v3[0] == 3 * v1[0]):
                            raise Inexpressible('field %s: attribute is not an integer multiple of the wire value' % it['name'])
                        it['conv'] = ['iscaled', v1[0]]
        off += sz
    # variable parts
    for it in items:
        if it['t'] == 'counted' or (it['t'] == 'bytes' and it['len'][0] == 'count'):
            cname = it['cnt'] if it['t'] == 'counted' else it['len'][1]
            cf = names.get(cname)
            if cf is None or cf['t'] != 'field' or cf['kind'] not in ('U8', 'U16', 'U32', 'U64') or cf['adapter'] != ['id']:
                raise Inexpressible('count %s is not a plain unsigned field' % cname)
            cf['adapter'] = ['count', it['name']]
            cf['is_count'] = True
        if it['t'] == 'counted':
            esz = sum(isize(b) for b in it['body'])
            cf = names[it['cnt']]
            b1 = bytearray(base); b1[cf['off']:cf['off'] + 1] = b'\x01'
            b1 = bytes(b1) + bytes(esz)
            r1 = pr.parse(b1)
            if r1 is None or r1[0] != base_len + esz:
                raise Inexpressible('counted part %s: one element does not parse as %d extra bytes' % (it['name'], esz))
            lp = [p for p in r1[1] if p.endswith('.len') and r1[1][p] == 1 and r0[1].get(p) == 0]
            if len(lp) != 1:
                raise Inexpressible('counted part %s: cannot locate the list in the parsed object (%r)' % (it['name'], lp))
            it['path'] = lp[0][:-4]
            eo = base_len
            for b in it['body']:
                bs = isize(b)
                if b['t'] == 'field':
                    paths, ok = locate(pr, b1, eo, bs)
                    pref = it['path'] + '[0]'
                    rel = sorted(p[len(pref):] for p in paths if p.startswith(pref))
                    if ok == 0 or len(rel) != 1 or len(paths) != 1:
                        raise Inexpressible('element field %s of %s moves %r' % (b['name'], it['name'], sorted(paths)))
                    b['paths'] = rel
                eo += bs
        if it['t'] == 'bytes':
            if it['len'][0] == 'count':
                cf = names[it['len'][1]]
                b1 = bytearray(base); b1[cf['off']:cf['off'] + 1] = b'\x02'
                r1 = pr.parse(bytes(b1) + b'\x07\x09')
                if r1 is None:
                    raise Inexpressible('counted bytes %s: two bytes do not parse' % it['name'])
                lp = [p for p in r1[1] if r1[1][p] == 'b:0709']
                if it.get('mode') == ['str']:
                    r1 = pr.parse(bytes(b1) + b'AB')
                    lp = [p for p in (r1[1] if r1 else {}) if r1[1][p] == 's:AB']
            elif it['len'][0] == 'greedy':
                r1 = pr.parse(base + b'\x07\x09')
                lp = [p for p in (r1[1] if r1 else {}) if r1[1][p] == 'b:0709']
            else:
                n = it['len'][1]
                o = sum(isize(x) for x in items[:items.index(it)])
                b1 = bytearray(base); b1[o:o + n] = bytes((7 + i) & 0xFF for i in range(n))
                r1 = pr.parse(bytes(b1))
                lp = [p for p in (r1[1] if r1 else {}) if r1[1][p] == 'b:' + bytes(b1[o:o + n]).hex()]
            if len(lp) != 1:
                raise Inexpressible('bytes part %s: cannot locate it in the parsed object (%r)' % (it['name'], lp))
            it['path'] = lp[0]
    for it in items:
        if it['t'] == 'bytes':
            it.setdefault('mode', ['raw'])
        if it['t'] == 'str':
            raise Inexpressible('fixed-size string %s outside a sub-payload' % it['name'])
        if it['t'] == 'switch':
            tf = names.get(it['tag'])
            if tf is None or tf['kind'] not in ('U8', 'U16', 'U32') or tf['adapter'] != ['id']:
                raise Inexpressible('switch tag %s is not a plain unsigned field' % it['tag'])
            if items.index(it) != len(items) - 1:
                raise Inexpressible('conditional part %s is not last' % it['name'])
            for tv, case in it['cases'].items():
                csz = sum(isize(b) for b in case['items'])
                b1 = bytearray(base); b1[tf['off']:tf['off'] + KSIZE[tf['kind']]] = int(tv).to_bytes(KSIZE[tf['kind']], 'little')
                b1 = bytes(b1) + bytes(csz)
                r1 = pr.parse(b1)
                if r1 is None or r1[0] != base_len + csz:
                    raise Inexpressible('conditional part %s: case %s does not parse as %d extra bytes' % (it['name'], tv, csz))
                eo = base_len
                for b in case['items']:
                    bs = isize(b)
                    if b['t'] == 'field':
                        paths, ok = locate(pr, b1, eo, bs)
                        if ok == 0 or len(paths) != 1:
                            raise Inexpressible('conditional field %s moves %r' % (b['name'], sorted(paths)))
                        b['paths'] = sorted(paths)
                    eo += bs
            absent = [p for p in r0[1] if r0[1][p] is None]
            it['absent_path'] = absent[0] if len(absent) == 1 else None
    # fields must each move exactly one value leaf (count fields may also be kept as an attribute)
    for it in items:
        if it['t'] == 'field':
            if it.get('is_count'):
                continue
            if len(it['paths']) != 1 or it['len_paths']:
                raise Inexpressible('field %s moves %r' % (it['name'], it['paths'] + it['len_paths']))
    greedy_pos = [i for i, it in enumerate(items) if it['t'] == 'bytes' and it['len'][0] == 'greedy']
    if greedy_pos and greedy_pos != [len(items) - 1]:
        raise Inexpressible('greedy part is not last')
    return items


def _pack_or_none(o):
    try:
        b = L.do_pack(o)
        return bytes(b) if isinstance(b, (bytes, bytearray)) else None
    except Exception:
        return None


# -- struct-based -----------------------------------------------------------------------------------

def struct_formats(cls):
    """widths (with multiplicity) of all items of the struct format strings found on the class"""
    out = []
    for k, v in vars(cls).items():
        f = None
        if isinstance(v, struct.Struct):
            f = v.format
        elif k in ('_FORMAT',) and isinstance(v, str):
            f = v
        if f is not None:
            out.append(f if isinstance(f, str) else f.decode())
    return out


def fmt_items(fmt):
    """'<BB h 3d 2x' -> list of (code, size) with repeat counts expanded; x = pad"""
    import re
    fmt = fmt.replace(' ', '')
    if not fmt.startswith('<'):
        raise Inexpressible('struct format %r is not little-endian/packed' % fmt)
    out = []
    for cnt, code in re.findall(r'(\d*)([a-zA-Z?])', fmt[1:]):
        n = int(cnt) if cnt else 1
        if code == 'x':
            out += [('x', 1)] * n
        elif code == '?':
            out += [('?', 1)] * n
        elif code in FMT:
            out += [(code, FMT[code][1])] * n
        else:
            raise Inexpressible('struct code %r' % code)
    return out


def infer_region(pr, base, start, end, prefix_strip=''):
    """byte region [start,end) of a buffer that parses -> items, by probing alone"""
    r0 = pr.parse(base)
    per = []
    i = start
    while i < end:
        m = pr.moved(base, i, 1, [1, 2, 3, 4, 5, 6, 9, 10, 0x10, 0x20, 0x40, 0x80, 0xFF])
        if m is None and i + 1 < end:
            # no single-byte change parses (a strict 16-bit enum): scan the 16-bit window
            m2 = pr.moved(base, i, 2, range(1, 65536))
            if m2 is not None:
                per.append((frozenset(m2[2]), m2[1] - r0[0])); per.append((frozenset(m2[2]), m2[1] - r0[0]))
                i += 2
                continue
        if m is None:
            per.append(None)
            i += 1
            continue
        per.append((frozenset(m[2]), m[1] - r0[0]))
        i += 1
    # group
    groups, i = [], 0
    while i < len(per):
        j = i
        while j + 1 < len(per) and per[j + 1] is not None and per[i] is not None and per[j + 1][0] == per[i][0]:
            j += 1
        groups.append((start + i, j - i + 1, per[i]))
        i = j + 1
    items = []
    for off, width, info in groups:
        if info is None:
            raise Inexpressible('no value of byte %d parses' % off)
        paths, _ = info
        if not paths:
            items.append({'t': 'pad', 'off': off, 'width': width})
            continue
        lens = sorted(p for p in paths if p.endswith('.len'))
        vals = sorted(p for p in paths if not p.endswith('.len'))
        if lens and not vals:
            items.append({'t': 'countfield', 'off': off, 'width': width, 'len_paths': lens})
            continue
        if len(vals) != 1 or lens:
            raise Inexpressible('bytes %d..%d move %r' % (off, off + width - 1, sorted(paths)))
        items.append(infer_field(pr, base, off, width, vals[0]))
    # merge pads
    out = []
    for it in items:
        if it['t'] == 'pad' and out and out[-1]['t'] == 'pad' and 'bytes' not in out[-1]:
            out[-1]['width'] += it['width']
        else:
            out.append(it)
    return out


def _val(pr, base, off, width, z, path):
    b = bytearray(base); b[off:off + width] = int(z).to_bytes(width, 'little')
    r = pr.parse(bytes(b))
    if r is None:
        return None
    return r[1].get(path), r[2]


def _f(c):
    if c == 'nan':
        return float('nan')
    return struct.unpack('>d', bytes.fromhex(c[2:]))[0]


def infer_field(pr, base, off, width, path):
    it = {'t': 'field', 'off': off, 'name': path, 'paths': [path], 'len_paths': []}
    bits = 8 * width
    r0 = pr.parse(base)
    raw0 = raw_at(r0[2], path)
    if path.endswith('.Timestamp') or (pr.cls is Timestamp and path == '.seconds'):
        if width != 8:
            raise Inexpressible('timestamp %s is %d bytes wide' % (path, width))
        v = _val(pr, base, off, 8, 1 | (500000000 << 32), path)
        if v is None or v[0] != L.canon(1.5):
            raise Inexpressible('timestamp %s does not decode (1 s, 5e8 ns) as 1.5' % path)
        it.update(kind='U64', adapter=['ts'], conv=['ts'])
        return it
    if width not in (1, 2, 4, 8):
        raise Inexpressible('field %s is %d bytes wide' % (path, width))
    top = 1 << (bits - 1)
    if isinstance(raw0, (bool, np.bool_)):
        v2 = _val(pr, base, off, width, 2, path)
        if width != 1 or v2 is None or v2[0] != 1:
            raise Inexpressible('bool field %s' % path)
        it.update(kind='U8', adapter=['bool'], conv=['int'])
        return it
    c0 = r0[1][path]
    is_float = isinstance(c0, str) and (c0 == 'nan' or c0.startswith('f:'))
    if not is_float:
        vt = _val(pr, base, off, width, top, path)
        signed = None
        if vt is not None and isinstance(vt[0], int):
            signed = vt[0] < 0
            if vt[0] != (top - (1 << bits) if signed else top):
                raise Inexpressible('integer field %s decodes 2^%d as %r' % (path, bits - 1, vt[0]))
        strict = None
        if isinstance(raw0, PyIntEnum):
            members = sorted(int(m) for m in type(raw0))
            unknown = next(u for u in range(0, 1 << min(bits, 16)) if u not in members)
            vu = _val(pr, base, off, width, unknown, path)
            strict = vu is None
            if strict:
                signed = False if signed is None else signed
                # every member must parse to itself
                for m in members:
                    vm = _val(pr, base, off, width, m % (1 << bits), path)
                    if vm is None or vm[0] != m:
                        raise Inexpressible('strict enum field %s: member %d decodes as %r' % (path, m, vm and vm[0]))
                it.update(kind=('S' if signed else 'U') + str(bits), adapter=['strict', members], conv=['int'])
                return it
        if signed is None:
            raise Inexpressible('integer field %s: cannot determine signedness' % path)
        for z in (1, 2, 0x7F, top - 1, (1 << bits) - 1):
            vz = _val(pr, base, off, width, z, path)
            want = z - (1 << bits) if signed and z >= top else z
            if vz is None or vz[0] != want:
                raise Inexpressible('integer field %s decodes %d as %r' % (path, z, vz and vz[0]))
        it.update(kind=('S' if signed else 'U') + str(bits), adapter=['id'], conv=['int'])
        return it
    # float-valued leaf
    samples = [1, 2, 3, 7, 100, 0x7F, 0x3F80 if width == 2 else 0x3F800000 % (1 << bits), top - 1, top + 1, (1 << bits) - 2]
    if width == 4:
        if all((_val(pr, base, off, 4, z, path) or [None])[0] == L.canon(struct.unpack('<f', struct.pack('<I', z))[0]) for z in samples + [0x7FC00000]):
            it.update(kind='F32', adapter=['quiet32'], conv=['f32'])
            return it
    if width == 8:
        if all((_val(pr, base, off, 8, z, path) or [None])[0] == L.canon(struct.unpack('<d', struct.pack('<Q', z))[0]) for z in samples + [0x3FF8000000000000, 0x7FF8000000000000]):
            it.update(kind='F64', adapter=['id'], conv=['f64'])
            return it
    # integer with a scale (and possibly a sentinel decoding to NaN)
    cand = range(1 << bits) if width <= 2 else [0, 1, top - 1, top, (1 << bits) - 1, (1 << bits) - 2, 0x7FFF, 0xFFFF, 0x8000]
    table = {}
    for z in cand:
        vz = _val(pr, base, off, width, z, path)
        if vz is None:
            raise Inexpressible('scaled field %s: value %d does not parse' % (path, z))
        table[z] = vz[0]
    sent = [z for z, c in table.items() if c == 'nan']
    if len(sent) > 1:
        raise Inexpressible('scaled field %s has several NaN codes %r' % (path, sent[:4]))
    nz = [z for z in (1, 2, 3) if table.get(z) != 'nan']
    z1 = nz[0]
    scale = _f(table[z1]) / z1
    vtop = table[top]
    signed = vtop != 'nan' and _f(vtop) < 0 if vtop != 'nan' else (_f(table[top + 1]) < 0 if (top + 1) in table else False)
    for z, c in table.items():
        if c == 'nan':
            continue
        zz = z - (1 << bits) if signed and z >= top else z
        if _f(c) != zz * scale:
            raise Inexpressible('scaled field %s: %d decodes as %r, not %r * %r' % (path, z, _f(c), zz, scale))
    ad = ['id']
    if sent:
        s = sent[0]
        ad = ['sentinel', s - (1 << bits) if signed and s >= top else s]
    it.update(kind=('S' if signed else 'U') + str(bits), adapter=ad, conv=['scaled', scale], exhaustive_decode=(width <= 2))
    return it


def describe_struct(key, cls, pr):
    z = L.min_zero_len(cls)
    if z is None:
        raise Inexpressible('no all-zero buffer parses')
    base = bytes(z)
    r0 = pr.parse(base)
    if r0 is None or r0[0] != z:
        raise Inexpressible('the minimal all-zero buffer is not consumed exactly')
    pack0 = _pack_or_none(r0[2])
    items = infer_region(pr, base, 0, z)
    # count fields: find the element size and describe one element by probing
    out = []
    for it in items:
        if it['t'] == 'countfield':
            off, width = it['off'], it['width']
            b1 = bytearray(base); b1[off] = 1
            r1 = pr.parse(bytes(b1))
            if r1 is None:
                raise Inexpressible('count at %d: one element does not parse' % off)
            esz = r1[0] - z
            lp = [p for p in it['len_paths'] if r1[1].get(p) == 1 and r0[1].get(p) == 0]
            if esz <= 0 or len(lp) != 1:
                raise Inexpressible('count at %d: element size %d, list %r' % (off, esz, lp))
            lpath = lp[0][:-4]
            cname = lpath + '#count'
            for zc in (2, 3, (1 << (8 * width)) - 1 if width == 1 else 0x0102):
                bb = bytearray(base); bb[off:off + width] = zc.to_bytes(width, 'little')
                rr = pr.parse(bytes(bb))
                if rr is None or rr[0] != z + zc * esz or rr[1].get(lp[0]) != zc:
                    raise Inexpressible('count at %d: %d elements do not parse as %d bytes' % (off, zc, zc * esz))
            r1raw = r1[1].get(lpath)
            if isinstance(r1raw, str) and r1raw.startswith('b:'):
                out.append({'t': 'field', 'off': off, 'name': cname, 'kind': 'U%d' % (8 * width), 'adapter': ['count', lpath], 'conv': ['int'], 'is_count': True, 'paths': [], 'len_paths': lp})
                tailitems = [{'t': 'bytes', 'name': lpath, 'path': lpath, 'len': ['count', cname]}]
            else:
                body = infer_region(Prober(cls, pr.greedy), bytes(b1) + bytes(esz), z, z + esz)
                pref = lpath + '[0]'
                for b in body:
                    if b['t'] == 'field':
                        if not b['paths'][0].startswith(pref):
                            raise Inexpressible('element byte %d moves %s' % (b['off'], b['paths'][0]))
                        b['paths'] = [b['paths'][0][len(pref):]]
                        b['name'] = b['paths'][0]
                    elif b['t'] == 'pad':
                        pk = _pack_or_none(pr.parse(bytes(b1) + bytes(esz))[2])
                        if pk is None:
                            raise Inexpressible('element padding: pack() fails')
                        b['bytes'] = list(pk[b['off']:b['off'] + b['width']])
                    else:
                        raise Inexpressible('nested count inside an element')
                out.append({'t': 'field', 'off': off, 'name': cname, 'kind': 'U%d' % (8 * width), 'adapter': ['count', lpath], 'conv': ['int'], 'is_count': True, 'paths': [], 'len_paths': lp})
                tailitems = [{'t': 'counted', 'name': lpath, 'path': lpath, 'cnt': cname, 'body': body}]
            out.append(('TAIL', tailitems))
        else:
            out.append(it)
    tails = [x[1] for x in out if isinstance(x, tuple)]
    if len(tails) > 1:
        raise Inexpressible('several variable parts in a struct-based class')
    out = [x for x in out if not isinstance(x, tuple)] + (tails[0] if tails else [])
    for it in out:
        if it['t'] == 'pad' and 'bytes' not in it:
            if pack0 is None:
                raise Inexpressible('padding at %d: pack() of the parsed zero message fails' % it['off'])
            it['bytes'] = list(pack0[it['off']:it['off'] + it['width']])
            # what is written there must not depend on what was read there
            bb = bytearray(base); bb[it['off']:it['off'] + it['width']] = b'\xff' * it['width']
            rr = pr.parse(bytes(bb))
            pk = _pack_or_none(rr[2]) if rr else None
            if pk is None or list(pk[it['off']:it['off'] + it['width']]) != it['bytes']:
                raise Inexpressible('bytes %d..: ignored by unpack but not written as a constant' % it['off'])
    # cross-check widths with the struct format strings present on the class
    fmts = struct_formats(cls)
    widths = sorted(KSIZE[i['kind']] for i in out if i['t'] == 'field')
    return out, fmts


# ------------------------------------------------------------------------------------------------

def validate_construct_description(cls, items, pr):
    """The class may carry a Construct it does not use for its own pack()/unpack() (MeasurementDetails): confirm by
    behaviour that the walked description is what unpack does - lenient enum fields must accept an unknown value,
    strict ones must refuse it."""
    fixed = sum(isize(i) for i in items)
    base = bytes(fixed)
    for it in items:
        if it['t'] != 'field' or it.get('is_count') or KSIZE[it['kind']] > 2:
            continue
        w = KSIZE[it['kind']]
        if it['adapter'][0] == 'strict':
            unknown = next(u for u in range(1 << (8 * w)) if u not in [m % (1 << (8 * w)) for m in it['adapter'][1]])
            b = bytearray(base); b[it['off']:it['off'] + w] = unknown.to_bytes(w, 'little')
            if pr.parse(bytes(b)) is not None:
                raise Inexpressible('field %s: the construct is strict but unpack accepts %d' % (it['name'], unknown))
        elif it['adapter'] == ['id'] and it.get('from_enum'):
            unknown = next(u for u in range((1 << (8 * w)) - 1, 0, -1) if u not in it['from_enum'])
            b = bytearray(base); b[it['off']:it['off'] + w] = unknown.to_bytes(w, 'little')
            if pr.parse(bytes(b) + bytes(64)) is None:
                raise Inexpressible('field %s: the construct is lenient but unpack refuses %d' % (it['name'], unknown))


def detect_rewrite(cls, items, pr):
    """unpack() rewrites a byte-string part depending on an earlier field (EventNotificationMessage: '/2' -> '.1' for
    command / response events).  The rule is identified by probing and attached to the part as mode ['rewrite', ...]."""
    fixed = sum(isize(i) for i in items)
    found = False
    for it in items:
        if it['t'] != 'bytes' or it['len'][0] != 'count':
            continue
        cf = next(x for x in items if x['t'] == 'field' and x['name'] == it['len'][1])
        probe = b'/2AB'
        hits = {}
        for tf in [x for x in items if x['t'] == 'field' and x['kind'] == 'U8' and x['adapter'] == ['id'] and not x.get('is_count')]:
            for tv in range(0, 16):
                b = bytearray(fixed)
                b[tf['off']] = tv
                b[cf['off']:cf['off'] + KSIZE[cf['kind']]] = len(probe).to_bytes(KSIZE[cf['kind']], 'little')
                r = pr.parse(bytes(b) + probe)
                if r is None:
                    continue
                out = r[1].get(it['path'])
                if out != 'b:' + probe.hex():
                    hits.setdefault(tf['name'], []).append((tv, bytes.fromhex(out[2:]) if isinstance(out, str) and out.startswith('b:') else None))
        if not hits:
            continue
        if len(hits) != 1:
            raise Inexpressible('byte part %s is rewritten depending on several fields %r' % (it['name'], sorted(hits)))
        tname, lst = next(iter(hits.items()))
        outs = {o for _, o in lst}
        if len(outs) != 1 or None in outs or len(next(iter(outs))) != len(probe):
            raise Inexpressible('byte part %s: rewrite not understood' % it['name'])
        out = next(iter(outs))
        k = max(i for i in range(len(probe)) if probe[i] != out[i]) + 1
        src, dst, vals = probe[:k], out[:k], sorted(tv for tv, _ in lst)
        # the rule must also explain near misses
        tf = next(x for x in items if x['t'] == 'field' and x['name'] == tname)
        for data in (src, src + b'x', src[:-1], dst + b'y', bytes([src[0]]) + b'\x00' * (k - 1) + b'z', b''):
            for tv in vals[:1] + [v for v in range(16) if v not in vals][:1]:
                b = bytearray(fixed)
                b[tf['off']] = tv
                b[cf['off']:cf['off'] + KSIZE[cf['kind']]] = len(data).to_bytes(KSIZE[cf['kind']], 'little')
                r = pr.parse(bytes(b) + data)
                want = (dst + data[k:]) if (tv in vals and data[:k] == src) else data
                if r is None or r[1].get(it['path']) != 'b:' + want.hex():
                    raise Inexpressible('byte part %s: the rewrite rule (%r -> %r when %s in %r) does not explain %r' % (it['name'], src, dst, tname, vals, data))
        it['mode'] = ['rewrite', tname, vals, list(src), list(dst)]
        found = True
    return found


CONTAINER_SPECS = {
    # class name: (object attribute, registry module, generator attr, case map attr, sub-map attr, header construct attr, skip (field, mask), opaque)
    'SetConfigMessage': ('.config_object', 'configuration', '_conf_gen', 'CONFIG_MAP', 'INTERFACE_CONFIG_MAP', '_InterfaceConfigSubmessageConstruct', ('flags', 'FLAG_REVERT_TO_DEFAULT'), False),
    'ConfigResponseMessage': ('.config_object', 'configuration', '_conf_gen', 'CONFIG_MAP', 'INTERFACE_CONFIG_MAP', '_InterfaceConfigSubmessageConstruct', None, True),
    'FaultControlMessage': ('.payload', 'fault_control', '_class_gen', 'TYPE_MAP', None, None, None, False),
}
HDR_PATHS = {'interface.type': '.interface.InterfaceID.type', 'interface.index': '.interface.InterfaceID.index'}


def _case_items(adapter, obj_path):
    if not isinstance(adapter, CU.NamedTupleAdapter) or not isinstance(adapter.subcon, C.Struct):
        raise Inexpressible('registered sub-payload is not a NamedTupleAdapter over a Struct')
    its = walk(adapter.subcon, '')
    named = [i for i in its if i['t'] in ('field', 'str')]
    flds = list(adapter.tuple_cls._fields)
    if any(i['t'] not in ('field', 'pad', 'str') for i in its) or len(named) != len(flds):
        raise Inexpressible('sub-payload %s: %d wire fields for %d tuple fields' % (adapter.tuple_cls.__name__, len(named), len(flds)))
    for i, f in zip(named, flds):
        i['paths'] = ['%s.%s.%s' % (obj_path, adapter.tuple_cls.__name__, f)]
    return {'name': adapter.tuple_cls.__name__, 'items': its}


def describe_container(key, cls, con, pr):
    import sys as _sys
    obj_path, modname, genname, mapname, submapname, hdrname, skip, opaque = CONTAINER_SPECS[cls.__name__]
    mod = _sys.modules.get('fusion_engine_client.messages.' + modname)
    gen = getattr(mod, genname, None)
    if gen is None or not hasattr(gen, mapname):
        raise Inexpressible('registry %s.%s not found' % (genname, mapname))
    items = walk(con)
    if not items or items[-1]['t'] != 'bytes' or items[-1]['len'][0] != 'count':
        raise Inexpressible('container layout does not end in a length-prefixed byte string')
    data = items.pop()
    base = bytes(sum(isize(i) for i in items))
    r0 = pr.parse(base)
    if r0 is None:
        raise Inexpressible('the all-zero container does not parse')
    off, names = 0, {}
    for it in items:
        if it['t'] == 'field':
            it['off'] = off
            names[it['name']] = it
            pth = '.' + it['name']
            it['paths'] = [pth] if pth in r0[1] else []
            it['len_paths'] = []
            it['nopath'] = not it['paths']
        elif it['t'] != 'pad':
            raise Inexpressible('container header contains a %s part' % it['t'])
        off += isize(it)
    lenf = names.get(data['len'][1])
    if lenf is None or lenf['kind'] not in ('U8', 'U16', 'U32') or lenf['adapter'] != ['id']:
        raise Inexpressible('container length field not understood')
    lenf['adapter'] = ['count', data['name']]; lenf['is_count'] = True; lenf['nopath'] = True; lenf['paths'] = []
    tagf = next((i for i in items if i['t'] == 'field' and i['name'].endswith('_type') and i['name'] in ('config_type', 'fault_type')), None)
    if tagf is None or tagf['adapter'] != ['id']:
        raise Inexpressible('container tag field not found')
    tagged = {'t': 'tagged', 'name': data['name'], 'tag': tagf['name'], 'len': lenf['name'], 'opaque': opaque, 'obj_path': obj_path,
              'cases': {str(int(k)): _case_items(a, obj_path) for k, a in sorted(getattr(gen, mapname).items(), key=lambda kv: int(kv[0]))},
              'skip': None, 'sub': None}
    if skip is not None:
        ff = names.get(skip[0])
        if ff is None or ff['adapter'] != ['id']:
            raise Inexpressible('skip flag field not found')
        tagged['skip'] = [skip[0], int(getattr(cls, skip[1]))]
    if submapname is not None:
        hdr = getattr(mod, hdrname, None)
        ct = getattr(mod, 'ConfigType', None)
        if hdr is None or ct is None:
            raise Inexpressible('interface header construct not found')
        hitems = walk(hdr, '')
        for h in hitems:
            if h['t'] == 'field':
                h['paths'] = [HDR_PATHS[h['name']]] if h['name'] in HDR_PATHS else []
                h['nopath'] = not h['paths']
            elif h['t'] != 'pad':
                raise Inexpressible('interface header contains a %s part' % h['t'])
        sid = next((h for h in hitems if h['t'] == 'field' and h['name'] == 'subtype'), None)
        if sid is None or sid['adapter'] != ['id']:
            raise Inexpressible('interface header has no plain subtype field')
        tagged['sub'] = {'tag_value': int(ct.INTERFACE_CONFIG), 'hdr': hitems, 'sid': 'subtype',
                         'cases': {str(int(k)): _case_items(a, obj_path) for k, a in sorted(getattr(gen, submapname).items(), key=lambda kv: int(kv[0]))}}
    return items + [tagged]


def find_construct(cls):
    c = getattr(cls, 'Construct', None)
    if isinstance(c, C.Construct):
        return c
    cands = [v for k, v in vars(cls).items() if isinstance(v, C.Struct)]
    if len(cands) == 1:
        return cands[0]
    if len(cands) > 1:
        raise Inexpressible('several Struct constructs on the class')
    return None


def describe(key, cls):
    # greedy?
    z = L.min_zero_len(cls)
    if z is None:
        raise Inexpressible('no all-zero buffer parses')
    n = L.try_parse(cls, bytes(z) + b'\x00' * 3)
    greedy = n == z + 3
    pr = Prober(cls, greedy)
    con = find_construct(cls)
    if cls.__name__ in CONTAINER_SPECS:
        if con is None:
            raise Inexpressible('container without a single Struct construct')
        items = describe_container(key, cls, con, pr)
        src = 'construct+registry'
        fmts = []
    else:
        items, why = None, None
        if con is not None:
            try:
                items = describe_construct(key, cls, con, pr)
                validate_construct_description(cls, items, pr)
                detect_rewrite(cls, items, pr)      # unpack-side rewriting of a byte-string part, identified by probing
                src, fmts = 'construct', []
            except Inexpressible as e:
                items, why = None, str(e)
        if items is None:
            try:
                items, fmts = describe_struct(key, cls, pr)
                src = 'struct+probing'
            except Inexpressible as e:
                raise Inexpressible(why if why is not None else str(e))
    return {'key': key, 'source': src, 'greedy': greedy, 'items': items, 'formats': fmts}


def main():
    tab = L.class_table()
    out = {}
    keys = [k for k in tab if '[' not in k]
    if len(sys.argv) > 1:
        keys = sys.argv[1:]
    for key in keys:
        cls, _ = tab[key]
        try:
            out[key] = describe(key, cls)
        except Inexpressible as e:
            out[key] = {'key': key, 'inexpressible': str(e)}
    print(json.dumps(out))


if __name__ == '__main__':
    main()
