// Shared by c07_framer_h.cc and c14_framer_h.cc: framer buffers are carved out of one private mmap'ed arena
// and fenced with manually poisoned AddressSanitizer regions (64 KiB after, 4 KiB before), so that an
// overflowing write is REPORTED by ASan (recover mode) but lands in memory nobody else uses — the harness
// survives arbitrarily long overflows and can print the verdict for that input.
// The usable bytes are pre-filled with a sentinel pattern of sync bytes (0x2E 0x31 0xD3 0x2E).
// guarded_block(n, align): n usable bytes starting at an address = align (mod 4) and ending exactly where
// the poisoned tail begins.  operator new[] / delete[] are replaced so that the framer's internally
// allocated ("managed") buffer is fenced the same way while g_guard_new is set.
#pragma once
#include <cstdint>
#include <cstdlib>
#include <new>
#include <sys/mman.h>
#include <sanitizer/asan_interface.h>

static uint8_t* g_arena = nullptr;
static size_t g_arena_size = 64u << 20;
static size_t g_arena_used = 0;
static bool g_guard_new = false;
static uint8_t* g_last_start = nullptr;   // the block handed out last
static size_t g_last_len = 0;
static const size_t GUARD_BEFORE = 4096, GUARD_AFTER = 64u << 10;

static void arena_reset() {
  if (!g_arena) {
    g_arena = (uint8_t*)mmap(nullptr, g_arena_size, PROT_READ | PROT_WRITE, MAP_PRIVATE | MAP_ANONYMOUS, -1, 0);
    if (g_arena == (uint8_t*)MAP_FAILED) abort();
  }
  if (g_arena_used) __asan_unpoison_memory_region(g_arena, g_arena_used);
  g_arena_used = 0;
}

static uint8_t* guarded_block(size_t n, int align) {
  size_t body = (n + (size_t)align + 15) & ~(size_t)15;
  if (g_arena_used + GUARD_BEFORE + body + GUARD_AFTER > g_arena_size) abort();
  uint8_t* base = g_arena + g_arena_used;            // 16-aligned
  uint8_t* end = base + GUARD_BEFORE + body;          // 16-aligned: first poisoned byte is `end` when n+align fills body
  // place the block so that it ENDS at `stop`, with stop - n = align (mod 4)
  uint8_t* start = base + GUARD_BEFORE + (size_t)align;   // = align mod 4
  uint8_t* stop = start + n;
  // stale-memory sentinel: sync bytes of both framers, so that a read of bytes the framer never stored shows up
  static const uint8_t pat[4] = {0x2E, 0x31, 0xD3, 0x2E};
  for (uint8_t* q = base + GUARD_BEFORE; q < end; ++q) *q = pat[(q - base) & 3];
  g_last_start = start; g_last_len = n;
  __asan_poison_memory_region(base, GUARD_BEFORE);
  __asan_poison_memory_region(stop, (size_t)(end - stop) + GUARD_AFTER);
  g_arena_used += GUARD_BEFORE + body + GUARD_AFTER;
  return start;
}

static bool in_arena(void* p) { return g_arena && (uint8_t*)p >= g_arena && (uint8_t*)p < g_arena + g_arena_size; }

void* operator new[](size_t n) {
  if (g_guard_new) return guarded_block(n, 0);
  void* p = malloc(n ? n : 1);
  if (!p) throw std::bad_alloc();
  return p;
}
void operator delete[](void* p) noexcept { if (!in_arena(p)) free(p); }
void operator delete[](void* p, size_t) noexcept { if (!in_arena(p)) free(p); }
