// C20 harness: line protocol around data_version.{h,cc} of the working tree.
//   P <hex>            FromString(const char*) on a NUL-terminated copy whose terminator is the LAST byte of a
//                      readable page followed by a PROT_NONE page  ->  "maj min" | "OOB"
//                      (with -DUSE_ASAN: exact-size heap block, AddressSanitizer report -> "OOB")
//   Q <hex>            FromString(std::string)
//   T maj min          ToString -> hex ; S maj min  operator<< -> hex
//   C a b c d          the six comparison operators on (a,b) vs (c,d) -> "eq ne lt gt le ge"
//   V maj min          IsValid
//   G on|off           install / remove a global C++ locale with digit grouping ("1,000") — ToString must not depend on it
//   CR ra a b rb c d   the six operators on objects built from raw bytes (reserved, major, minor) as read off the wire
#include <csetjmp>
#include <csignal>
#include <cstdio>
#include <cstdlib>
#include <cstring>
#include <iostream>
#include <locale>
#include <sstream>
#include <string>
#include <sys/mman.h>
#include <unistd.h>

#include "point_one/fusion_engine/messages/data_version.h"

using namespace point_one::fusion_engine::messages;

static sigjmp_buf jb;
static volatile sig_atomic_t armed = 0;
static void on_segv(int) {
  if (armed) siglongjmp(jb, 1);
  _exit(99);
}

#ifdef USE_ASAN
extern "C" void __asan_set_error_report_callback(void (*)(const char*));
static volatile int asan_hit = 0;
static void asan_cb(const char*) { asan_hit = 1; }
#endif

struct Grouping : std::numpunct<char> {
  char do_thousands_sep() const override { return ','; }
  std::string do_grouping() const override { return "\3"; }
};

static DataVersion from_raw(int r, int a, int b) {
  unsigned char raw[4] = {(unsigned char)r, (unsigned char)a, (unsigned char)(b & 0xFF), (unsigned char)((b >> 8) & 0xFF)};
  DataVersion v;
  static_assert(sizeof(DataVersion) == 4, "DataVersion is 4 bytes on the wire");
  memcpy(&v, raw, 4);
  return v;
}

static std::string unhex(const std::string& h) {
  std::string out;
  for (size_t i = 0; i + 1 < h.size(); i += 2)
    out.push_back((char)strtol(h.substr(i, 2).c_str(), nullptr, 16));
  return out;
}
static std::string tohex(const std::string& s) {
  static const char* d = "0123456789abcdef";
  std::string out;
  for (unsigned char c : s) { out.push_back(d[c >> 4]); out.push_back(d[c & 15]); }
  return out;
}

int main() {
  long page = sysconf(_SC_PAGESIZE);
  size_t npages = 17;  // up to 64 KiB strings
  char* region = (char*)mmap(nullptr, (npages + 1) * page, PROT_READ | PROT_WRITE, MAP_PRIVATE | MAP_ANONYMOUS, -1, 0);
  if (region == MAP_FAILED) return 2;
  mprotect(region + npages * page, page, PROT_NONE);
  char* guard = region + npages * page;
#ifdef USE_ASAN
  __asan_set_error_report_callback(asan_cb);
#else
  struct sigaction sa;
  memset(&sa, 0, sizeof(sa));
  sa.sa_handler = on_segv;
  sigaction(SIGSEGV, &sa, nullptr);
  sigaction(SIGBUS, &sa, nullptr);
#endif
  std::string line;
  while (std::getline(std::cin, line)) {
    std::istringstream is(line);
    std::string cmd;
    is >> cmd;
    if (cmd == "P" || cmd == "Q") {
      std::string h;
      is >> h;
      if (h == "-") h = "";
      std::string s = unhex(h);
      if (cmd == "Q") {
        DataVersion v = FromString(s);
        printf("%d %d\n", (int)v.major_version, (int)v.minor_version);
        continue;
      }
#ifdef USE_ASAN
      char* p = (char*)malloc(s.size() + 1);
      memcpy(p, s.data(), s.size());
      p[s.size()] = 0;
      asan_hit = 0;
      DataVersion v = FromString((const char*)p);
      if (asan_hit) printf("OOB\n"); else printf("%d %d\n", (int)v.major_version, (int)v.minor_version);
      free(p);
#else
      char* p = guard - (s.size() + 1);
      memcpy(p, s.data(), s.size());
      p[s.size()] = 0;
      armed = 1;
      if (sigsetjmp(jb, 1) == 0) {
        DataVersion v = FromString((const char*)p);
        armed = 0;
        printf("%d %d\n", (int)v.major_version, (int)v.minor_version);
      } else {
        armed = 0;
        printf("OOB\n");
      }
#endif
    } else if (cmd == "T" || cmd == "S" || cmd == "V") {
      int a, b;
      is >> a >> b;
      DataVersion v((uint8_t)a, (uint16_t)b);
      if (cmd == "T") printf("%s\n", tohex(ToString(v)).c_str());
      else if (cmd == "S") { std::ostringstream os; os << v; printf("%s\n", tohex(os.str()).c_str()); }
      else printf("%d\n", v.IsValid() ? 1 : 0);
    } else if (cmd == "G") {
      std::string w;
      is >> w;
      if (w == "on") std::locale::global(std::locale(std::locale::classic(), new Grouping));
      else std::locale::global(std::locale::classic());
      printf("ok\n");
    } else if (cmd == "CR") {
      int ra, a, b, rb, c, d;
      is >> ra >> a >> b >> rb >> c >> d;
      DataVersion x = from_raw(ra, a, b), y = from_raw(rb, c, d);
      printf("%d %d %d %d %d %d\n", x == y, x != y, x < y, x > y, x <= y, x >= y);
    } else if (cmd == "C") {
      int a, b, c, d;
      is >> a >> b >> c >> d;
      DataVersion x((uint8_t)a, (uint16_t)b), y((uint8_t)c, (uint16_t)d);
      printf("%d %d %d %d %d %d\n", x == y, x != y, x < y, x > y, x <= y, x >= y);
    } else {
      printf("?\n");
    }
  }
  fflush(stdout);
  return 0;
}
