// C14 harness: line protocol around the working tree's RTCMFramer (src/point_one/rtcm/rtcm_framer.{h,cc}).
//   <U|M> <capacity>[/<real>] <align> <op>*       op = D<hex> | R | B<U|M>,<capacity>[/<real>],<align>
// U: user buffer of <capacity> bytes at an address = <align> mod 4 whose last byte is immediately followed by
//    poisoned (AddressSanitizer) memory, see c07_guard.h; the byte before it is poisoned too when align = 0.  "<capacity>/<real>": the framer is TOLD capacity, the block has real bytes
//    (used to exercise the 2^31 clamp without allocating 2 GiB).
// M: internally allocated buffer (constructor with a capacity only).
// Optional first op token O<bits>: 1 = WarnOnError(true), 2 = std::function callback instead of the raw one (FusionEngine only),
//   4 = the callback calls Reset() re-entrantly (only memory safety is judged for such lines).
// BS,<capacity>,<align>: SetBuffer() again on the SAME user memory as the last user buffer (capacity <= its size).
// Callback flag bits: +4 payload != header + 24, +8 wrong context pointer, +16 message not inside a buffer given to the framer.
// A chunk whose bytes differ after the call is flagged INMOD (the framer must not write to the caller's data).
// Every OnData() chunk is copied into its own exact-size heap block (ending exactly at the block end, starting at
// a varying alignment) (over-reads of the caller's data are
// reported).  AddressSanitizer runs in recover mode; a report during an operation is printed as flag ASAN.
// Output: one line, segments joined by '|': C;adv  R;adv  B;adv  D;ret;cbs;decoded;errors;flag;adv
//   cbs = '-' | num:hex:ptrmod4[,...]   adv = state,next,size,capacity_bytes,has_buffer (-1 = member absent)
#include <cstdint>
#include <cstdio>
#include <cstdlib>
#include <cstring>
#include <iostream>
#include <sstream>
#include <string>
#include <vector>

#define private public
#include "point_one/rtcm/rtcm_framer.h"
#undef private

using point_one::rtcm::RTCMFramer;

#include "c07_guard.h"
static volatile int asan_hit = 0;
static void asan_cb(const char*) { asan_hit = 1; }

static const char* HEXD = "0123456789abcdef";
struct Range { const uint8_t* lo; const uint8_t* hi; };
static std::vector<Range> g_blocks;          // memory handed to the framer on this line
static bool g_cb_resets = false;
static void* g_framer = nullptr;
static unsigned inside_flag(const void* p, size_t n) {
  const uint8_t* q = static_cast<const uint8_t*>(p);
  for (const Range& r : g_blocks) if (q >= r.lo && q + n <= r.hi) return 0;
  return 16;
}
// Token K<n> (anywhere in the line): 0 = no callback registered (SetMessageCallback(nullptr)), 1 = callback A, 2 = callback B
// (a replacement).  Exactly the registered one must see every dispatched frame; a record in the other is flagged CBDIFF;
// with none registered the callbacks field is '~' and only the return value and the decoded count are judged.
static std::string g_cbs, g_cbs_b;
static unsigned g_reg = 1;
static void record(std::string& rec, uint16_t num, const void* data, size_t len) {
  if (!rec.empty()) rec.push_back(',');
  rec += std::to_string((unsigned)num);
  rec.push_back(':');
  const uint8_t* p = static_cast<const uint8_t*>(data);
  for (size_t i = 0; i < len; ++i) { rec.push_back(HEXD[p[i] >> 4]); rec.push_back(HEXD[p[i] & 15]); }
  rec.push_back(':');
  rec += std::to_string((unsigned)(reinterpret_cast<uintptr_t>(data) & 3) + inside_flag(data, len));
  if (g_cb_resets) static_cast<RTCMFramer*>(g_framer)->Reset();
}
static void on_msg(uint16_t num, const void* data, size_t len) { record(g_cbs, num, data, len); }
static void on_msg_b(uint16_t num, const void* data, size_t len) { record(g_cbs_b, num, data, len); }
static void set_callbacks(RTCMFramer* f, unsigned reg) {
  g_reg = reg;
  f->SetMessageCallback(reg == 1 ? on_msg : reg == 2 ? on_msg_b : nullptr);
}

// private state is advisory: print -1 when a member no longer exists under that name
template <class T> auto m_state(T& f, int) -> decltype((long)f.state_) { return (long)f.state_; }
template <class T> long m_state(T&, long) { return -1; }
template <class T> auto m_next(T& f, int) -> decltype((long)f.next_byte_index_) { return (long)f.next_byte_index_; }
template <class T> long m_next(T&, long) { return -1; }
template <class T> auto m_size(T& f, int) -> decltype((long)f.current_message_size_) { return (long)f.current_message_size_; }
template <class T> long m_size(T&, long) { return -1; }
template <class T> auto m_cap(T& f, int) -> decltype((long)f.capacity_bytes_) { return (long)f.capacity_bytes_; }
template <class T> long m_cap(T&, long) { return -1; }
template <class T> auto m_has(T& f, int) -> decltype((long)(f.buffer_ != nullptr)) { return (long)(f.buffer_ != nullptr); }
template <class T> long m_has(T&, long) { return -1; }

static std::string adv(RTCMFramer& f) {
  std::ostringstream os;
  os << m_state(f, 0) << ',' << m_next(f, 0) << ',' << m_size(f, 0) << ',' << m_cap(f, 0) << ',' << m_has(f, 0);
  return os.str();
}

static std::vector<uint8_t> unhex(const std::string& h) {
  std::vector<uint8_t> out;
  auto v = [](char c) { return c <= '9' ? c - '0' : (c | 32) - 'a' + 10; };
  for (size_t i = 0; i + 1 < h.size(); i += 2) out.push_back((uint8_t)(v(h[i]) * 16 + v(h[i + 1])));
  return out;
}

struct Buf { size_t claimed; size_t real; int align; };
static Buf parse_buf(const std::string& cap, const std::string& al) {
  Buf b;
  size_t s = cap.find('/');
  b.claimed = strtoull(cap.substr(0, s).c_str(), nullptr, 10);
  b.real = s == std::string::npos ? b.claimed : strtoull(cap.substr(s + 1).c_str(), nullptr, 10);
  b.align = atoi(al.c_str());
  return b;
}

int main() {
  __asan_set_error_report_callback(asan_cb);
  std::string line;
  while (std::getline(std::cin, line)) {
    std::istringstream is(line);
    std::string mode, cap, al, tok;
    is >> mode >> cap >> al;
    arena_reset();
    g_blocks.clear(); g_cb_resets = false;
    uint8_t* last_user = nullptr; size_t last_user_real = 0; unsigned nchunk = 0;
    std::string out;
    Buf b = parse_buf(cap, al);
    RTCMFramer* f;
    asan_hit = 0;
    if (mode == "U") {
      uint8_t* blk = guarded_block(b.real, b.align) - b.align;
      g_blocks.push_back({blk + b.align, blk + b.align + b.real}); last_user = blk + b.align; last_user_real = b.real;
      f = new RTCMFramer(blk + b.align, b.claimed);
    } else {
      g_guard_new = true; g_last_start = nullptr;
      f = new RTCMFramer(b.claimed);
      g_guard_new = false;
      if (g_last_start) g_blocks.push_back({g_last_start, g_last_start + g_last_len});
    }
    g_framer = f;
    f->WarnOnError(false);
    set_callbacks(f, 1);
    out = "C;" + adv(*f);
    while (is >> tok) {
      if (tok[0] == 'O') {
        unsigned bits = (unsigned)atoi(tok.c_str() + 1);
        f->WarnOnError((bits & 1) != 0);
        g_cb_resets = (bits & 4) != 0;
        continue;
      }
      if (tok[0] == 'K') { set_callbacks(f, (unsigned)atoi(tok.c_str() + 1)); continue; }
      out.push_back('|');
      asan_hit = 0;
      if (tok[0] == 'R') {
        f->Reset();
        out += "R;" + adv(*f);
      } else if (tok[0] == 'B') {
        std::string m, c2, a2;
        std::istringstream ts(tok.substr(1));
        std::getline(ts, m, ','); std::getline(ts, c2, ','); std::getline(ts, a2, ',');
        Buf nb = parse_buf(c2, a2);
        if (m == "S" && last_user != nullptr) {
          f->SetBuffer(last_user, nb.claimed < last_user_real ? nb.claimed : last_user_real);
        } else if (m == "U" || m == "S") {
          uint8_t* blk = guarded_block(nb.real, nb.align) - nb.align;
          g_blocks.push_back({blk + nb.align, blk + nb.align + nb.real}); last_user = blk + nb.align; last_user_real = nb.real;
          f->SetBuffer(blk + nb.align, nb.claimed);
        } else {
          g_guard_new = true;
          g_last_start = nullptr;
          f->SetBuffer(nullptr, nb.claimed);
          g_guard_new = false;
          if (g_last_start) g_blocks.push_back({g_last_start, g_last_start + g_last_len});
        }
        out += "B;" + adv(*f);
      } else {
        std::vector<uint8_t> d = unhex(tok.substr(1));
        size_t off = (nchunk++ * 7 + d.size()) & 3;      // start alignment varies, the chunk ends exactly at the block end
        uint8_t* raw = (uint8_t*)malloc(off + d.size());
        uint8_t* in = raw + off;
        if (!d.empty()) memcpy(in, d.data(), d.size());
        g_cbs.clear(); g_cbs_b.clear();
        size_t ret = f->OnData(in, d.size());
        bool inmod = !d.empty() && memcmp(in, d.data(), d.size()) != 0;
        free(raw);
        std::ostringstream os;
        std::string& rec = g_reg == 2 ? g_cbs_b : g_cbs;
        bool diff = (g_reg != 1 && !g_cbs.empty()) || (g_reg != 2 && !g_cbs_b.empty());
        os << "D;" << ret << ';' << (g_reg == 0 ? "~" : rec.empty() ? "-" : rec) << ';' << f->GetNumDecodedMessages() << ';'
           << f->GetNumErrors() << ';' << (asan_hit ? "ASAN" : inmod ? "INMOD" : diff ? "CBDIFF" : "ok") << ';' << adv(*f);
        out += os.str();
      }
    }
    delete f;
    puts(out.c_str());
  }
  fflush(stdout);
  return 0;
}
