// Probe used by translators/gen_c07.py: constants of the FusionEngine framer are obtained by EVALUATING the
// working tree (compiler for the public MessageHeader layout, observed behaviour for everything private).
//   first output line:  C sizeof(MessageHeader) offsetof(reserved) offsetof(crc) offsetof(protocol_version) offsetof(payload_size_bytes)
//   U <a> <claimed> <hex>   framer on a user buffer at (64-aligned arena + 4096 + a), told <claimed> bytes -> "ncb ret"
//   M <cap> <hex>           framer with an internally allocated buffer of <cap> bytes                        -> "ncb ret"
//   K <k> <hex>             CalculateCRC(buf) and CalculateCRC(buf + k, len - k, 0)                           -> "a b"
#include <cstddef>
#include <cstdint>
#include <cstdio>
#include <cstdlib>
#include <cstring>
#include <iostream>
#include <sstream>
#include <string>
#include <vector>
#include "point_one/fusion_engine/messages/crc.h"
#include "point_one/fusion_engine/parsers/fusion_engine_framer.h"
using namespace point_one::fusion_engine::messages;
using point_one::fusion_engine::parsers::FusionEngineFramer;

alignas(64) static uint8_t arena[1 << 20];
static int ncb = 0;
static void cb(void*, const MessageHeader&, const void*) { ++ncb; }
static std::vector<uint8_t> unhex(const std::string& h) {
  std::vector<uint8_t> out;
  auto v = [](char c) { return c <= '9' ? c - '0' : (c | 32) - 'a' + 10; };
  for (size_t i = 0; i + 1 < h.size(); i += 2) out.push_back((uint8_t)(v(h[i]) * 16 + v(h[i + 1])));
  return out;
}
int main() {
  printf("C %zu %zu %zu %zu %zu\n", sizeof(MessageHeader), offsetof(MessageHeader, reserved), offsetof(MessageHeader, crc),
         offsetof(MessageHeader, protocol_version), offsetof(MessageHeader, payload_size_bytes));
  std::string line;
  while (std::getline(std::cin, line)) {
    std::istringstream is(line);
    std::string cmd, hex;
    is >> cmd;
    if (cmd == "U") {
      unsigned long long a, claimed;
      is >> a >> claimed >> hex;
      std::vector<uint8_t> d = unhex(hex == "-" ? "" : hex);
      ncb = 0;
      FusionEngineFramer f(arena + 4096 + a, (size_t)claimed);
      f.WarnOnError(false);
      f.SetMessageCallback(cb, nullptr);
      size_t r = f.OnData(d.data(), d.size());
      printf("%d %zu\n", ncb, r);
    } else if (cmd == "M") {
      unsigned long long cap;
      is >> cap >> hex;
      std::vector<uint8_t> d = unhex(hex == "-" ? "" : hex);
      ncb = 0;
      FusionEngineFramer f((size_t)cap);
      f.WarnOnError(false);
      f.SetMessageCallback(cb, nullptr);
      size_t r = f.OnData(d.data(), d.size());
      printf("%d %zu\n", ncb, r);
    } else if (cmd == "K") {
      unsigned long long k;
      is >> k >> hex;
      std::vector<uint8_t> d = unhex(hex);
      alignas(8) static uint8_t buf[4096];
      memcpy(buf, d.data(), d.size());
      printf("%u %u\n", (unsigned)CalculateCRC(buf), (unsigned)CalculateCRC(buf + k, d.size() - k, 0));
    } else {
      printf("?\n");
    }
  }
  return 0;
}
