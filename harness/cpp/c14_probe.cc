// Probe used by translators/gen_c14.py: constants of the RTCM framer are obtained from the BEHAVIOUR of the
// working tree's RTCMFramer (they are file-static in rtcm_framer.cc).
//   U <a> <claimed> <hex>   framer on a user buffer at (64-aligned arena + 4096 + a), told <claimed> bytes
//   M <cap> <hex>           framer with an internally allocated buffer
//        -> "ncb ret first_message_number first_length decoded capacity_bytes_(or -1 if no such member)"
#include <cstddef>
#include <cstdint>
#include <cstdio>
#include <cstdlib>
#include <cstring>
#include <iostream>
#include <sstream>
#include <string>
#include <vector>
#define private public
#include "point_one/rtcm/rtcm_framer.h"
#undef private
using point_one::rtcm::RTCMFramer;

alignas(64) static uint8_t arena[1 << 20];
static int ncb = 0; static long first_num = -1, first_len = -1;
static void cb(uint16_t num, const void*, size_t len) { if (ncb == 0) { first_num = num; first_len = (long)len; } ++ncb; }
template <class T> auto m_cap(T& f, int) -> decltype((long long)f.capacity_bytes_) { return (long long)f.capacity_bytes_; }
template <class T> long long m_cap(T&, long) { return -1; }
static std::vector<uint8_t> unhex(const std::string& h) {
  std::vector<uint8_t> out;
  auto v = [](char c) { return c <= '9' ? c - '0' : (c | 32) - 'a' + 10; };
  for (size_t i = 0; i + 1 < h.size(); i += 2) out.push_back((uint8_t)(v(h[i]) * 16 + v(h[i + 1])));
  return out;
}
static void run(RTCMFramer& f, const std::string& hex) {
  std::vector<uint8_t> d = unhex(hex == "-" ? "" : hex);
  ncb = 0; first_num = -1; first_len = -1;
  f.WarnOnError(false);
  f.SetMessageCallback(cb);
  size_t r = f.OnData(d.data(), d.size());
  printf("%d %zu %ld %ld %u %lld\n", ncb, r, first_num, first_len, (unsigned)f.GetNumDecodedMessages(), m_cap(f, 0));
}
int main() {
  std::string line;
  while (std::getline(std::cin, line)) {
    std::istringstream is(line);
    std::string cmd, hex;
    is >> cmd;
    if (cmd == "U") {
      unsigned long long a, claimed;
      is >> a >> claimed >> hex;
      RTCMFramer f(arena + 4096 + a, (size_t)claimed);
      run(f, hex);
    } else if (cmd == "M") {
      unsigned long long cap;
      is >> cap >> hex;
      RTCMFramer f((size_t)cap);
      run(f, hex);
    } else {
      printf("?\n");
    }
  }
  return 0;
}
