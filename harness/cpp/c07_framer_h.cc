// C07 harness: line protocol around the working tree's FusionEngineFramer
// (src/point_one/fusion_engine/parsers/fusion_engine_framer.{h,cc} + messages/crc.cc).
//   <U|M> <capacity>[/<real>] <align> <op>*       op = D<hex> | R | B<U|M>,<capacity>[/<real>],<align>
// U: user buffer of <capacity> bytes at an address = <align> mod 4 whose last byte is immediately followed by
//    poisoned (AddressSanitizer) memory, see c07_guard.h; the byte before it is poisoned too when align = 0.  "<capacity>/<real>": the framer is TOLD capacity, the block has real bytes
//    (used to exercise the 2^31 clamp without allocating 2 GiB).
// M: internally allocated buffer (constructor with a capacity only).
// Optional first op token O<bits>: 1 = WarnOnError(true), 2 = std::function callback instead of the raw one (FusionEngine only),
//   4 = the callback calls Reset() re-entrantly (only memory safety is judged for such lines).
// BS,<capacity>,<align>: SetBuffer() again on the SAME user memory as the last user buffer (capacity <= its size).
// Callback flag bits: +4 payload != header + 24, +8 wrong context pointer, +16 message not inside a buffer given to the framer.
// A chunk whose bytes differ after the call is flagged INMOD (the framer must not write to the caller's data).
// Every OnData() chunk is copied into its own exact-size heap block (ending exactly at the block end, starting at
// a varying alignment) (over-reads of the caller's data are
// reported).  AddressSanitizer runs in recover mode; a report during an operation is printed as flag ASAN.
// Output: one line, segments joined by '|': C;adv  R;adv  B;adv  D;ret;cbs;decoded;errors;flag;adv
//   cbs = '-' | 0:hex(header ++ payload):(header address mod 4) + 4*(payload != header + 24)[,...]
//   decoded/errors are 0 (the FusionEngine framer has no counters)   adv = state,next,size,capacity_bytes,has_buffer (-1 = member absent)
#include <cstdint>
#include <cstdio>
#include <cstdlib>
#include <cstring>
#include <iostream>
#include <sstream>
#include <string>
#include <vector>

#include <cstddef>
#include <functional>

#define private public
#include "point_one/fusion_engine/parsers/fusion_engine_framer.h"
#undef private

using point_one::fusion_engine::messages::MessageHeader;
using point_one::fusion_engine::parsers::FusionEngineFramer;
typedef FusionEngineFramer Framer;

// the model reads the header through the same offsets (regenerated from defs.h by translators/gen_c07.py)
static_assert(sizeof(MessageHeader) == 24, "header size");
static_assert(offsetof(MessageHeader, reserved) == 2, "reserved");
static_assert(offsetof(MessageHeader, crc) == 4, "crc");
static_assert(offsetof(MessageHeader, protocol_version) == 8, "protocol_version");
static_assert(offsetof(MessageHeader, payload_size_bytes) == 16, "payload_size_bytes");

#include "c07_guard.h"
static volatile int asan_hit = 0;
static void asan_cb(const char*) { asan_hit = 1; }

static const char* HEXD = "0123456789abcdef";
struct Range { const uint8_t* lo; const uint8_t* hi; };
static std::vector<Range> g_blocks;          // memory handed to the framer on this line
static bool g_cb_resets = false;
static void* g_framer = nullptr;
static unsigned inside_flag(const void* p, size_t n) {
  const uint8_t* q = static_cast<const uint8_t*>(p);
  for (const Range& r : g_blocks) if (q >= r.lo && q + n <= r.hi) return 0;
  return 16;
}
// Two independent recorders: what the C-style callback saw and what the std::function callback saw.  Token K<n>
// (anywhere in the line) registers exactly the set n (bit 0: C-style callback + context, bit 1: std::function), clearing
// the others.  Every registered callback must see every dispatched message once, with identical arguments: when both are
// registered and their records differ the segment is flagged CBDIFF; when none is registered the callbacks field is '~'
// and only the return value is judged.  Messages above 1 MiB are recorded as H<length>-<crc32 of all bytes>.
static std::string g_raw, g_fn;
static unsigned g_reg = 1;
static uint32_t soft_crc32(const uint8_t* p, size_t n) {          // independent of the repository's crc.cc
  static uint32_t tab[256]; static bool init = false;
  if (!init) { for (uint32_t i = 0; i < 256; ++i) { uint32_t c = i; for (int j = 0; j < 8; ++j) c = (c & 1) ? 0xEDB88320u ^ (c >> 1) : c >> 1; tab[i] = c; } init = true; }
  uint32_t c = 0xFFFFFFFFu;
  for (size_t i = 0; i < n; ++i) c = tab[(c ^ p[i]) & 0xFF] ^ (c >> 8);
  return c ^ 0xFFFFFFFFu;
}
static void record(std::string& rec, unsigned ctxflag, const MessageHeader& header, const void* payload) {
  if (!rec.empty()) rec.push_back(',');
  rec += "0:";
  const uint8_t* p = reinterpret_cast<const uint8_t*>(&header);
  const uint8_t* q = static_cast<const uint8_t*>(payload);
  size_t total = sizeof(MessageHeader) + (size_t)header.payload_size_bytes;
  if (total > (1u << 20)) {
    std::vector<uint8_t> all(p, p + sizeof(MessageHeader));
    all.insert(all.end(), q, q + header.payload_size_bytes);
    char tmp[64]; snprintf(tmp, sizeof(tmp), "H%zu-%08x", total, (unsigned)soft_crc32(all.data(), all.size()));
    rec += tmp;
  } else {
    for (size_t i = 0; i < sizeof(MessageHeader); ++i) { rec.push_back(HEXD[p[i] >> 4]); rec.push_back(HEXD[p[i] & 15]); }
    for (size_t i = 0; i < header.payload_size_bytes; ++i) { rec.push_back(HEXD[q[i] >> 4]); rec.push_back(HEXD[q[i] & 15]); }
  }
  rec.push_back(':');
  unsigned pm = (unsigned)(reinterpret_cast<uintptr_t>(&header) & 3) + (q != p + sizeof(MessageHeader) ? 4 : 0) + ctxflag + inside_flag(p, total);
  rec += std::to_string(pm);
}
static void on_msg(void* ctx, const MessageHeader& header, const void* payload) {
  record(g_raw, ctx != (void*)&g_raw ? 8 : 0, header, payload);
  if (g_cb_resets && !(g_reg & 2)) static_cast<Framer*>(g_framer)->Reset();
}
static void on_msg_fn(const MessageHeader& header, const void* payload) {
  record(g_fn, 0, header, payload);
  if (g_cb_resets) static_cast<Framer*>(g_framer)->Reset();
}
static void set_callbacks(Framer* f, unsigned reg) {
  g_reg = reg & 3;
  if (reg & 1) f->SetMessageCallback(on_msg, (void*)&g_raw);
  else f->SetMessageCallback((FusionEngineFramer::RawMessageCallback) nullptr, nullptr);
  if (reg & 2) f->SetMessageCallback(FusionEngineFramer::MessageCallback(on_msg_fn));
  else f->SetMessageCallback(FusionEngineFramer::MessageCallback());
}
// private state is advisory: print -1 when a member no longer exists under that name
template <class T> auto m_state(T& f, int) -> decltype((long)f.state_) { return (long)f.state_; }
template <class T> long m_state(T&, long) { return -1; }
template <class T> auto m_next(T& f, int) -> decltype((long)f.next_byte_index_) { return (long)f.next_byte_index_; }
template <class T> long m_next(T&, long) { return -1; }
template <class T> auto m_size(T& f, int) -> decltype((long)f.current_message_size_) { return (long)f.current_message_size_; }
template <class T> long m_size(T&, long) { return -1; }
template <class T> auto m_cap(T& f, int) -> decltype((long)f.capacity_bytes_) { return (long)f.capacity_bytes_; }
template <class T> long m_cap(T&, long) { return -1; }
template <class T> auto m_has(T& f, int) -> decltype((long)(f.buffer_ != nullptr)) { return (long)(f.buffer_ != nullptr); }
template <class T> long m_has(T&, long) { return -1; }

static std::string adv(Framer& f) {
  std::ostringstream os;
  os << m_state(f, 0) << ',' << m_next(f, 0) << ',' << m_size(f, 0) << ',' << m_cap(f, 0) << ',' << m_has(f, 0);
  return os.str();
}

static std::vector<uint8_t> unhex(const std::string& h) {
  std::vector<uint8_t> out;
  auto v = [](char c) { return c <= '9' ? c - '0' : (c | 32) - 'a' + 10; };
  for (size_t i = 0; i + 1 < h.size(); i += 2) out.push_back((uint8_t)(v(h[i]) * 16 + v(h[i + 1])));
  return out;
}

struct Buf { size_t claimed; size_t real; int align; };
static Buf parse_buf(const std::string& cap, const std::string& al) {
  Buf b;
  size_t s = cap.find('/');
  b.claimed = strtoull(cap.substr(0, s).c_str(), nullptr, 10);
  b.real = s == std::string::npos ? b.claimed : strtoull(cap.substr(s + 1).c_str(), nullptr, 10);
  b.align = atoi(al.c_str());
  return b;
}

int main() {
  __asan_set_error_report_callback(asan_cb);
  std::string line;
  while (std::getline(std::cin, line)) {
    std::istringstream is(line);
    std::string mode, cap, al, tok;
    is >> mode >> cap >> al;
    arena_reset();
    g_blocks.clear(); g_cb_resets = false;
    uint8_t* last_user = nullptr; size_t last_user_real = 0; unsigned nchunk = 0;
    std::string out;
    Buf b = parse_buf(cap, al);
    Framer* f;
    asan_hit = 0;
    if (mode == "U") {
      uint8_t* blk = guarded_block(b.real, b.align) - b.align;
      g_blocks.push_back({blk + b.align, blk + b.align + b.real}); last_user = blk + b.align; last_user_real = b.real;
      f = new Framer(blk + b.align, b.claimed);
    } else {
      g_guard_new = true; g_last_start = nullptr;
      f = new Framer(b.claimed);
      g_guard_new = false;
      if (g_last_start) g_blocks.push_back({g_last_start, g_last_start + g_last_len});
    }
    g_framer = f;
    f->WarnOnError(false);
    set_callbacks(f, 1);
    out = "C;" + adv(*f);
    while (is >> tok) {
      if (tok[0] == 'O') {
        unsigned bits = (unsigned)atoi(tok.c_str() + 1);
        f->WarnOnError((bits & 1) != 0);
        if (bits & 2) set_callbacks(f, 2);
        g_cb_resets = (bits & 4) != 0;
        continue;
      }
      if (tok[0] == 'K') { set_callbacks(f, (unsigned)atoi(tok.c_str() + 1)); continue; }
      out.push_back('|');
      asan_hit = 0;
      if (tok[0] == 'G') {
        // G<payload_bytes>,<fill>,<pieces>: a CRC-valid message built here (payload byte i = (31 i + fill) & 255, type 60800),
        // fed in <pieces> OnData() calls; the segment reports the sum of the return values
        size_t pl = 0; unsigned fill = 0, pieces = 1;
        sscanf(tok.c_str() + 1, "%zu,%u,%u", &pl, &fill, &pieces);
        std::vector<uint8_t> m(sizeof(MessageHeader) + pl);
        MessageHeader h; h.message_type = (point_one::fusion_engine::messages::MessageType)60800; h.sequence_number = fill; h.payload_size_bytes = (uint32_t)pl;
        memcpy(m.data(), &h, sizeof(h));
        for (size_t i = 0; i < pl; ++i) m[sizeof(h) + i] = (uint8_t)((31 * i + fill) & 255);
        uint32_t c = soft_crc32(m.data() + 8, m.size() - 8);
        memcpy(m.data() + 4, &c, 4);
        g_raw.clear(); g_fn.clear();
        size_t ret = 0, done = 0;
        bool inmod = false;
        for (unsigned k = 0; k < pieces; ++k) {
          size_t n = (k + 1 == pieces) ? m.size() - done : m.size() / pieces;
          uint8_t* raw = (uint8_t*)malloc(n + 1);
          memcpy(raw + 1, m.data() + done, n);
          ret += f->OnData(raw + 1, n);
          inmod = inmod || memcmp(raw + 1, m.data() + done, n) != 0;
          free(raw);
          done += n;
        }
        std::string& rec = (g_reg & 1) ? g_raw : g_fn;
        bool diff = (g_reg == 3 && g_raw != g_fn) || (!(g_reg & 1) && !g_raw.empty()) || (!(g_reg & 2) && !g_fn.empty());
        std::ostringstream os;
        os << "D;" << ret << ';' << (g_reg == 0 ? "~" : rec.empty() ? "-" : rec) << ";0;0;" << (asan_hit ? "ASAN" : inmod ? "INMOD" : diff ? "CBDIFF" : "ok") << ';' << adv(*f);
        out += os.str();
      } else if (tok[0] == 'R') {
        f->Reset();
        out += "R;" + adv(*f);
      } else if (tok[0] == 'B') {
        std::string m, c2, a2;
        std::istringstream ts(tok.substr(1));
        std::getline(ts, m, ','); std::getline(ts, c2, ','); std::getline(ts, a2, ',');
        Buf nb = parse_buf(c2, a2);
        if (m == "S" && last_user != nullptr) {
          f->SetBuffer(last_user, nb.claimed < last_user_real ? nb.claimed : last_user_real);
        } else if (m == "U" || m == "S") {
          uint8_t* blk = guarded_block(nb.real, nb.align) - nb.align;
          g_blocks.push_back({blk + nb.align, blk + nb.align + nb.real}); last_user = blk + nb.align; last_user_real = nb.real;
          f->SetBuffer(blk + nb.align, nb.claimed);
        } else {
          g_guard_new = true;
          g_last_start = nullptr;
          f->SetBuffer(nullptr, nb.claimed);
          g_guard_new = false;
          if (g_last_start) g_blocks.push_back({g_last_start, g_last_start + g_last_len});
        }
        out += "B;" + adv(*f);
      } else {
        std::vector<uint8_t> d = unhex(tok.substr(1));
        size_t off = (nchunk++ * 7 + d.size()) & 3;      // start alignment varies, the chunk ends exactly at the block end
        uint8_t* raw = (uint8_t*)malloc(off + d.size());
        uint8_t* in = raw + off;
        if (!d.empty()) memcpy(in, d.data(), d.size());
        g_raw.clear(); g_fn.clear();
        size_t ret = f->OnData(in, d.size());
        bool inmod = !d.empty() && memcmp(in, d.data(), d.size()) != 0;
        free(raw);
        std::ostringstream os;
        std::string& rec = (g_reg & 1) ? g_raw : g_fn;
        bool diff = (g_reg == 3 && g_raw != g_fn) || (!(g_reg & 1) && !g_raw.empty()) || (!(g_reg & 2) && !g_fn.empty());
        os << "D;" << ret << ';' << (g_reg == 0 ? "~" : rec.empty() ? "-" : rec) << ";0;0;" << (asan_hit ? "ASAN" : inmod ? "INMOD" : diff ? "CBDIFF" : "ok") << ';' << adv(*f);
        out += os.str();
      }
    }
    delete f;
    puts(out.c_str());
  }
  fflush(stdout);
  return 0;
}
