// C06 harness: line protocol around crc.{h,cc} and the FusionEngine framer of the working tree.
//   C <hex|-> <init>          CalculateCRC(buf, len, init)
//   S <hex|-> <k>             CalculateCRC(buf + k, len - k, CalculateCRC(buf, k))
//   L <hex|-> <len> <init>    CalculateCRC(buf, len, init), "OOB" when len exceeds the supplied bytes (not called)
//   FM <cap>                  framer capacity for the following lines
//   B <hex>                   set the base message, print its analysis
//   E <byteoff> <xorhex> ...  analysis of the base with each xorhex applied at its byteoff
//   analysis: I=<IsValid 1|0|OOB> C1=<CalculateCRC(buffer)|OOB> F=<off:len;...|-> (messages the framer dispatched)
// "OOB" = the call would read beyond the supplied bytes, so the harness does not make it (the model says None).
// Every buffer handed to the library is an exact-size heap block (the ASan build reports any over-read).
#include <cstdint>
#include <cstdio>
#include <cstdlib>
#include <cstring>
#include <iostream>
#include <sstream>
#include <string>
#include <vector>

#include "point_one/fusion_engine/messages/crc.h"
#include "point_one/fusion_engine/messages/defs.h"
#include "point_one/fusion_engine/parsers/fusion_engine_framer.h"

using namespace point_one::fusion_engine::messages;
using point_one::fusion_engine::parsers::FusionEngineFramer;

static std::vector<uint8_t> unhex(const std::string& h0) {
  std::string h = (h0 == "-") ? "" : h0;
  std::vector<uint8_t> out;
  for (size_t i = 0; i + 1 < h.size(); i += 2)
    out.push_back((uint8_t)strtol(h.substr(i, 2).c_str(), nullptr, 16));
  return out;
}

struct Exact {  // exact-size, 4-byte aligned copy
  uint8_t* p;
  explicit Exact(const std::vector<uint8_t>& v) {
    p = (uint8_t*)malloc(v.size() ? v.size() : 1);
    if (!v.empty()) memcpy(p, v.data(), v.size());
  }
  ~Exact() { free(p); }
};

static std::vector<std::string> g_frames;
static const std::vector<uint8_t>* g_input = nullptr;
static void on_msg(void*, const MessageHeader& header, const void* payload) {
  size_t n = sizeof(MessageHeader) + header.payload_size_bytes;
  std::vector<uint8_t> raw(n);
  memcpy(raw.data(), &header, sizeof(MessageHeader));
  memcpy(raw.data() + sizeof(MessageHeader), payload, header.payload_size_bytes);
  long off = -1;
  for (size_t o = 0; g_input && o + n <= g_input->size(); ++o)
    if (memcmp(g_input->data() + o, raw.data(), n) == 0) { off = (long)o; break; }
  g_frames.push_back(std::to_string(off) + ":" + std::to_string(n));
}

static size_t g_cap = 131072;

static std::string analysis(const std::vector<uint8_t>& v) {
  std::string out;
  Exact e(v);
  uint32_t psize = 0;
  bool have_header = v.size() >= sizeof(MessageHeader);
  if (have_header) memcpy(&psize, v.data() + offsetof(MessageHeader, payload_size_bytes), 4);
  uint64_t need = (uint64_t)sizeof(MessageHeader) + psize;
  // IsValid reads the header, and the whole message only when the size passes its sanity test
  if (!have_header) out += "I=OOB";
  else if (need > MessageHeader::MAX_MESSAGE_SIZE_BYTES) out += IsValid(e.p) ? "I=1" : "I=0";
  else if (need > v.size()) out += "I=OOB";
  else out += IsValid(e.p) ? "I=1" : "I=0";
  if (!have_header || need > v.size()) out += " C1=OOB";
  else out += " C1=" + std::to_string(CalculateCRC(e.p));
  g_frames.clear();
  g_input = &v;
  {
    FusionEngineFramer framer(g_cap);
    framer.WarnOnError(false);
    framer.SetMessageCallback(on_msg, nullptr);
    framer.OnData(e.p, v.size());
  }
  out += " F=";
  if (g_frames.empty()) out += "-";
  for (size_t i = 0; i < g_frames.size(); ++i) out += (i ? ";" : "") + g_frames[i];
  return out;
}

int main() {
  std::string line;
  std::vector<uint8_t> base;
  while (std::getline(std::cin, line)) {
    std::istringstream is(line);
    std::string cmd, h;
    is >> cmd;
    if (cmd == "C") {
      unsigned long init; is >> h >> init;
      auto v = unhex(h); Exact e(v);
      printf("%u\n", CalculateCRC(e.p, v.size(), (uint32_t)init));
    } else if (cmd == "S") {
      size_t k; is >> h >> k;
      auto v = unhex(h); Exact e(v);
      if (k > v.size()) { printf("?\n"); continue; }
      std::vector<uint8_t> a(v.begin(), v.begin() + k), b(v.begin() + k, v.end());
      Exact ea(a), eb(b);
      printf("%u\n", CalculateCRC(eb.p, b.size(), CalculateCRC(ea.p, a.size())));
    } else if (cmd == "L") {
      size_t len; unsigned long init; is >> h >> len >> init;
      auto v = unhex(h); Exact e(v);
      if (len > v.size()) printf("OOB\n"); else printf("%u\n", CalculateCRC(e.p, len, (uint32_t)init));
    } else if (cmd == "FM") {
      is >> g_cap; printf("ok\n");
    } else if (cmd == "B") {
      is >> h; base = unhex(h);
      printf("%s\n", analysis(base).c_str());
    } else if (cmd == "E") {
      size_t off; auto v = base;
      while (is >> off >> h) {
        auto x = unhex(h);
        for (size_t i = 0; i < x.size() && off + i < v.size(); ++i) v[off + i] ^= x[i];
      }
      printf("%s\n", analysis(v).c_str());
    } else {
      printf("?\n");
    }
    fflush(stdout);
  }
  return 0;
}
