// C06 harness: line protocol around crc.{h,cc} and the FusionEngine framer of the working tree.
//   C <hex|-> <init>          CalculateCRC(buf, len, init)
//   S <hex|-> <k>             CalculateCRC(buf + k, len - k, CalculateCRC(buf, k))
//   L <hex|-> <len> <init>    CalculateCRC(buf, len, init), "OOB" when len exceeds the supplied bytes (not called)
//   FM <cap>                  framer capacity for the following lines
//   ST <warn> <cap> <chunking> <hex>  one framer (WarnOnError(warn), capacity cap) fed the stream in chunks (all | bytes |
//                             n1,n2,...), each chunk an exact-size block at a rotating alignment -> <len>#<seq>#<crc>@<off>;...
//   B <hex>                   set the base message, print its analysis
//   E <byteoff> <xorhex> ...  analysis of the base with each xorhex applied at its byteoff
//   analysis: I=<IsValid 1|0|OOB> C1=<CalculateCRC(buffer)|OOB> F=<off:len;...|-> (messages the framer dispatched)
// "OOB" = the call would read beyond the supplied bytes, so the harness does not make it (the model says None).
// CalculateCRC(buf, len, init) is called at every start alignment 0..7 with the buffer (a) ending exactly at the end of
// its heap block (ASan, recover mode, reports any over-read -> "OVERREAD") and (b) followed by non-zero bytes (bytes
// folded in change the value -> "VARIES"); a healthy answer is just the value.  Whole messages (IsValid,
// CalculateCRC(buffer), framer input) are exact-size blocks at the alignments the header struct declares (0 and 4).
#include <cstdint>
#include <cstdio>
#include <cstdlib>
#include <cstring>
#include <iostream>
#include <sstream>
#include <string>
#include <vector>

#include "point_one/fusion_engine/messages/crc.h"
#include "point_one/fusion_engine/messages/defs.h"
#include "point_one/fusion_engine/parsers/fusion_engine_framer.h"

using namespace point_one::fusion_engine::messages;
using point_one::fusion_engine::parsers::FusionEngineFramer;

static std::vector<uint8_t> unhex(const std::string& h0) {
  std::string h = (h0 == "-") ? "" : h0;
  std::vector<uint8_t> out;
  for (size_t i = 0; i + 1 < h.size(); i += 2)
    out.push_back((uint8_t)strtol(h.substr(i, 2).c_str(), nullptr, 16));
  return out;
}

struct Exact {  // exact-size, 4-byte aligned copy
  uint8_t* p;
  explicit Exact(const std::vector<uint8_t>& v) {
    p = (uint8_t*)malloc(v.size() ? v.size() : 1);
    if (!v.empty()) memcpy(p, v.data(), v.size());
  }
  ~Exact() { free(p); }
};


#ifdef USE_ASAN
extern "C" void __asan_set_error_report_callback(void (*)(const char*));
static volatile int asan_hit = 0;
static void asan_cb(const char*) { asan_hit = 1; }
#else
static volatile int asan_hit = 0;
#endif

// CalculateCRC(buf, len, init) with the buffer at every start alignment 0..7, in two placements:
//   exact:   the buffer is the tail of an exact-size heap block (any read past its end is reported by ASan),
//   garbage: the buffer is followed by 8 non-zero bytes inside the same block (bytes folded in change the value).
// All 16 calls must return one value and read nothing beyond the buffer; otherwise the answer is
// "VARIES <first value> a=<alignment> <placement> -> <other value>" and/or "OVERREAD a=<alignment>".
static std::string crc_everywhere(const std::vector<uint8_t>& v, uint32_t init, uint32_t* value_out = nullptr) {
  bool have = false;
  uint32_t first = 0;
  std::string problem;
  for (size_t a = 0; a < 8; ++a) {
    for (int placement = 0; placement < 2; ++placement) {
      size_t tail = placement ? 8 : 0;
      uint8_t* block = (uint8_t*)malloc(a + v.size() + tail + (a + v.size() + tail == 0 ? 1 : 0));
      if (((uintptr_t)block & 7) != 0) { free(block); return "HARNESS-malloc-not-8-aligned"; }
      for (size_t i = 0; i < a; ++i) block[i] = (uint8_t)(0x5A + i);
      if (!v.empty()) memcpy(block + a, v.data(), v.size());
      for (size_t i = 0; i < tail; ++i) block[a + v.size() + i] = (uint8_t)(0xA5 ^ (i * 37 + 1));
      asan_hit = 0;
      uint32_t c = CalculateCRC(block + a, v.size(), init);
      if (asan_hit && problem.find("OVERREAD") == std::string::npos)
        problem += " OVERREAD a=" + std::to_string(a) + (placement ? " garbage" : " exact");
      if (!have) { first = c; have = true; }
      else if (c != first && problem.find("VARIES") == std::string::npos)
        problem += " VARIES a=" + std::to_string(a) + (placement ? " garbage" : " exact") + " -> " + std::to_string(c);
      free(block);
    }
  }
  if (value_out) *value_out = first;
  return std::to_string(first) + problem;
}

static std::vector<std::string> g_frames;
static const std::vector<uint8_t>* g_input = nullptr;
static bool g_stream_format = false;
static size_t g_case = 0;
static size_t g_search_from = 0;
static void on_msg(void*, const MessageHeader& header, const void* payload) {
  size_t n = sizeof(MessageHeader) + header.payload_size_bytes;
  std::vector<uint8_t> raw(n);
  memcpy(raw.data(), &header, sizeof(MessageHeader));
  memcpy(raw.data() + sizeof(MessageHeader), payload, header.payload_size_bytes);
  long off = -1;
  for (size_t o = 0; g_input && o + n <= g_input->size(); ++o)
    if (memcmp(g_input->data() + o, raw.data(), n) == 0) { off = (long)o; break; }
  if (g_stream_format)
    g_frames.push_back(std::to_string(n) + "#" + std::to_string(header.sequence_number) + "#" + std::to_string(header.crc) + "@" + std::to_string(off));
  else
    g_frames.push_back(std::to_string(off) + ":" + std::to_string(n));
}

static size_t g_cap = 131072;

static std::string analysis(const std::vector<uint8_t>& v) {
  std::string out;
  uint32_t psize = 0;
  bool have_header = v.size() >= sizeof(MessageHeader);
  if (have_header) memcpy(&psize, v.data() + offsetof(MessageHeader, payload_size_bytes), 4);
  uint64_t need = (uint64_t)sizeof(MessageHeader) + psize;
  // IsValid reads the header, and the whole message only when the size passes its sanity test; CalculateCRC(buffer)
  // reads the whole message.  Both get exactly the bytes they may read (header only / the message without what
  // follows it) as the tail of an exact-size block, at the two alignments the header struct allows.
  bool too_big = have_header && need > MessageHeader::MAX_MESSAGE_SIZE_BYTES;
  if (!have_header) out += "I=OOB C1=OOB";
  else if (!too_big && need > v.size()) out += "I=OOB C1=OOB";
  else {
    size_t n = too_big ? sizeof(MessageHeader) : (size_t)need;
    std::string iv, c1;
    for (size_t al = 0; al < 8; al += 4) {
      uint8_t* block = (uint8_t*)malloc(al + n);
      memcpy(block + al, v.data(), n);
      asan_hit = 0;
      std::string i = IsValid(block + al) ? "1" : "0";
      if (asan_hit) i = "OVERREAD";
      std::string c = "OOB";
      if (!too_big) { asan_hit = 0; c = std::to_string(CalculateCRC(block + al)); if (asan_hit) c = "OVERREAD"; }
      else if (need <= v.size()) {   // CalculateCRC(buffer) has no size test: give it the whole message
        uint8_t* whole = (uint8_t*)malloc(al + need); memcpy(whole + al, v.data(), need);
        asan_hit = 0; c = std::to_string(CalculateCRC(whole + al)); if (asan_hit) c = "OVERREAD"; free(whole);
      }
      free(block);
      if (al == 0) { iv = i; c1 = c; }
      else { if (i != iv) iv += "/al4:" + i; if (c != c1) c1 += "/al4:" + c; }
    }
    out += "I=" + iv + " C1=" + c1;
  }
  g_frames.clear();
  g_input = &v;
  {
    // framer input is a plain byte buffer: exact-size block, start alignment rotating over 0..7
    size_t al = g_case++ % 8;
    uint8_t* block = (uint8_t*)malloc(al + v.size() + (al + v.size() == 0 ? 1 : 0));
    if (!v.empty()) memcpy(block + al, v.data(), v.size());
    asan_hit = 0;
    FusionEngineFramer framer(g_cap);
    framer.WarnOnError(false);
    framer.SetMessageCallback(on_msg, nullptr);
    framer.OnData(block + al, v.size());
    free(block);
    if (asan_hit) g_frames.push_back("OVERREAD");
  }
  out += " F=";
  if (g_frames.empty()) out += "-";
  for (size_t i = 0; i < g_frames.size(); ++i) out += (i ? ";" : "") + g_frames[i];
  return out;
}

int main() {
#ifdef USE_ASAN
  __asan_set_error_report_callback(asan_cb);
#endif
  std::string line;
  std::vector<uint8_t> base;
  while (std::getline(std::cin, line)) {
    std::istringstream is(line);
    std::string cmd, h;
    is >> cmd;
    if (cmd == "C") {
      unsigned long init; is >> h >> init;
      auto v = unhex(h);
      printf("%s\n", crc_everywhere(v, (uint32_t)init).c_str());
    } else if (cmd == "S") {
      size_t k; is >> h >> k;
      auto v = unhex(h);
      if (k > v.size()) { printf("?\n"); continue; }
      std::vector<uint8_t> a(v.begin(), v.begin() + k), b(v.begin() + k, v.end());
      uint32_t ca = 0;
      std::string ra = crc_everywhere(a, 0, &ca);
      std::string rb = crc_everywhere(b, ca);
      // in place as well: second chunk at its natural address inside the whole buffer, every alignment of the whole
      std::string inplace;
      for (size_t al = 0; al < 8 && inplace.empty(); ++al) {
        uint8_t* block = (uint8_t*)malloc(al + v.size() + 1);
        if (!v.empty()) memcpy(block + al, v.data(), v.size());
        asan_hit = 0;
        uint32_t c = CalculateCRC(block + al + k, v.size() - k, CalculateCRC(block + al, k));
        if (asan_hit) inplace = " OVERREAD in-place a=" + std::to_string(al);
        else if (std::to_string(c) != rb.substr(0, rb.find(' '))) inplace = " VARIES in-place a=" + std::to_string(al) + " -> " + std::to_string(c);
        free(block);
      }
      size_t sp = ra.find(' ');
      printf("%s%s%s\n", rb.c_str(), sp == std::string::npos ? "" : (" first-chunk:" + ra.substr(sp)).c_str(), inplace.c_str());
    } else if (cmd == "L") {
      size_t len; unsigned long init; is >> h >> len >> init;
      auto v = unhex(h);
      if (len > v.size()) printf("OOB\n");
      else { std::vector<uint8_t> pre(v.begin(), v.begin() + len); printf("%s\n", crc_everywhere(pre, (uint32_t)init).c_str()); }
    } else if (cmd == "FM") {
      is >> g_cap; printf("ok\n");
    } else if (cmd == "ST") {
      // ST <warn 0|1> <capacity> <chunking all|bytes|n1,n2,..> <hex>: one framer fed the stream
      int warn; size_t cap; std::string chunking;
      is >> warn >> cap >> chunking >> h;
      auto v = unhex(h);
      std::vector<size_t> sizes;
      if (chunking == "all") sizes.push_back(v.size() ? v.size() : 1);
      else if (chunking == "bytes") sizes.push_back(1);
      else { std::istringstream cs(chunking); std::string t; while (std::getline(cs, t, ',')) sizes.push_back(std::max(1, atoi(t.c_str()))); }
      g_frames.clear(); g_input = &v; g_stream_format = true;
      bool over = false;
      {
        FusionEngineFramer framer(cap);
        framer.WarnOnError(warn != 0);
        framer.SetMessageCallback(on_msg, nullptr);
        size_t i = 0, k = 0;
        while (i < v.size()) {
          size_t n = std::min(sizes[k++ % sizes.size()], v.size() - i);
          size_t al = (g_case++) % 8;
          uint8_t* block = (uint8_t*)malloc(al + n);
          memcpy(block + al, v.data() + i, n);
          asan_hit = 0;
          framer.OnData(block + al, n);
          if (asan_hit) over = true;
          free(block);
          i += n;
        }
      }
      g_stream_format = false;
      std::string out;
      for (size_t i = 0; i < g_frames.size(); ++i) out += (i ? ";" : "") + g_frames[i];
      if (out.empty()) out = "-";
      if (over) out += "!OVERREAD";
      printf("%s\n", out.c_str());
    } else if (cmd == "B") {
      is >> h; base = unhex(h);
      printf("%s\n", analysis(base).c_str());
    } else if (cmd == "E") {
      size_t off; auto v = base;
      while (is >> off >> h) {
        auto x = unhex(h);
        for (size_t i = 0; i < x.size() && off + i < v.size(); ++i) v[off + i] ^= x[i];
      }
      printf("%s\n", analysis(v).c_str());
    } else {
      printf("?\n");
    }
    fflush(stdout);
  }
  return 0;
}
