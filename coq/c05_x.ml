
(** val negb : bool -> bool **)

let negb = function
| true -> false
| false -> true

type nat =
| O
| S of nat

(** val fst : ('a1 * 'a2) -> 'a1 **)

let fst = function
| (x, _) -> x

(** val snd : ('a1 * 'a2) -> 'a2 **)

let snd = function
| (_, y) -> y

(** val length : 'a1 list -> nat **)

let rec length = function
| [] -> O
| _ :: l' -> S (length l')

(** val app : 'a1 list -> 'a1 list -> 'a1 list **)

let rec app l m =
  match l with
  | [] -> m
  | a :: l1 -> a :: (app l1 m)

type comparison =
| Eq
| Lt
| Gt

module Coq__1 = struct
 (** val add : nat -> nat -> nat **)
 let rec add n0 m =
   match n0 with
   | O -> m
   | S p -> S (add p m)
end
include Coq__1

(** val sub : nat -> nat -> nat **)

let rec sub n0 m =
  match n0 with
  | O -> n0
  | S k -> (match m with
            | O -> n0
            | S l -> sub k l)

type positive =
| XI of positive
| XO of positive
| XH

type n =
| N0
| Npos of positive

type z =
| Z0
| Zpos of positive
| Zneg of positive

module Pos =
 struct
  (** val succ : positive -> positive **)

  let rec succ = function
  | XI p -> XO (succ p)
  | XO p -> XI p
  | XH -> XO XH

  (** val add : positive -> positive -> positive **)

  let rec add x y =
    match x with
    | XI p ->
      (match y with
       | XI q -> XO (add_carry p q)
       | XO q -> XI (add p q)
       | XH -> XO (succ p))
    | XO p ->
      (match y with
       | XI q -> XI (add p q)
       | XO q -> XO (add p q)
       | XH -> XI p)
    | XH -> (match y with
             | XI q -> XO (succ q)
             | XO q -> XI q
             | XH -> XO XH)

  (** val add_carry : positive -> positive -> positive **)

  and add_carry x y =
    match x with
    | XI p ->
      (match y with
       | XI q -> XI (add_carry p q)
       | XO q -> XO (add_carry p q)
       | XH -> XI (succ p))
    | XO p ->
      (match y with
       | XI q -> XO (add_carry p q)
       | XO q -> XI (add p q)
       | XH -> XO (succ p))
    | XH ->
      (match y with
       | XI q -> XI (succ q)
       | XO q -> XO (succ q)
       | XH -> XI XH)

  (** val pred_double : positive -> positive **)

  let rec pred_double = function
  | XI p -> XI (XO p)
  | XO p -> XI (pred_double p)
  | XH -> XH

  (** val pred_N : positive -> n **)

  let pred_N = function
  | XI p -> Npos (XO p)
  | XO p -> Npos (pred_double p)
  | XH -> N0

  (** val mul : positive -> positive -> positive **)

  let rec mul x y =
    match x with
    | XI p -> add y (XO (mul p y))
    | XO p -> XO (mul p y)
    | XH -> y

  (** val iter : ('a1 -> 'a1) -> 'a1 -> positive -> 'a1 **)

  let rec iter f x = function
  | XI n' -> f (iter f (iter f x n') n')
  | XO n' -> iter f (iter f x n') n'
  | XH -> f x

  (** val compare_cont : comparison -> positive -> positive -> comparison **)

  let rec compare_cont r x y =
    match x with
    | XI p ->
      (match y with
       | XI q -> compare_cont r p q
       | XO q -> compare_cont Gt p q
       | XH -> Gt)
    | XO p ->
      (match y with
       | XI q -> compare_cont Lt p q
       | XO q -> compare_cont r p q
       | XH -> Gt)
    | XH -> (match y with
             | XH -> r
             | _ -> Lt)

  (** val compare : positive -> positive -> comparison **)

  let compare =
    compare_cont Eq

  (** val eqb : positive -> positive -> bool **)

  let rec eqb p q =
    match p with
    | XI p0 -> (match q with
                | XI q0 -> eqb p0 q0
                | _ -> false)
    | XO p0 -> (match q with
                | XO q0 -> eqb p0 q0
                | _ -> false)
    | XH -> (match q with
             | XH -> true
             | _ -> false)

  (** val coq_Nsucc_double : n -> n **)

  let coq_Nsucc_double = function
  | N0 -> Npos XH
  | Npos p -> Npos (XI p)

  (** val coq_Ndouble : n -> n **)

  let coq_Ndouble = function
  | N0 -> N0
  | Npos p -> Npos (XO p)

  (** val coq_land : positive -> positive -> n **)

  let rec coq_land p q =
    match p with
    | XI p0 ->
      (match q with
       | XI q0 -> coq_Nsucc_double (coq_land p0 q0)
       | XO q0 -> coq_Ndouble (coq_land p0 q0)
       | XH -> Npos XH)
    | XO p0 ->
      (match q with
       | XI q0 -> coq_Ndouble (coq_land p0 q0)
       | XO q0 -> coq_Ndouble (coq_land p0 q0)
       | XH -> N0)
    | XH -> (match q with
             | XO _ -> N0
             | _ -> Npos XH)

  (** val coq_lxor : positive -> positive -> n **)

  let rec coq_lxor p q =
    match p with
    | XI p0 ->
      (match q with
       | XI q0 -> coq_Ndouble (coq_lxor p0 q0)
       | XO q0 -> coq_Nsucc_double (coq_lxor p0 q0)
       | XH -> Npos (XO p0))
    | XO p0 ->
      (match q with
       | XI q0 -> coq_Nsucc_double (coq_lxor p0 q0)
       | XO q0 -> coq_Ndouble (coq_lxor p0 q0)
       | XH -> Npos (XI p0))
    | XH ->
      (match q with
       | XI q0 -> Npos (XO q0)
       | XO q0 -> Npos (XI q0)
       | XH -> N0)

  (** val testbit : positive -> n -> bool **)

  let rec testbit p n0 =
    match p with
    | XI p0 -> (match n0 with
                | N0 -> true
                | Npos n1 -> testbit p0 (pred_N n1))
    | XO p0 -> (match n0 with
                | N0 -> false
                | Npos n1 -> testbit p0 (pred_N n1))
    | XH -> (match n0 with
             | N0 -> true
             | Npos _ -> false)

  (** val iter_op : ('a1 -> 'a1 -> 'a1) -> positive -> 'a1 -> 'a1 **)

  let rec iter_op op p a =
    match p with
    | XI p0 -> op a (iter_op op p0 (op a a))
    | XO p0 -> iter_op op p0 (op a a)
    | XH -> a

  (** val to_nat : positive -> nat **)

  let to_nat x =
    iter_op Coq__1.add x (S O)

  (** val of_succ_nat : nat -> positive **)

  let rec of_succ_nat = function
  | O -> XH
  | S x -> succ (of_succ_nat x)
 end

module N =
 struct
  (** val add : n -> n -> n **)

  let add n0 m =
    match n0 with
    | N0 -> m
    | Npos p -> (match m with
                 | N0 -> n0
                 | Npos q -> Npos (Pos.add p q))

  (** val mul : n -> n -> n **)

  let mul n0 m =
    match n0 with
    | N0 -> N0
    | Npos p -> (match m with
                 | N0 -> N0
                 | Npos q -> Npos (Pos.mul p q))

  (** val compare : n -> n -> comparison **)

  let compare n0 m =
    match n0 with
    | N0 -> (match m with
             | N0 -> Eq
             | Npos _ -> Lt)
    | Npos n' -> (match m with
                  | N0 -> Gt
                  | Npos m' -> Pos.compare n' m')

  (** val eqb : n -> n -> bool **)

  let eqb n0 m =
    match n0 with
    | N0 -> (match m with
             | N0 -> true
             | Npos _ -> false)
    | Npos p -> (match m with
                 | N0 -> false
                 | Npos q -> Pos.eqb p q)

  (** val ltb : n -> n -> bool **)

  let ltb x y =
    match compare x y with
    | Lt -> true
    | _ -> false

  (** val div2 : n -> n **)

  let div2 = function
  | N0 -> N0
  | Npos p0 -> (match p0 with
                | XI p -> Npos p
                | XO p -> Npos p
                | XH -> N0)

  (** val coq_land : n -> n -> n **)

  let coq_land n0 m =
    match n0 with
    | N0 -> N0
    | Npos p -> (match m with
                 | N0 -> N0
                 | Npos q -> Pos.coq_land p q)

  (** val coq_lxor : n -> n -> n **)

  let coq_lxor n0 m =
    match n0 with
    | N0 -> m
    | Npos p -> (match m with
                 | N0 -> n0
                 | Npos q -> Pos.coq_lxor p q)

  (** val shiftr : n -> n -> n **)

  let shiftr a = function
  | N0 -> a
  | Npos p -> Pos.iter div2 a p

  (** val testbit : n -> n -> bool **)

  let testbit a n0 =
    match a with
    | N0 -> false
    | Npos p -> Pos.testbit p n0

  (** val to_nat : n -> nat **)

  let to_nat = function
  | N0 -> O
  | Npos p -> Pos.to_nat p

  (** val of_nat : nat -> n **)

  let of_nat = function
  | O -> N0
  | S n' -> Npos (Pos.of_succ_nat n')
 end

module Z =
 struct
  (** val of_N : n -> z **)

  let of_N = function
  | N0 -> Z0
  | Npos p -> Zpos p
 end

(** val tl : 'a1 list -> 'a1 list **)

let tl = function
| [] -> []
| _ :: m -> m

(** val nth : nat -> 'a1 list -> 'a1 -> 'a1 **)

let rec nth n0 l default =
  match n0 with
  | O -> (match l with
          | [] -> default
          | x :: _ -> x)
  | S m -> (match l with
            | [] -> default
            | _ :: t -> nth m t default)

(** val map : ('a1 -> 'a2) -> 'a1 list -> 'a2 list **)

let rec map f = function
| [] -> []
| a :: t -> (f a) :: (map f t)

(** val fold_left : ('a1 -> 'a2 -> 'a1) -> 'a2 list -> 'a1 -> 'a1 **)

let rec fold_left f l a0 =
  match l with
  | [] -> a0
  | b :: t -> fold_left f t (f a0 b)

(** val firstn : nat -> 'a1 list -> 'a1 list **)

let rec firstn n0 l =
  match n0 with
  | O -> []
  | S n1 -> (match l with
             | [] -> []
             | a :: l0 -> a :: (firstn n1 l0))

(** val skipn : nat -> 'a1 list -> 'a1 list **)

let rec skipn n0 l =
  match n0 with
  | O -> l
  | S n1 -> (match l with
             | [] -> []
             | _ :: l0 -> skipn n1 l0)

(** val seq : nat -> nat -> nat list **)

let rec seq start = function
| O -> []
| S len0 -> start :: (seq (S start) len0)

type verdict =
| Accept of nat
| Reject
| More

type 'b frame = nat * 'b list

type 'b sstate = nat * 'b list

(** val scan_aux :
    ('a1 list -> verdict) -> nat -> nat -> 'a1 list -> 'a1 frame list * 'a1
    sstate **)

let rec scan_aux judge fuel off l =
  match fuel with
  | O -> ([], (off, l))
  | S f ->
    (match judge l with
     | Accept n0 ->
       let (fs, st) = scan_aux judge f (add off n0) (skipn n0 l) in
       (((off, (firstn n0 l)) :: fs), st)
     | Reject -> scan_aux judge f (S off) (tl l)
     | More -> ([], (off, l)))

(** val scan :
    ('a1 list -> verdict) -> nat -> 'a1 list -> 'a1 frame list * 'a1 sstate **)

let scan judge off l =
  scan_aux judge (S (length l)) off l

(** val feed :
    ('a1 list -> verdict) -> 'a1 sstate -> 'a1 list -> 'a1 frame list * 'a1
    sstate **)

let feed judge st chunk =
  scan judge (fst st) (app (snd st) chunk)

(** val crc_poly : n **)

let crc_poly =
  Npos (XO (XO (XO (XO (XO (XI (XO (XO (XI (XI (XO (XO (XO (XO (XO (XI (XO
    (XO (XO (XI (XI (XI (XO (XI (XI (XO (XI (XI (XO (XI (XI
    XH)))))))))))))))))))))))))))))))

(** val crc_xor : n **)

let crc_xor =
  Npos (XI (XI (XI (XI (XI (XI (XI (XI (XI (XI (XI (XI (XI (XI (XI (XI (XI
    (XI (XI (XI (XI (XI (XI (XI (XI (XI (XI (XI (XI (XI (XI
    XH)))))))))))))))))))))))))))))))

(** val sYNC0 : n **)

let sYNC0 =
  Npos (XO (XI (XI (XI (XO XH)))))

(** val sYNC1 : n **)

let sYNC1 =
  Npos (XI (XO (XO (XO (XI XH)))))

(** val hEADER_SIZE : nat **)

let hEADER_SIZE =
  S (S (S (S (S (S (S (S (S (S (S (S (S (S (S (S (S (S (S (S (S (S (S (S
    O)))))))))))))))))))))))

(** val le : n list -> n **)

let rec le = function
| [] -> N0
| b :: t ->
  N.add b (N.mul (Npos (XO (XO (XO (XO (XO (XO (XO (XO XH))))))))) (le t))

(** val sub0 : n list -> nat -> nat -> n list **)

let sub0 l a n0 =
  firstn n0 (skipn a l)

(** val step_bit : n -> n **)

let step_bit c =
  if N.testbit c N0
  then N.coq_lxor crc_poly (N.shiftr c (Npos XH))
  else N.shiftr c (Npos XH)

(** val step8 : n -> n **)

let step8 c =
  step_bit
    (step_bit
      (step_bit (step_bit (step_bit (step_bit (step_bit (step_bit c)))))))

(** val range256 : n list **)

let range256 =
  map N.of_nat
    (seq O (S (S (S (S (S (S (S (S (S (S (S (S (S (S (S (S (S (S (S (S (S (S
      (S (S (S (S (S (S (S (S (S (S (S (S (S (S (S (S (S (S (S (S (S (S (S (S
      (S (S (S (S (S (S (S (S (S (S (S (S (S (S (S (S (S (S (S (S (S (S (S (S
      (S (S (S (S (S (S (S (S (S (S (S (S (S (S (S (S (S (S (S (S (S (S (S (S
      (S (S (S (S (S (S (S (S (S (S (S (S (S (S (S (S (S (S (S (S (S (S (S (S
      (S (S (S (S (S (S (S (S (S (S (S (S (S (S (S (S (S (S (S (S (S (S (S (S
      (S (S (S (S (S (S (S (S (S (S (S (S (S (S (S (S (S (S (S (S (S (S (S (S
      (S (S (S (S (S (S (S (S (S (S (S (S (S (S (S (S (S (S (S (S (S (S (S (S
      (S (S (S (S (S (S (S (S (S (S (S (S (S (S (S (S (S (S (S (S (S (S (S (S
      (S (S (S (S (S (S (S (S (S (S (S (S (S (S (S (S (S (S (S (S (S (S (S (S
      (S (S (S (S (S (S (S (S (S (S (S (S (S (S (S (S (S (S
      O)))))))))))))))))))))))))))))))))))))))))))))))))))))))))))))))))))))))))))))))))))))))))))))))))))))))))))))))))))))))))))))))))))))))))))))))))))))))))))))))))))))))))))))))))))))))))))))))))))))))))))))))))))))))))))))))))))))))))))))))))))))))))))))))))

(** val crc_table : n list **)

let crc_table =
  map step8 range256

(** val table_lookup : n -> n **)

let table_lookup i =
  nth (N.to_nat i) crc_table N0

(** val upd_table : n -> n -> n **)

let upd_table c b =
  N.coq_lxor
    (table_lookup
      (N.coq_land (N.coq_lxor c b) (Npos (XI (XI (XI (XI (XI (XI (XI
        XH)))))))))) (N.shiftr c (Npos (XO (XO (XO XH)))))

(** val crc_fold : (n -> n -> n) -> n -> n list -> n **)

let crc_fold upd c l =
  fold_left upd l c

(** val crc32_from_with : (n -> n -> n) -> n -> n list -> n **)

let crc32_from_with upd init l =
  N.coq_lxor (crc_fold upd (N.coq_lxor init crc_xor) l) crc_xor

(** val crc32_from : n -> n list -> n **)

let crc32_from =
  crc32_from_with upd_table

(** val crc32 : n list -> n **)

let crc32 l =
  crc32_from N0 l

type header = { h_sync0 : n; h_sync1 : n; h_reserved : n; h_crc : n;
                h_proto : n; h_msgver : n; h_type : n; h_seq : n;
                h_psize : n; h_source : n }

(** val parse_header : n list -> header **)

let parse_header l =
  { h_sync0 = (le (sub0 l O (S O))); h_sync1 = (le (sub0 l (S O) (S O)));
    h_reserved = (le (sub0 l (S (S O)) (S (S O)))); h_crc =
    (le (sub0 l (S (S (S (S O)))) (S (S (S (S O)))))); h_proto =
    (le (sub0 l (S (S (S (S (S (S (S (S O)))))))) (S O))); h_msgver =
    (le (sub0 l (S (S (S (S (S (S (S (S (S O))))))))) (S O))); h_type =
    (le (sub0 l (S (S (S (S (S (S (S (S (S (S O)))))))))) (S (S O))));
    h_seq =
    (le
      (sub0 l (S (S (S (S (S (S (S (S (S (S (S (S O)))))))))))) (S (S (S (S
        O)))))); h_psize =
    (le
      (sub0 l (S (S (S (S (S (S (S (S (S (S (S (S (S (S (S (S
        O)))))))))))))))) (S (S (S (S O)))))); h_source =
    (le
      (sub0 l (S (S (S (S (S (S (S (S (S (S (S (S (S (S (S (S (S (S (S (S
        O)))))))))))))))))))) (S (S (S (S O)))))) }

(** val crc_region : n list -> nat -> n list **)

let crc_region l n0 =
  sub0 l (S (S (S (S (S (S (S (S O))))))))
    (sub n0 (S (S (S (S (S (S (S (S O)))))))))

(** val pyDecoder_shorter : n list -> nat -> bool **)

let rec pyDecoder_shorter l = function
| O -> false
| S k -> (match l with
          | [] -> true
          | _ :: t -> pyDecoder_shorter t k)

(** val pyDecoder_judge : n -> n -> n list -> verdict **)

let pyDecoder_judge maxp maxe l =
  if pyDecoder_shorter l hEADER_SIZE
  then More
  else let h = parse_header (firstn hEADER_SIZE l) in
       if negb ((&&) (N.eqb h.h_sync0 sYNC0) (N.eqb h.h_sync1 sYNC1))
       then Reject
       else if negb (N.eqb h.h_reserved N0)
            then Reject
            else if N.ltb maxp h.h_psize
                 then Reject
                 else if N.ltb (N.of_nat (length l))
                           (N.add (N.of_nat hEADER_SIZE) h.h_psize)
                      then More
                      else if N.ltb maxe h.h_psize
                           then Reject
                           else let n0 = add hEADER_SIZE (N.to_nat h.h_psize)
                                in
                                if N.eqb (crc32 (crc_region l n0)) h.h_crc
                                then Accept n0
                                else Reject

(** val pyDecoder_judge_dec :
    (n -> n list -> 'a1 option) -> n -> n -> n list -> verdict **)

let pyDecoder_judge_dec parse_payload maxp maxe l =
  match pyDecoder_judge maxp maxe l with
  | Accept n0 ->
    (match parse_payload (parse_header (firstn hEADER_SIZE l)).h_type
             (sub0 l hEADER_SIZE (sub n0 hEADER_SIZE)) with
     | Some _ -> Accept n0
     | None -> Reject)
  | x -> x

type pyDecoder_state = { pd_buf : n list; pd_hdr : header option;
                         pd_msg_len : n; pd_processed : n;
                         pd_last_seq : n option }

(** val pyDecoder_init : pyDecoder_state **)

let pyDecoder_init =
  { pd_buf = []; pd_hdr = None; pd_msg_len = N0; pd_processed = N0;
    pd_last_seq = None }

type 'p pyDecoder_result = { pr_hdr : header; pr_payload : 'p;
                             pr_bytes : n list option; pr_off : n option }

(** val pyDecoder_pop :
    pyDecoder_state -> header option -> n -> pyDecoder_state **)

let pyDecoder_pop st h ml =
  { pd_buf = (tl st.pd_buf); pd_hdr = h; pd_msg_len = ml; pd_processed =
    (N.add st.pd_processed (Npos XH)); pd_last_seq = st.pd_last_seq }

(** val pyDecoder_validate_crc : n -> header -> n list -> bool **)

let pyDecoder_validate_crc maxe h b =
  if N.ltb maxe h.h_psize
  then false
  else if N.ltb (N.of_nat (length b)) (N.add (N.of_nat hEADER_SIZE) h.h_psize)
       then false
       else N.eqb
              (crc32
                (sub0 b (S (S (S (S (S (S (S (S O))))))))
                  (sub (add hEADER_SIZE (N.to_nat h.h_psize)) (S (S (S (S (S
                    (S (S (S O))))))))))) h.h_crc

type 'p pyDecoder_step_res =
| PdBreak of pyDecoder_state
| PdContinue of pyDecoder_state
| PdEmit of 'p pyDecoder_result * pyDecoder_state
| PdRaise

(** val pyDecoder_complete :
    (n -> n list -> 'a1 option) -> n -> bool -> bool -> bool ->
    pyDecoder_state -> header -> 'a1 pyDecoder_step_res **)

let pyDecoder_complete parse_payload maxe rb ro legacy st h =
  if N.ltb (N.of_nat (length st.pd_buf)) st.pd_msg_len
  then PdBreak st
  else if negb (pyDecoder_validate_crc maxe h st.pd_buf)
       then PdContinue (pyDecoder_pop st None N0)
       else let st2 = { pd_buf = st.pd_buf; pd_hdr = st.pd_hdr; pd_msg_len =
              st.pd_msg_len; pd_processed = st.pd_processed; pd_last_seq =
              (Some h.h_seq) }
            in
            let n0 = N.to_nat st2.pd_msg_len in
            let handed =
              if legacy
              then skipn hEADER_SIZE st2.pd_buf
              else sub0 st2.pd_buf hEADER_SIZE (sub n0 hEADER_SIZE)
            in
            (match parse_payload h.h_type handed with
             | Some c ->
               PdEmit ({ pr_hdr = h; pr_payload = c; pr_bytes =
                 (if rb then Some (firstn n0 st2.pd_buf) else None); pr_off =
                 (if ro then Some st2.pd_processed else None) }, { pd_buf =
                 (skipn n0 st2.pd_buf); pd_hdr = None; pd_msg_len = N0;
                 pd_processed = (N.add st2.pd_processed st2.pd_msg_len);
                 pd_last_seq = st2.pd_last_seq })
             | None -> PdContinue (pyDecoder_pop st2 None N0))

(** val pyDecoder_step :
    (n -> n list -> 'a1 option) -> n -> n -> bool -> bool -> bool ->
    pyDecoder_state -> 'a1 pyDecoder_step_res **)

let pyDecoder_step parse_payload maxp maxe rb ro legacy st =
  if pyDecoder_shorter st.pd_buf hEADER_SIZE
  then PdBreak st
  else (match st.pd_hdr with
        | Some h -> pyDecoder_complete parse_payload maxe rb ro legacy st h
        | None ->
          (match st.pd_buf with
           | [] -> PdRaise
           | b0 :: l ->
             (match l with
              | [] -> PdRaise
              | b1 :: _ ->
                if negb (N.eqb b0 sYNC0)
                then PdContinue (pyDecoder_pop st None st.pd_msg_len)
                else if negb (N.eqb b1 sYNC1)
                     then PdContinue (pyDecoder_pop st None st.pd_msg_len)
                     else let h = parse_header (firstn hEADER_SIZE st.pd_buf)
                          in
                          let st1 = { pd_buf = st.pd_buf; pd_hdr = (Some h);
                            pd_msg_len =
                            (N.add h.h_psize (N.of_nat hEADER_SIZE));
                            pd_processed = st.pd_processed; pd_last_seq =
                            st.pd_last_seq }
                          in
                          let drop_candidate =
                            if negb (N.eqb h.h_reserved N0)
                            then true
                            else N.ltb maxp h.h_psize
                          in
                          if drop_candidate
                          then PdContinue
                                 (pyDecoder_pop st1 None st1.pd_msg_len)
                          else pyDecoder_complete parse_payload maxe rb ro
                                 legacy st1 h)))

type 'p pyDecoder_outcome =
| PdDone of 'p pyDecoder_result list * pyDecoder_state
| PdRaised
| PdOutOfFuel

(** val pyDecoder_loop :
    (n -> n list -> 'a1 option) -> n -> n -> bool -> bool -> bool -> nat ->
    pyDecoder_state -> 'a1 pyDecoder_outcome **)

let rec pyDecoder_loop parse_payload maxp maxe rb ro legacy fuel st =
  match fuel with
  | O -> PdOutOfFuel
  | S f ->
    (match st.pd_buf with
     | [] -> PdDone ([], st)
     | _ :: _ ->
       (match pyDecoder_step parse_payload maxp maxe rb ro legacy st with
        | PdBreak st' -> PdDone ([], st')
        | PdContinue st' ->
          pyDecoder_loop parse_payload maxp maxe rb ro legacy f st'
        | PdEmit (r, st') ->
          (match pyDecoder_loop parse_payload maxp maxe rb ro legacy f st' with
           | PdDone (rs, st'') -> PdDone ((r :: rs), st'')
           | x -> x)
        | PdRaise -> PdRaised))

(** val pyDecoder_on_data :
    (n -> n list -> 'a1 option) -> n -> n -> bool -> bool -> bool ->
    pyDecoder_state -> n list -> 'a1 pyDecoder_outcome **)

let pyDecoder_on_data parse_payload maxp maxe rb ro legacy st data = match data with
| [] -> PdDone ([], st)
| _ :: _ ->
  let st1 = { pd_buf = (app st.pd_buf data); pd_hdr = st.pd_hdr; pd_msg_len =
    st.pd_msg_len; pd_processed = st.pd_processed; pd_last_seq =
    st.pd_last_seq }
  in
  pyDecoder_loop parse_payload maxp maxe rb ro legacy (S (length st1.pd_buf))
    st1
