
(** val negb : bool -> bool **)

let negb = function
| true -> false
| false -> true

type nat =
| O
| S of nat

(** val fst : ('a1 * 'a2) -> 'a1 **)

let fst = function
| (x, _) -> x

(** val snd : ('a1 * 'a2) -> 'a2 **)

let snd = function
| (_, y) -> y

(** val length : 'a1 list -> nat **)

let rec length = function
| [] -> O
| _ :: l' -> S (length l')

(** val app : 'a1 list -> 'a1 list -> 'a1 list **)

let rec app l m =
  match l with
  | [] -> m
  | a :: l1 -> a :: (app l1 m)

type comparison =
| Eq
| Lt
| Gt

module Coq__1 = struct
 (** val add : nat -> nat -> nat **)
 let rec add n0 m =
   match n0 with
   | O -> m
   | S p -> S (add p m)
end
include Coq__1

(** val sub : nat -> nat -> nat **)

let rec sub n0 m =
  match n0 with
  | O -> n0
  | S k -> (match m with
            | O -> n0
            | S l -> sub k l)

type positive =
| XI of positive
| XO of positive
| XH

type n =
| N0
| Npos of positive

type z =
| Z0
| Zpos of positive
| Zneg of positive

module Nat =
 struct
  (** val eqb : nat -> nat -> bool **)

  let rec eqb n0 m =
    match n0 with
    | O -> (match m with
            | O -> true
            | S _ -> false)
    | S n' -> (match m with
               | O -> false
               | S m' -> eqb n' m')

  (** val leb : nat -> nat -> bool **)

  let rec leb n0 m =
    match n0 with
    | O -> true
    | S n' -> (match m with
               | O -> false
               | S m' -> leb n' m')

  (** val ltb : nat -> nat -> bool **)

  let ltb n0 m =
    leb (S n0) m

  (** val divmod : nat -> nat -> nat -> nat -> nat * nat **)

  let rec divmod x y q u =
    match x with
    | O -> (q, u)
    | S x' ->
      (match u with
       | O -> divmod x' y (S q) y
       | S u' -> divmod x' y q u')

  (** val div : nat -> nat -> nat **)

  let div x y = match y with
  | O -> y
  | S y' -> fst (divmod x y' O y')
 end

module Pos =
 struct
  type mask =
  | IsNul
  | IsPos of positive
  | IsNeg
 end

module Coq_Pos =
 struct
  (** val succ : positive -> positive **)

  let rec succ = function
  | XI p -> XO (succ p)
  | XO p -> XI p
  | XH -> XO XH

  (** val add : positive -> positive -> positive **)

  let rec add x y =
    match x with
    | XI p ->
      (match y with
       | XI q -> XO (add_carry p q)
       | XO q -> XI (add p q)
       | XH -> XO (succ p))
    | XO p ->
      (match y with
       | XI q -> XI (add p q)
       | XO q -> XO (add p q)
       | XH -> XI p)
    | XH -> (match y with
             | XI q -> XO (succ q)
             | XO q -> XI q
             | XH -> XO XH)

  (** val add_carry : positive -> positive -> positive **)

  and add_carry x y =
    match x with
    | XI p ->
      (match y with
       | XI q -> XI (add_carry p q)
       | XO q -> XO (add_carry p q)
       | XH -> XI (succ p))
    | XO p ->
      (match y with
       | XI q -> XO (add_carry p q)
       | XO q -> XI (add p q)
       | XH -> XO (succ p))
    | XH ->
      (match y with
       | XI q -> XI (succ q)
       | XO q -> XO (succ q)
       | XH -> XI XH)

  (** val pred_double : positive -> positive **)

  let rec pred_double = function
  | XI p -> XI (XO p)
  | XO p -> XI (pred_double p)
  | XH -> XH

  (** val pred_N : positive -> n **)

  let pred_N = function
  | XI p -> Npos (XO p)
  | XO p -> Npos (pred_double p)
  | XH -> N0

  type mask = Pos.mask =
  | IsNul
  | IsPos of positive
  | IsNeg

  (** val succ_double_mask : mask -> mask **)

  let succ_double_mask = function
  | IsNul -> IsPos XH
  | IsPos p -> IsPos (XI p)
  | IsNeg -> IsNeg

  (** val double_mask : mask -> mask **)

  let double_mask = function
  | IsPos p -> IsPos (XO p)
  | x0 -> x0

  (** val double_pred_mask : positive -> mask **)

  let double_pred_mask = function
  | XI p -> IsPos (XO (XO p))
  | XO p -> IsPos (XO (pred_double p))
  | XH -> IsNul

  (** val sub_mask : positive -> positive -> mask **)

  let rec sub_mask x y =
    match x with
    | XI p ->
      (match y with
       | XI q -> double_mask (sub_mask p q)
       | XO q -> succ_double_mask (sub_mask p q)
       | XH -> IsPos (XO p))
    | XO p ->
      (match y with
       | XI q -> succ_double_mask (sub_mask_carry p q)
       | XO q -> double_mask (sub_mask p q)
       | XH -> IsPos (pred_double p))
    | XH -> (match y with
             | XH -> IsNul
             | _ -> IsNeg)

  (** val sub_mask_carry : positive -> positive -> mask **)

  and sub_mask_carry x y =
    match x with
    | XI p ->
      (match y with
       | XI q -> succ_double_mask (sub_mask_carry p q)
       | XO q -> double_mask (sub_mask p q)
       | XH -> IsPos (pred_double p))
    | XO p ->
      (match y with
       | XI q -> double_mask (sub_mask_carry p q)
       | XO q -> succ_double_mask (sub_mask_carry p q)
       | XH -> double_pred_mask p)
    | XH -> IsNeg

  (** val mul : positive -> positive -> positive **)

  let rec mul x y =
    match x with
    | XI p -> add y (XO (mul p y))
    | XO p -> XO (mul p y)
    | XH -> y

  (** val iter : ('a1 -> 'a1) -> 'a1 -> positive -> 'a1 **)

  let rec iter f x = function
  | XI n' -> f (iter f (iter f x n') n')
  | XO n' -> iter f (iter f x n') n'
  | XH -> f x

  (** val pow : positive -> positive -> positive **)

  let pow x =
    iter (mul x) XH

  (** val compare_cont : comparison -> positive -> positive -> comparison **)

  let rec compare_cont r x y =
    match x with
    | XI p ->
      (match y with
       | XI q -> compare_cont r p q
       | XO q -> compare_cont Gt p q
       | XH -> Gt)
    | XO p ->
      (match y with
       | XI q -> compare_cont Lt p q
       | XO q -> compare_cont r p q
       | XH -> Gt)
    | XH -> (match y with
             | XH -> r
             | _ -> Lt)

  (** val compare : positive -> positive -> comparison **)

  let compare =
    compare_cont Eq

  (** val eqb : positive -> positive -> bool **)

  let rec eqb p q =
    match p with
    | XI p0 -> (match q with
                | XI q0 -> eqb p0 q0
                | _ -> false)
    | XO p0 -> (match q with
                | XO q0 -> eqb p0 q0
                | _ -> false)
    | XH -> (match q with
             | XH -> true
             | _ -> false)

  (** val coq_Nsucc_double : n -> n **)

  let coq_Nsucc_double = function
  | N0 -> Npos XH
  | Npos p -> Npos (XI p)

  (** val coq_Ndouble : n -> n **)

  let coq_Ndouble = function
  | N0 -> N0
  | Npos p -> Npos (XO p)

  (** val coq_land : positive -> positive -> n **)

  let rec coq_land p q =
    match p with
    | XI p0 ->
      (match q with
       | XI q0 -> coq_Nsucc_double (coq_land p0 q0)
       | XO q0 -> coq_Ndouble (coq_land p0 q0)
       | XH -> Npos XH)
    | XO p0 ->
      (match q with
       | XI q0 -> coq_Ndouble (coq_land p0 q0)
       | XO q0 -> coq_Ndouble (coq_land p0 q0)
       | XH -> N0)
    | XH -> (match q with
             | XO _ -> N0
             | _ -> Npos XH)

  (** val coq_lxor : positive -> positive -> n **)

  let rec coq_lxor p q =
    match p with
    | XI p0 ->
      (match q with
       | XI q0 -> coq_Ndouble (coq_lxor p0 q0)
       | XO q0 -> coq_Nsucc_double (coq_lxor p0 q0)
       | XH -> Npos (XO p0))
    | XO p0 ->
      (match q with
       | XI q0 -> coq_Nsucc_double (coq_lxor p0 q0)
       | XO q0 -> coq_Ndouble (coq_lxor p0 q0)
       | XH -> Npos (XI p0))
    | XH ->
      (match q with
       | XI q0 -> Npos (XO q0)
       | XO q0 -> Npos (XI q0)
       | XH -> N0)

  (** val testbit : positive -> n -> bool **)

  let rec testbit p n0 =
    match p with
    | XI p0 -> (match n0 with
                | N0 -> true
                | Npos n1 -> testbit p0 (pred_N n1))
    | XO p0 -> (match n0 with
                | N0 -> false
                | Npos n1 -> testbit p0 (pred_N n1))
    | XH -> (match n0 with
             | N0 -> true
             | Npos _ -> false)

  (** val iter_op : ('a1 -> 'a1 -> 'a1) -> positive -> 'a1 -> 'a1 **)

  let rec iter_op op p a =
    match p with
    | XI p0 -> op a (iter_op op p0 (op a a))
    | XO p0 -> iter_op op p0 (op a a)
    | XH -> a

  (** val to_nat : positive -> nat **)

  let to_nat x =
    iter_op Coq__1.add x (S O)

  (** val of_succ_nat : nat -> positive **)

  let rec of_succ_nat = function
  | O -> XH
  | S x -> succ (of_succ_nat x)
 end

module N =
 struct
  (** val succ_double : n -> n **)

  let succ_double = function
  | N0 -> Npos XH
  | Npos p -> Npos (XI p)

  (** val double : n -> n **)

  let double = function
  | N0 -> N0
  | Npos p -> Npos (XO p)

  (** val add : n -> n -> n **)

  let add n0 m =
    match n0 with
    | N0 -> m
    | Npos p -> (match m with
                 | N0 -> n0
                 | Npos q -> Npos (Coq_Pos.add p q))

  (** val sub : n -> n -> n **)

  let sub n0 m =
    match n0 with
    | N0 -> N0
    | Npos n' ->
      (match m with
       | N0 -> n0
       | Npos m' ->
         (match Coq_Pos.sub_mask n' m' with
          | Coq_Pos.IsPos p -> Npos p
          | _ -> N0))

  (** val mul : n -> n -> n **)

  let mul n0 m =
    match n0 with
    | N0 -> N0
    | Npos p -> (match m with
                 | N0 -> N0
                 | Npos q -> Npos (Coq_Pos.mul p q))

  (** val compare : n -> n -> comparison **)

  let compare n0 m =
    match n0 with
    | N0 -> (match m with
             | N0 -> Eq
             | Npos _ -> Lt)
    | Npos n' -> (match m with
                  | N0 -> Gt
                  | Npos m' -> Coq_Pos.compare n' m')

  (** val eqb : n -> n -> bool **)

  let eqb n0 m =
    match n0 with
    | N0 -> (match m with
             | N0 -> true
             | Npos _ -> false)
    | Npos p -> (match m with
                 | N0 -> false
                 | Npos q -> Coq_Pos.eqb p q)

  (** val leb : n -> n -> bool **)

  let leb x y =
    match compare x y with
    | Gt -> false
    | _ -> true

  (** val ltb : n -> n -> bool **)

  let ltb x y =
    match compare x y with
    | Lt -> true
    | _ -> false

  (** val div2 : n -> n **)

  let div2 = function
  | N0 -> N0
  | Npos p0 -> (match p0 with
                | XI p -> Npos p
                | XO p -> Npos p
                | XH -> N0)

  (** val pow : n -> n -> n **)

  let pow n0 = function
  | N0 -> Npos XH
  | Npos p0 -> (match n0 with
                | N0 -> N0
                | Npos q -> Npos (Coq_Pos.pow q p0))

  (** val pos_div_eucl : positive -> n -> n * n **)

  let rec pos_div_eucl a b =
    match a with
    | XI a' ->
      let (q, r) = pos_div_eucl a' b in
      let r' = succ_double r in
      if leb b r' then ((succ_double q), (sub r' b)) else ((double q), r')
    | XO a' ->
      let (q, r) = pos_div_eucl a' b in
      let r' = double r in
      if leb b r' then ((succ_double q), (sub r' b)) else ((double q), r')
    | XH ->
      (match b with
       | N0 -> (N0, (Npos XH))
       | Npos p -> (match p with
                    | XH -> ((Npos XH), N0)
                    | _ -> (N0, (Npos XH))))

  (** val div_eucl : n -> n -> n * n **)

  let div_eucl a b =
    match a with
    | N0 -> (N0, N0)
    | Npos na -> (match b with
                  | N0 -> (N0, a)
                  | Npos _ -> pos_div_eucl na b)

  (** val div : n -> n -> n **)

  let div a b =
    fst (div_eucl a b)

  (** val modulo : n -> n -> n **)

  let modulo a b =
    snd (div_eucl a b)

  (** val coq_land : n -> n -> n **)

  let coq_land n0 m =
    match n0 with
    | N0 -> N0
    | Npos p -> (match m with
                 | N0 -> N0
                 | Npos q -> Coq_Pos.coq_land p q)

  (** val coq_lxor : n -> n -> n **)

  let coq_lxor n0 m =
    match n0 with
    | N0 -> m
    | Npos p -> (match m with
                 | N0 -> n0
                 | Npos q -> Coq_Pos.coq_lxor p q)

  (** val shiftr : n -> n -> n **)

  let shiftr a = function
  | N0 -> a
  | Npos p -> Coq_Pos.iter div2 a p

  (** val testbit : n -> n -> bool **)

  let testbit a n0 =
    match a with
    | N0 -> false
    | Npos p -> Coq_Pos.testbit p n0

  (** val to_nat : n -> nat **)

  let to_nat = function
  | N0 -> O
  | Npos p -> Coq_Pos.to_nat p

  (** val of_nat : nat -> n **)

  let of_nat = function
  | O -> N0
  | S n' -> Npos (Coq_Pos.of_succ_nat n')
 end

module Z =
 struct
  (** val of_N : n -> z **)

  let of_N = function
  | N0 -> Z0
  | Npos p -> Zpos p
 end

(** val tl : 'a1 list -> 'a1 list **)

let tl = function
| [] -> []
| _ :: m -> m

(** val nth : nat -> 'a1 list -> 'a1 -> 'a1 **)

let rec nth n0 l default =
  match n0 with
  | O -> (match l with
          | [] -> default
          | x :: _ -> x)
  | S m -> (match l with
            | [] -> default
            | _ :: t -> nth m t default)

(** val concat : 'a1 list list -> 'a1 list **)

let rec concat = function
| [] -> []
| x :: l0 -> app x (concat l0)

(** val map : ('a1 -> 'a2) -> 'a1 list -> 'a2 list **)

let rec map f = function
| [] -> []
| a :: t -> (f a) :: (map f t)

(** val fold_left : ('a1 -> 'a2 -> 'a1) -> 'a2 list -> 'a1 -> 'a1 **)

let rec fold_left f l a0 =
  match l with
  | [] -> a0
  | b :: t -> fold_left f t (f a0 b)

(** val firstn : nat -> 'a1 list -> 'a1 list **)

let rec firstn n0 l =
  match n0 with
  | O -> []
  | S n1 -> (match l with
             | [] -> []
             | a :: l0 -> a :: (firstn n1 l0))

(** val skipn : nat -> 'a1 list -> 'a1 list **)

let rec skipn n0 l =
  match n0 with
  | O -> l
  | S n1 -> (match l with
             | [] -> []
             | _ :: l0 -> skipn n1 l0)

(** val seq : nat -> nat -> nat list **)

let rec seq start = function
| O -> []
| S len0 -> start :: (seq (S start) len0)

(** val crc_poly : n **)

let crc_poly =
  Npos (XO (XO (XO (XO (XO (XI (XO (XO (XI (XI (XO (XO (XO (XO (XO (XI (XO
    (XO (XO (XI (XI (XI (XO (XI (XI (XO (XI (XI (XO (XI (XI
    XH)))))))))))))))))))))))))))))))

(** val crc_xor : n **)

let crc_xor =
  Npos (XI (XI (XI (XI (XI (XI (XI (XI (XI (XI (XI (XI (XI (XI (XI (XI (XI
    (XI (XI (XI (XI (XI (XI (XI (XI (XI (XI (XI (XI (XI (XI
    XH)))))))))))))))))))))))))))))))

(** val sYNC0 : n **)

let sYNC0 =
  Npos (XO (XI (XI (XI (XO XH)))))

(** val sYNC1 : n **)

let sYNC1 =
  Npos (XI (XO (XO (XO (XI XH)))))

(** val mAX_EXPECTED_SIZE_BYTES : n **)

let mAX_EXPECTED_SIZE_BYTES =
  Npos (XO (XO (XO (XO (XO (XO (XO (XO (XO (XO (XO (XO (XO (XO (XO (XO (XO
    (XO (XO (XO (XO (XO (XO (XO XH))))))))))))))))))))))))

(** val hEADER_SIZE : nat **)

let hEADER_SIZE =
  S (S (S (S (S (S (S (S (S (S (S (S (S (S (S (S (S (S (S (S (S (S (S (S
    O)))))))))))))))))))))))

(** val tIME_INVALID : n **)

let tIME_INVALID =
  Npos (XI (XI (XI (XI (XI (XI (XI (XI (XI (XI (XI (XI (XI (XI (XI (XI (XI
    (XI (XI (XI (XI (XI (XI (XI (XI (XI (XI (XI (XI (XI (XI
    XH)))))))))))))))))))))))))))))))

(** val tYPE_INVALID : n **)

let tYPE_INVALID =
  N0

(** val rEC_TIME_BYTES : nat **)

let rEC_TIME_BYTES =
  S (S (S (S O)))

(** val rEC_TYPE_BYTES : nat **)

let rEC_TYPE_BYTES =
  S (S O)

(** val rEC_OFF_BYTES : nat **)

let rEC_OFF_BYTES =
  S (S (S (S (S (S (S (S O)))))))

(** val le : n list -> n **)

let rec le = function
| [] -> N0
| b :: t ->
  N.add b (N.mul (Npos (XO (XO (XO (XO (XO (XO (XO (XO XH))))))))) (le t))

(** val le_enc : nat -> n -> n list **)

let rec le_enc n0 v =
  match n0 with
  | O -> []
  | S k ->
    (N.modulo v (Npos (XO (XO (XO (XO (XO (XO (XO (XO XH)))))))))) :: 
      (le_enc k (N.div v (Npos (XO (XO (XO (XO (XO (XO (XO (XO XH)))))))))))

(** val sub0 : n list -> nat -> nat -> n list **)

let sub0 l a n0 =
  firstn n0 (skipn a l)

(** val step_bit : n -> n **)

let step_bit c =
  if N.testbit c N0
  then N.coq_lxor crc_poly (N.shiftr c (Npos XH))
  else N.shiftr c (Npos XH)

(** val step8 : n -> n **)

let step8 c =
  step_bit
    (step_bit
      (step_bit (step_bit (step_bit (step_bit (step_bit (step_bit c)))))))

(** val range256 : n list **)

let range256 =
  map N.of_nat
    (seq O (S (S (S (S (S (S (S (S (S (S (S (S (S (S (S (S (S (S (S (S (S (S
      (S (S (S (S (S (S (S (S (S (S (S (S (S (S (S (S (S (S (S (S (S (S (S (S
      (S (S (S (S (S (S (S (S (S (S (S (S (S (S (S (S (S (S (S (S (S (S (S (S
      (S (S (S (S (S (S (S (S (S (S (S (S (S (S (S (S (S (S (S (S (S (S (S (S
      (S (S (S (S (S (S (S (S (S (S (S (S (S (S (S (S (S (S (S (S (S (S (S (S
      (S (S (S (S (S (S (S (S (S (S (S (S (S (S (S (S (S (S (S (S (S (S (S (S
      (S (S (S (S (S (S (S (S (S (S (S (S (S (S (S (S (S (S (S (S (S (S (S (S
      (S (S (S (S (S (S (S (S (S (S (S (S (S (S (S (S (S (S (S (S (S (S (S (S
      (S (S (S (S (S (S (S (S (S (S (S (S (S (S (S (S (S (S (S (S (S (S (S (S
      (S (S (S (S (S (S (S (S (S (S (S (S (S (S (S (S (S (S (S (S (S (S (S (S
      (S (S (S (S (S (S (S (S (S (S (S (S (S (S (S (S (S (S
      O)))))))))))))))))))))))))))))))))))))))))))))))))))))))))))))))))))))))))))))))))))))))))))))))))))))))))))))))))))))))))))))))))))))))))))))))))))))))))))))))))))))))))))))))))))))))))))))))))))))))))))))))))))))))))))))))))))))))))))))))))))))))))))))))))

(** val crc_table : n list **)

let crc_table =
  map step8 range256

(** val table_lookup : n -> n **)

let table_lookup i =
  nth (N.to_nat i) crc_table N0

(** val upd_table : n -> n -> n **)

let upd_table c b =
  N.coq_lxor
    (table_lookup
      (N.coq_land (N.coq_lxor c b) (Npos (XI (XI (XI (XI (XI (XI (XI
        XH)))))))))) (N.shiftr c (Npos (XO (XO (XO XH)))))

(** val crc_fold : (n -> n -> n) -> n -> n list -> n **)

let crc_fold upd c l =
  fold_left upd l c

(** val crc32_from_with : (n -> n -> n) -> n -> n list -> n **)

let crc32_from_with upd init l =
  N.coq_lxor (crc_fold upd (N.coq_lxor init crc_xor) l) crc_xor

(** val crc32_from : n -> n list -> n **)

let crc32_from =
  crc32_from_with upd_table

(** val crc32 : n list -> n **)

let crc32 l =
  crc32_from N0 l

type verdict =
| Accept of nat
| Reject
| More

type header = { h_sync0 : n; h_sync1 : n; h_reserved : n; h_crc : n;
                h_proto : n; h_msgver : n; h_type : n; h_seq : n;
                h_psize : n; h_source : n }

(** val parse_header : n list -> header **)

let parse_header l =
  { h_sync0 = (le (sub0 l O (S O))); h_sync1 = (le (sub0 l (S O) (S O)));
    h_reserved = (le (sub0 l (S (S O)) (S (S O)))); h_crc =
    (le (sub0 l (S (S (S (S O)))) (S (S (S (S O)))))); h_proto =
    (le (sub0 l (S (S (S (S (S (S (S (S O)))))))) (S O))); h_msgver =
    (le (sub0 l (S (S (S (S (S (S (S (S (S O))))))))) (S O))); h_type =
    (le (sub0 l (S (S (S (S (S (S (S (S (S (S O)))))))))) (S (S O))));
    h_seq =
    (le
      (sub0 l (S (S (S (S (S (S (S (S (S (S (S (S O)))))))))))) (S (S (S (S
        O)))))); h_psize =
    (le
      (sub0 l (S (S (S (S (S (S (S (S (S (S (S (S (S (S (S (S
        O)))))))))))))))) (S (S (S (S O)))))); h_source =
    (le
      (sub0 l (S (S (S (S (S (S (S (S (S (S (S (S (S (S (S (S (S (S (S (S
        O)))))))))))))))))))) (S (S (S (S O)))))) }

(** val crc_region : n list -> nat -> n list **)

let crc_region l n0 =
  sub0 l (S (S (S (S (S (S (S (S O))))))))
    (sub n0 (S (S (S (S (S (S (S (S O)))))))))

(** val sync_mismatch_early : n list -> bool **)

let sync_mismatch_early = function
| [] -> false
| b0 :: t ->
  if negb (N.eqb b0 sYNC0)
  then true
  else (match t with
        | [] -> false
        | b1 :: _ -> negb (N.eqb b1 sYNC1))

(** val judge_fe : bool -> bool -> n -> n list -> verdict **)

let judge_fe eager check_reserved max_payload l =
  if (&&) eager (sync_mismatch_early l)
  then Reject
  else if Nat.ltb (length l) hEADER_SIZE
       then More
       else let h = parse_header (firstn hEADER_SIZE l) in
            if negb ((&&) (N.eqb h.h_sync0 sYNC0) (N.eqb h.h_sync1 sYNC1))
            then Reject
            else if (&&) check_reserved (negb (N.eqb h.h_reserved N0))
                 then Reject
                 else if N.ltb max_payload h.h_psize
                      then Reject
                      else let n0 = add hEADER_SIZE (N.to_nat h.h_psize) in
                           if Nat.ltb (length l) n0
                           then More
                           else if N.eqb (crc32 (crc_region l n0)) h.h_crc
                                then Accept n0
                                else Reject

(** val fscan_aux :
    ('a1 list -> verdict) -> nat -> nat -> 'a1 list -> (nat * 'a1 list) list **)

let rec fscan_aux judge fuel off l =
  match fuel with
  | O -> []
  | S f ->
    (match judge l with
     | Accept n0 ->
       (off, (firstn n0 l)) :: (fscan_aux judge f (add off n0) (skipn n0 l))
     | Reject -> fscan_aux judge f (S off) (tl l)
     | More -> (match l with
                | [] -> []
                | _ :: t -> fscan_aux judge f (S off) t))

(** val fscan :
    ('a1 list -> verdict) -> nat -> 'a1 list -> (nat * 'a1 list) list **)

let fscan judge off l =
  fscan_aux judge (S (length l)) off l

(** val judge_file : n list -> verdict **)

let judge_file =
  judge_fe false false mAX_EXPECTED_SIZE_BYTES

(** val file_frames : n list -> (nat * n list) list **)

let file_frames d =
  fscan judge_file O d

type rentry = { r_time : n; r_type : n; r_off : n }

type ientry = { i_time : n option; i_type : n; i_off : n }

(** val u4 : n -> n **)

let u4 t =
  N.modulo t (N.pow (Npos (XO XH)) (Npos (XO (XO (XO (XO (XO XH)))))))

(** val clamp_u4 : n -> n **)

let clamp_u4 t =
  if N.leb tIME_INVALID t then tIME_INVALID else t

(** val from_raw : rentry -> ientry **)

let from_raw r =
  { i_time = (if N.eqb r.r_time tIME_INVALID then None else Some r.r_time);
    i_type = r.r_type; i_off = r.r_off }

(** val to_raw : ientry -> rentry **)

let to_raw e =
  { r_time =
    (match e.i_time with
     | Some t -> clamp_u4 t
     | None -> tIME_INVALID); r_type = e.i_type; r_off = e.i_off }

(** val to_raw_legacy : ientry -> rentry **)

let to_raw_legacy e =
  { r_time = (match e.i_time with
              | Some t -> u4 t
              | None -> tIME_INVALID); r_type = e.i_type; r_off = e.i_off }

(** val frame_type : n list -> n **)

let frame_type bs =
  (parse_header (firstn hEADER_SIZE bs)).h_type

(** val indexer_time : n option -> n **)

let indexer_time = function
| Some t0 -> clamp_u4 t0
| None -> tIME_INVALID

(** val indexer_raw : (n list -> n option) -> nat -> n list -> rentry **)

let indexer_raw p1 o bs =
  { r_time = (indexer_time (p1 bs)); r_type = (frame_type bs); r_off =
    (N.of_nat o) }

(** val fresh_raw : (n list -> n option) -> n list -> rentry list **)

let fresh_raw p1 d =
  map (fun f -> indexer_raw p1 (fst f) (snd f)) (file_frames d)

(** val fresh : (n list -> n option) -> n list -> ientry list **)

let fresh p1 d =
  map from_raw (fresh_raw p1 d)

type rstep =
| RYield of n list
| RSkip
| RStop

(** val read_at : n list -> nat -> rstep **)

let read_at d off =
  let hdr = sub0 d off hEADER_SIZE in
  if Nat.ltb (length hdr) hEADER_SIZE
  then RStop
  else let h = parse_header hdr in
       if N.ltb mAX_EXPECTED_SIZE_BYTES h.h_psize
       then RSkip
       else let payload = sub0 d (add off hEADER_SIZE) (N.to_nat h.h_psize) in
            if negb (Nat.eqb (length payload) (N.to_nat h.h_psize))
            then RSkip
            else let data = app hdr payload in
                 if N.eqb
                      (crc32
                        (sub0 data (S (S (S (S (S (S (S (S O))))))))
                          (sub (add hEADER_SIZE (N.to_nat h.h_psize)) (S (S
                            (S (S (S (S (S (S O))))))))))) h.h_crc
                 then RYield data
                 else RSkip

(** val read_all : n list -> nat list -> (nat * n list) list **)

let rec read_all d = function
| [] -> []
| o :: rest ->
  (match read_at d o with
   | RYield x -> (o, x) :: (read_all d rest)
   | RSkip -> read_all d rest
   | RStop -> [])

(** val index_offsets : ientry list -> nat list **)

let index_offsets i =
  map (fun e -> N.to_nat e.i_off) i

(** val rEC_SIZE : nat **)

let rEC_SIZE =
  add (add rEC_TIME_BYTES rEC_TYPE_BYTES) rEC_OFF_BYTES

(** val enc_rentry : rentry -> n list **)

let enc_rentry r =
  app (le_enc rEC_TIME_BYTES r.r_time)
    (app (le_enc rEC_TYPE_BYTES r.r_type) (le_enc rEC_OFF_BYTES r.r_off))

(** val dec_rentry : n list -> rentry **)

let dec_rentry l =
  { r_time = (le (sub0 l O rEC_TIME_BYTES)); r_type =
    (le (sub0 l rEC_TIME_BYTES rEC_TYPE_BYTES)); r_off =
    (le (sub0 l (add rEC_TIME_BYTES rEC_TYPE_BYTES) rEC_OFF_BYTES)) }

(** val enc_records : rentry list -> n list **)

let enc_records rs =
  concat (map enc_rentry rs)

(** val parse_records_aux : nat -> n list -> rentry list **)

let rec parse_records_aux n0 l =
  match n0 with
  | O -> []
  | S k ->
    (dec_rentry (firstn rEC_SIZE l)) :: (parse_records_aux k
                                          (skipn rEC_SIZE l))

(** val parse_records : n list -> rentry list **)

let parse_records l =
  parse_records_aux (Nat.div (length l) rEC_SIZE) l

(** val last_opt : 'a1 list -> 'a1 option **)

let rec last_opt = function
| [] -> None
| x :: t -> (match t with
             | [] -> Some x
             | _ :: _ -> last_opt t)

(** val is_invalid_type : ientry -> bool **)

let is_invalid_type e =
  N.eqb e.i_type tYPE_INVALID

(** val eof_marker : n -> ientry **)

let eof_marker data_size =
  { i_time = None; i_type = tYPE_INVALID; i_off = data_size }

(** val save : ientry list -> n -> n list option **)

let save es data_size =
  match last_opt es with
  | Some e ->
    let data =
      if is_invalid_type e then es else app es ((eof_marker data_size) :: [])
    in
    Some (enc_records (map to_raw data))
  | None -> None

(** val bump : n -> (n * n) list -> (n * n) list **)

let rec bump ty = function
| [] -> (ty, (Npos XH)) :: []
| p :: rest ->
  let (k, v) = p in
  if N.eqb k ty
  then (k, (N.add v (Npos XH))) :: rest
  else (k, v) :: (bump ty rest)

type xstate = { x_out : n list; x_entries : ientry list; x_count : n;
                x_counts : (n * n) list }

type xresult = { xr_output : n list option; xr_index : n list option;
                 xr_count : n; xr_counts : (n * n) list }

(** val x_init : xstate **)

let x_init =
  { x_out = []; x_entries = []; x_count = N0; x_counts = [] }

(** val x_step : (n list -> n option) -> xstate -> n list -> xstate **)

let x_step p1 st data =
  { x_out = (app st.x_out data); x_entries =
    (app st.x_entries ({ i_time = (p1 data); i_type = (frame_type data);
      i_off = (N.of_nat (length st.x_out)) } :: [])); x_count =
    (N.add st.x_count (Npos XH)); x_counts =
    (bump (frame_type data) st.x_counts) }

(** val x_loop :
    (n list -> n option) -> n list -> nat list -> xstate -> xstate **)

let rec x_loop p1 d offs st =
  match offs with
  | [] -> st
  | o :: rest ->
    (match read_at d o with
     | RYield data -> x_loop p1 d rest (x_step p1 st data)
     | RSkip -> x_loop p1 d rest st
     | RStop -> st)

(** val extract : (n list -> n option) -> n list -> xresult **)

let extract p1 d =
  let st = x_loop p1 d (index_offsets (fresh p1 d)) x_init in
  { xr_output = (if N.eqb st.x_count N0 then None else Some st.x_out);
  xr_index = (save st.x_entries (N.of_nat (length st.x_out))); xr_count =
  st.x_count; xr_counts = st.x_counts }

type location = n list option * n list option

(** val extract_over :
    (n list -> n option) -> bool -> location -> n list -> location * n **)

let extract_over p1 save_index prior d =
  let r = extract p1 d in
  ((r.xr_output,
  (if save_index
   then (match r.xr_index with
         | Some b -> Some b
         | None -> snd prior)
   else snd prior)), r.xr_count)

(** val spec_output : n list -> n list **)

let spec_output d =
  concat (map snd (file_frames d))

(** val spec_count : n list -> n **)

let spec_count d =
  N.of_nat (length (file_frames d))

(** val fresh_saved : (n list -> n option) -> n list -> n list option **)

let fresh_saved p1 d =
  save (fresh p1 d) (N.of_nat (length d))
