
val negb : bool -> bool

val fst : ('a1 * 'a2) -> 'a1

val snd : ('a1 * 'a2) -> 'a2

val app : 'a1 list -> 'a1 list -> 'a1 list

type positive =
| XI of positive
| XO of positive
| XH

type z =
| Z0
| Zpos of positive
| Zneg of positive

val eqb : bool -> bool -> bool

module Pos :
 sig
  val succ : positive -> positive

  val add : positive -> positive -> positive

  val add_carry : positive -> positive -> positive

  val pred_double : positive -> positive

  val mul : positive -> positive -> positive

  val eqb : positive -> positive -> bool
 end

module Z :
 sig
  val double : z -> z

  val succ_double : z -> z

  val pred_double : z -> z

  val pos_sub : positive -> positive -> z

  val add : z -> z -> z

  val mul : z -> z -> z

  val eqb : z -> z -> bool
 end

val map : ('a1 -> 'a2) -> 'a1 list -> 'a2 list

val flat_map : ('a1 -> 'a2 list) -> 'a1 list -> 'a2 list

val existsb : ('a1 -> bool) -> 'a1 list -> bool

val filter : ('a1 -> bool) -> 'a1 list -> 'a1 list

val find : ('a1 -> bool) -> 'a1 list -> 'a1 option

type ascii =
| Ascii of bool * bool * bool * bool * bool * bool * bool * bool

val eqb0 : ascii -> ascii -> bool

type string =
| EmptyString
| String of ascii * string

val eqb1 : string -> string -> bool

type enum_rows = (string * z) list

type enum_table = (string * enum_rows) list

type mismatch = (((string * string) * string) * z) * z

val mm : string -> string -> string -> z -> z -> mismatch

val assoc : string -> (string * 'a1) list -> 'a1 option

val mem_str : string -> string list -> bool

val mem_z : z -> z list -> bool

val mem_pair : (string * string) -> (string * string) list -> bool

val nodup_str : string list -> bool

val nodup_z : z list -> bool

val has : string -> z -> enum_rows -> bool

val py_name : ((string * string) * string) list -> string -> string -> string

val cpp_row_ok :
  (string * string) list -> ((string * string) * string) list -> string ->
  enum_rows -> enum_rows -> (string * z) -> bool

val py_row_ok :
  (string * string) list -> (string * string) list ->
  ((string * string) * string) list -> string -> enum_rows -> enum_rows ->
  (string * z) -> bool

val enum_mismatches :
  (string * string) list -> (string * string) list -> (string * string) list
  -> ((string * string) * string) list -> enum_table -> (string * enum_rows)
  -> mismatch list

val enums_mismatches :
  (string * string) list -> (string * string) list -> (string * string) list
  -> ((string * string) * string) list -> enum_table -> enum_table ->
  mismatch list

val b2z : bool -> z

type crow = ((string * z) * bool) * bool

type prow = (z * bool) * bool

val prow_eqb : prow -> prow -> bool

val crow_ok : prow list -> crow -> bool

val prow_ok : z list -> z list -> prow -> bool

val set_member_ok : crow list -> z -> bool

val classification_mismatches :
  crow list -> prow list -> z list -> z list -> mismatch list

type mrow = (string * z) * z

val m_name : mrow -> string

val m_type : mrow -> z

val m_ver : mrow -> z

val reg_has : (z * string) list -> z -> string -> bool

val cpp_msg_ok : mrow list -> (z * string) list -> mrow -> bool

val py_class_ok : mrow list -> mrow -> bool

val reg_row_ok : mrow list -> (z * string) -> bool

val registry_mismatches :
  mrow list -> mrow list -> (z * string) list -> mismatch list

val cpp_enums : (string * (string * z) list) list

val cpp_classification : (((string * z) * bool) * bool) list

val cpp_messages : ((string * z) * z) list

val py_enums : (string * (string * z) list) list

val py_classification : ((z * bool) * bool) list

val py_command_messages : z list

val py_response_messages : z list

val py_classes : ((string * z) * z) list

val py_registry : (z * string) list

val py_enums_public : (string * (string * z) list) list

val py_classification_public : ((z * bool) * bool) list

val py_command_messages_public : z list

val py_response_messages_public : z list

val py_classes_public : ((string * z) * z) list

val py_registry_public : (z * string) list

val py_enums_after : (string * (string * z) list) list

val py_classification_after : ((z * bool) * bool) list

val py_command_messages_after : z list

val py_response_messages_after : z list

val py_classes_after : ((string * z) * z) list

val py_registry_after : (z * string) list

val enum_pairing : (string * string) list

val exc_cpp_only : (string * string) list

val exc_py_only : (string * string) list

val exc_renamed : ((string * string) * string) list

val c03_enum_mismatches : mismatch list

val c03_classification_mismatches : mismatch list

val c03_registry_mismatches : mismatch list

val c03_enum_mismatches_after : mismatch list

val c03_classification_mismatches_after : mismatch list

val c03_registry_mismatches_after : mismatch list

val c03_enum_mismatches_public : mismatch list

val c03_classification_mismatches_public : mismatch list

val c03_registry_mismatches_public : mismatch list
