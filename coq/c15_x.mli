
type nat =
| O
| S of nat

val fst : ('a1 * 'a2) -> 'a1

val length : 'a1 list -> nat

val app : 'a1 list -> 'a1 list -> 'a1 list

type comparison =
| Eq
| Lt
| Gt

val compOpp : comparison -> comparison

val add : nat -> nat -> nat

type positive =
| XI of positive
| XO of positive
| XH

type z =
| Z0
| Zpos of positive
| Zneg of positive

module Nat :
 sig
  val eqb : nat -> nat -> bool
 end

module Pos :
 sig
  val succ : positive -> positive

  val compare_cont : comparison -> positive -> positive -> comparison

  val compare : positive -> positive -> comparison

  val eqb : positive -> positive -> bool

  val iter_op : ('a1 -> 'a1 -> 'a1) -> positive -> 'a1 -> 'a1

  val to_nat : positive -> nat

  val of_succ_nat : nat -> positive
 end

module Z :
 sig
  val compare : z -> z -> comparison

  val ltb : z -> z -> bool

  val geb : z -> z -> bool

  val eqb : z -> z -> bool

  val to_nat : z -> nat

  val of_nat : nat -> z
 end

val nth_error : 'a1 list -> nat -> 'a1 option

val concat : 'a1 list list -> 'a1 list

val map : ('a1 -> 'a2) -> 'a1 list -> 'a2 list

val fold_right : ('a2 -> 'a1 -> 'a1) -> 'a1 -> 'a2 list -> 'a1

val existsb : ('a1 -> bool) -> 'a1 list -> bool

val forallb : ('a1 -> bool) -> 'a1 list -> bool

val filter : ('a1 -> bool) -> 'a1 list -> 'a1 list

val find : ('a1 -> bool) -> 'a1 list -> 'a1 option

val seq : nat -> nat -> nat list

val repeat : 'a1 -> nat -> 'a1 list

type ta_msg = z * nat

type ta_item =
| Kept of ta_msg
| Fresh of z

type ta_outcome =
| Untouched
| Replaced of ta_item list

type ta_mode =
| NONE
| DROP
| INSERT

type ta_entry = { e_type : nat; e_has_p1 : bool; e_msgs : ta_msg list }

type ta_result =
| Ok of ta_outcome list
| IndexErr

val ta_times : ta_entry -> z list

val insert_u : z -> z list -> z list

val np_unique : z list -> z list

val memZ : z -> z list -> bool

val np_intersect1d : z list -> z list -> z list

val first_index : z -> z list -> nat

val np_intersect1d_idx : z list -> z list -> (z list * nat list) * nat list

val set_nth : 'a1 list -> nat -> 'a1 -> 'a1 list option

val scatter : z list -> nat list -> nat list -> z list option

val map_opt : ('a1 -> 'a2 option) -> 'a1 list -> 'a2 list option

val ta_selected : nat list option -> ta_entry -> bool

val ta_is_aligned : nat list option -> ta_entry -> bool

val ta_collect :
  ta_mode -> nat list option -> ta_entry list -> z list option -> z list
  option

val ta_get_value : ta_msg list -> z list -> z list -> nat -> ta_item option

val ta_insert_entry : z list -> ta_entry -> ta_item list option

val ta_drop_entry : z list -> ta_entry -> ta_item list option

val ta_second :
  (ta_entry -> ta_item list option) -> nat list option -> ta_entry list ->
  ta_outcome list option

val ta_unwrap : ta_outcome list option -> ta_result

val ta_align : ta_mode -> nat list option -> ta_entry list -> ta_result

val ta_aligned : nat list option -> ta_entry list -> ta_entry list

val ta_first_with : z -> ta_msg list -> ta_msg option

val ta_pick : ta_msg list -> z -> ta_item

val ta_spec_times : ta_mode -> nat list option -> ta_entry list -> z list

val ta_spec : ta_mode -> nat list option -> ta_entry list -> ta_outcome list
