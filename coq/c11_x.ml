
(** val negb : bool -> bool **)

let negb = function
| true -> false
| false -> true

type nat =
| O
| S of nat

(** val option_map : ('a1 -> 'a2) -> 'a1 option -> 'a2 option **)

let option_map f = function
| Some a -> Some (f a)
| None -> None

(** val fst : ('a1 * 'a2) -> 'a1 **)

let fst = function
| (x, _) -> x

(** val length : 'a1 list -> nat **)

let rec length = function
| [] -> O
| _ :: l' -> S (length l')

(** val app : 'a1 list -> 'a1 list -> 'a1 list **)

let rec app l m =
  match l with
  | [] -> m
  | a :: l1 -> a :: (app l1 m)

type comparison =
| Eq
| Lt
| Gt

(** val compOpp : comparison -> comparison **)

let compOpp = function
| Eq -> Eq
| Lt -> Gt
| Gt -> Lt

module Coq__1 = struct
 (** val add : nat -> nat -> nat **)
 let rec add n m =
   match n with
   | O -> m
   | S p -> S (add p m)
end
include Coq__1

type positive =
| XI of positive
| XO of positive
| XH

type z =
| Z0
| Zpos of positive
| Zneg of positive

module Pos =
 struct
  (** val succ : positive -> positive **)

  let rec succ = function
  | XI p -> XO (succ p)
  | XO p -> XI p
  | XH -> XO XH

  (** val add : positive -> positive -> positive **)

  let rec add x y =
    match x with
    | XI p ->
      (match y with
       | XI q -> XO (add_carry p q)
       | XO q -> XI (add p q)
       | XH -> XO (succ p))
    | XO p ->
      (match y with
       | XI q -> XI (add p q)
       | XO q -> XO (add p q)
       | XH -> XI p)
    | XH -> (match y with
             | XI q -> XO (succ q)
             | XO q -> XI q
             | XH -> XO XH)

  (** val add_carry : positive -> positive -> positive **)

  and add_carry x y =
    match x with
    | XI p ->
      (match y with
       | XI q -> XI (add_carry p q)
       | XO q -> XO (add_carry p q)
       | XH -> XI (succ p))
    | XO p ->
      (match y with
       | XI q -> XO (add_carry p q)
       | XO q -> XI (add p q)
       | XH -> XO (succ p))
    | XH ->
      (match y with
       | XI q -> XI (succ q)
       | XO q -> XO (succ q)
       | XH -> XI XH)

  (** val pred_double : positive -> positive **)

  let rec pred_double = function
  | XI p -> XI (XO p)
  | XO p -> XI (pred_double p)
  | XH -> XH

  (** val mul : positive -> positive -> positive **)

  let rec mul x y =
    match x with
    | XI p -> add y (XO (mul p y))
    | XO p -> XO (mul p y)
    | XH -> y

  (** val compare_cont : comparison -> positive -> positive -> comparison **)

  let rec compare_cont r x y =
    match x with
    | XI p ->
      (match y with
       | XI q -> compare_cont r p q
       | XO q -> compare_cont Gt p q
       | XH -> Gt)
    | XO p ->
      (match y with
       | XI q -> compare_cont Lt p q
       | XO q -> compare_cont r p q
       | XH -> Gt)
    | XH -> (match y with
             | XH -> r
             | _ -> Lt)

  (** val compare : positive -> positive -> comparison **)

  let compare =
    compare_cont Eq

  (** val eqb : positive -> positive -> bool **)

  let rec eqb p q =
    match p with
    | XI p0 -> (match q with
                | XI q0 -> eqb p0 q0
                | _ -> false)
    | XO p0 -> (match q with
                | XO q0 -> eqb p0 q0
                | _ -> false)
    | XH -> (match q with
             | XH -> true
             | _ -> false)

  (** val iter_op : ('a1 -> 'a1 -> 'a1) -> positive -> 'a1 -> 'a1 **)

  let rec iter_op op0 p a =
    match p with
    | XI p0 -> op0 a (iter_op op0 p0 (op0 a a))
    | XO p0 -> iter_op op0 p0 (op0 a a)
    | XH -> a

  (** val to_nat : positive -> nat **)

  let to_nat x =
    iter_op Coq__1.add x (S O)

  (** val of_succ_nat : nat -> positive **)

  let rec of_succ_nat = function
  | O -> XH
  | S x -> succ (of_succ_nat x)
 end

module Z =
 struct
  (** val double : z -> z **)

  let double = function
  | Z0 -> Z0
  | Zpos p -> Zpos (XO p)
  | Zneg p -> Zneg (XO p)

  (** val succ_double : z -> z **)

  let succ_double = function
  | Z0 -> Zpos XH
  | Zpos p -> Zpos (XI p)
  | Zneg p -> Zneg (Pos.pred_double p)

  (** val pred_double : z -> z **)

  let pred_double = function
  | Z0 -> Zneg XH
  | Zpos p -> Zpos (Pos.pred_double p)
  | Zneg p -> Zneg (XI p)

  (** val pos_sub : positive -> positive -> z **)

  let rec pos_sub x y =
    match x with
    | XI p ->
      (match y with
       | XI q -> double (pos_sub p q)
       | XO q -> succ_double (pos_sub p q)
       | XH -> Zpos (XO p))
    | XO p ->
      (match y with
       | XI q -> pred_double (pos_sub p q)
       | XO q -> double (pos_sub p q)
       | XH -> Zpos (Pos.pred_double p))
    | XH ->
      (match y with
       | XI q -> Zneg (XO q)
       | XO q -> Zneg (Pos.pred_double q)
       | XH -> Z0)

  (** val add : z -> z -> z **)

  let add x y =
    match x with
    | Z0 -> y
    | Zpos x' ->
      (match y with
       | Z0 -> x
       | Zpos y' -> Zpos (Pos.add x' y')
       | Zneg y' -> pos_sub x' y')
    | Zneg x' ->
      (match y with
       | Z0 -> x
       | Zpos y' -> pos_sub y' x'
       | Zneg y' -> Zneg (Pos.add x' y'))

  (** val opp : z -> z **)

  let opp = function
  | Z0 -> Z0
  | Zpos x0 -> Zneg x0
  | Zneg x0 -> Zpos x0

  (** val sub : z -> z -> z **)

  let sub m n =
    add m (opp n)

  (** val mul : z -> z -> z **)

  let mul x y =
    match x with
    | Z0 -> Z0
    | Zpos x' ->
      (match y with
       | Z0 -> Z0
       | Zpos y' -> Zpos (Pos.mul x' y')
       | Zneg y' -> Zneg (Pos.mul x' y'))
    | Zneg x' ->
      (match y with
       | Z0 -> Z0
       | Zpos y' -> Zneg (Pos.mul x' y')
       | Zneg y' -> Zpos (Pos.mul x' y'))

  (** val compare : z -> z -> comparison **)

  let compare x y =
    match x with
    | Z0 -> (match y with
             | Z0 -> Eq
             | Zpos _ -> Lt
             | Zneg _ -> Gt)
    | Zpos x' -> (match y with
                  | Zpos y' -> Pos.compare x' y'
                  | _ -> Gt)
    | Zneg x' ->
      (match y with
       | Zneg y' -> compOpp (Pos.compare x' y')
       | _ -> Lt)

  (** val leb : z -> z -> bool **)

  let leb x y =
    match compare x y with
    | Gt -> false
    | _ -> true

  (** val ltb : z -> z -> bool **)

  let ltb x y =
    match compare x y with
    | Lt -> true
    | _ -> false

  (** val eqb : z -> z -> bool **)

  let eqb x y =
    match x with
    | Z0 -> (match y with
             | Z0 -> true
             | _ -> false)
    | Zpos p -> (match y with
                 | Zpos q -> Pos.eqb p q
                 | _ -> false)
    | Zneg p -> (match y with
                 | Zneg q -> Pos.eqb p q
                 | _ -> false)

  (** val max : z -> z -> z **)

  let max n m =
    match compare n m with
    | Lt -> m
    | _ -> n

  (** val min : z -> z -> z **)

  let min n m =
    match compare n m with
    | Gt -> m
    | _ -> n

  (** val to_nat : z -> nat **)

  let to_nat = function
  | Zpos p -> Pos.to_nat p
  | _ -> O

  (** val of_nat : nat -> z **)

  let of_nat = function
  | O -> Z0
  | S n0 -> Zpos (Pos.of_succ_nat n0)

  (** val pos_div_eucl : positive -> z -> z * z **)

  let rec pos_div_eucl a b =
    match a with
    | XI a' ->
      let (q, r) = pos_div_eucl a' b in
      let r' = add (mul (Zpos (XO XH)) r) (Zpos XH) in
      if ltb r' b
      then ((mul (Zpos (XO XH)) q), r')
      else ((add (mul (Zpos (XO XH)) q) (Zpos XH)), (sub r' b))
    | XO a' ->
      let (q, r) = pos_div_eucl a' b in
      let r' = mul (Zpos (XO XH)) r in
      if ltb r' b
      then ((mul (Zpos (XO XH)) q), r')
      else ((add (mul (Zpos (XO XH)) q) (Zpos XH)), (sub r' b))
    | XH -> if leb (Zpos (XO XH)) b then (Z0, (Zpos XH)) else ((Zpos XH), Z0)

  (** val div_eucl : z -> z -> z * z **)

  let div_eucl a b =
    match a with
    | Z0 -> (Z0, Z0)
    | Zpos a' ->
      (match b with
       | Z0 -> (Z0, a)
       | Zpos _ -> pos_div_eucl a' b
       | Zneg b' ->
         let (q, r) = pos_div_eucl a' (Zpos b') in
         (match r with
          | Z0 -> ((opp q), Z0)
          | _ -> ((opp (add q (Zpos XH))), (add b r))))
    | Zneg a' ->
      (match b with
       | Z0 -> (Z0, a)
       | Zpos _ ->
         let (q, r) = pos_div_eucl a' b in
         (match r with
          | Z0 -> ((opp q), Z0)
          | _ -> ((opp (add q (Zpos XH))), (sub b r)))
       | Zneg b' -> let (q, r) = pos_div_eucl a' (Zpos b') in (q, (opp r)))

  (** val div : z -> z -> z **)

  let div a b =
    let (q, _) = div_eucl a b in q

  (** val modulo : z -> z -> z **)

  let modulo a b =
    let (_, r) = div_eucl a b in r
 end

(** val nth_error : 'a1 list -> nat -> 'a1 option **)

let rec nth_error l = function
| O -> (match l with
        | [] -> None
        | x :: _ -> Some x)
| S n0 -> (match l with
           | [] -> None
           | _ :: l0 -> nth_error l0 n0)

(** val rev : 'a1 list -> 'a1 list **)

let rec rev = function
| [] -> []
| x :: l' -> app (rev l') (x :: [])

(** val map : ('a1 -> 'a2) -> 'a1 list -> 'a2 list **)

let rec map f = function
| [] -> []
| a :: t -> (f a) :: (map f t)

(** val fold_right : ('a2 -> 'a1 -> 'a1) -> 'a1 -> 'a2 list -> 'a1 **)

let rec fold_right f a0 = function
| [] -> a0
| b :: t -> f b (fold_right f a0 t)

(** val existsb : ('a1 -> bool) -> 'a1 list -> bool **)

let rec existsb f = function
| [] -> false
| a :: l0 -> (||) (f a) (existsb f l0)

(** val forallb : ('a1 -> bool) -> 'a1 list -> bool **)

let rec forallb f = function
| [] -> true
| a :: l0 -> (&&) (f a) (forallb f l0)

(** val filter : ('a1 -> bool) -> 'a1 list -> 'a1 list **)

let rec filter f = function
| [] -> []
| x :: l0 -> if f x then x :: (filter f l0) else filter f l0

(** val find : ('a1 -> bool) -> 'a1 list -> 'a1 option **)

let rec find f = function
| [] -> None
| x :: tl -> if f x then Some x else find f tl

(** val firstn : nat -> 'a1 list -> 'a1 list **)

let rec firstn n l =
  match n with
  | O -> []
  | S n0 -> (match l with
             | [] -> []
             | a :: l0 -> a :: (firstn n0 l0))

(** val skipn : nat -> 'a1 list -> 'a1 list **)

let rec skipn n l =
  match n with
  | O -> l
  | S n0 -> (match l with
             | [] -> []
             | _ :: l0 -> skipn n0 l0)

type fixes = { fx_payload : bool; fx_after_log : bool; fx_time_first : 
               bool; fx_remove_nans : bool; fx_last_off : bool;
               fx_populate_rewind : bool; fx_srcs_as_requested : bool }

(** val fixed : fixes **)

let fixed =
  { fx_payload = true; fx_after_log = true; fx_time_first = true;
    fx_remove_nans = true; fx_last_off = true; fx_populate_rewind = true;
    fx_srcs_as_requested = true }

(** val legacy : fixes **)

let legacy =
  { fx_payload = false; fx_after_log = false; fx_time_first = false;
    fx_remove_nans = false; fx_last_off = false; fx_populate_rewind = false;
    fx_srcs_as_requested = false }

type err =
| IndexError
| ValueError
| UnboundLocalError
| Unsupported
| InternalError

type 'a res =
| Ok of 'a
| Err of err

type entry = { e_time : z option; e_type : z; e_off : z; e_idx : z }

type findex = { fi_data : entry list; fi_t0 : z option }

(** val zlen : 'a1 list -> z **)

let zlen l =
  Z.of_nat (length l)

(** val find_first_from : bool list -> z -> z **)

let rec find_first_from l i =
  match l with
  | [] -> Zneg XH
  | b :: t -> if b then i else find_first_from t (Z.add i (Zpos XH))

(** val find_first : bool list -> z **)

let find_first l =
  find_first_from l Z0

(** val argmax_bool : bool list -> z **)

let argmax_bool l =
  let i = find_first l in if Z.ltb i Z0 then Z0 else i

(** val first_time : entry list -> z option **)

let rec first_time = function
| [] -> None
| e :: t -> (match e.e_time with
             | Some x -> Some x
             | None -> first_time t)

(** val mk_index : entry list -> z option -> findex **)

let mk_index data t0 =
  { fi_data = data; fi_t0 =
    (match t0 with
     | Some x -> Some x
     | None -> first_time data) }

(** val slice_nn : 'a1 list -> z -> z -> 'a1 list **)

let slice_nn l s e =
  firstn (Z.to_nat (Z.sub e s)) (skipn (Z.to_nat s) l)

(** val filter_i_from : (z -> 'a1 -> bool) -> z -> 'a1 list -> 'a1 list **)

let rec filter_i_from f i = function
| [] -> []
| x :: t ->
  if f i x
  then x :: (filter_i_from f (Z.add i (Zpos XH)) t)
  else filter_i_from f (Z.add i (Zpos XH)) t

(** val filter_i : (z -> 'a1 -> bool) -> 'a1 list -> 'a1 list **)

let filter_i f l =
  filter_i_from f Z0 l

(** val is_nan : entry -> bool **)

let is_nan e =
  match e.e_time with
  | Some _ -> false
  | None -> true

(** val time_ge_s : z -> entry -> bool **)

let time_ge_s s e =
  match e.e_time with
  | Some t -> Z.leb s t
  | None -> false

(** val time_ge_8 : z -> entry -> bool **)

let time_ge_8 x8 e =
  match e.e_time with
  | Some t -> Z.leb x8 (Z.mul (Zpos (XO (XO (XO XH)))) t)
  | None -> false

type bnd =
| BNone
| BNaN
| BVal of z

(** val bnd_is_none : bnd -> bool **)

let bnd_is_none = function
| BNone -> true
| _ -> false

type hint =
| IncludeNans
| AllNans
| RemoveNans

(** val hint_is_include : hint -> bool **)

let hint_is_include = function
| IncludeNans -> true
| _ -> false

type trange = { tr_start : z option; tr_end : z option; tr_abs : bool;
                tr_t0 : z option }

(** val bnd_add : z option -> z option -> bnd **)

let bnd_add t0 = function
| Some v -> (match t0 with
             | Some t -> BVal (Z.add t v)
             | None -> BNaN)
| None -> BNone

(** val bnd_of : z option -> bnd **)

let bnd_of = function
| Some v -> BVal v
| None -> BNone

(** val resolve_range : findex -> trange -> bnd * bnd **)

let resolve_range fi r =
  if r.tr_abs
  then ((bnd_of r.tr_start), (bnd_of r.tr_end))
  else let p1_t0 =
         match r.tr_t0 with
         | Some t -> Some t
         | None ->
           (match fi.fi_t0 with
            | Some s -> Some (Z.mul (Zpos (XO (XO (XO XH)))) s)
            | None -> None)
       in
       ((bnd_add p1_t0 r.tr_start), (bnd_add p1_t0 r.tr_end))

(** val get_time_range_b :
    fixes -> findex -> bnd -> bnd -> hint -> findex res **)

let get_time_range_b fx fi start stop h =
  let data = fi.fi_data in
  let n = zlen data in
  if Z.eqb n Z0
  then Ok (mk_index data fi.fi_t0)
  else if (&&) ((&&) (bnd_is_none start) (bnd_is_none stop))
            (if fx.fx_remove_nans then hint_is_include h else true)
       then Ok (mk_index data fi.fi_t0)
       else (match fi.fi_t0 with
             | Some _ ->
               let start_idx =
                 match start with
                 | BNone -> Z0
                 | BNaN -> find_first (map (fun _ -> false) data)
                 | BVal s ->
                   find_first
                     (map (time_ge_s (Z.div s (Zpos (XO (XO (XO XH)))))) data)
               in
               let end_idx =
                 match stop with
                 | BNone -> n
                 | BNaN -> find_first (map (fun _ -> false) data)
                 | BVal s -> find_first (map (time_ge_8 s) data)
               in
               let start_idx0 =
                 if Z.ltb start_idx Z0
                 then if fx.fx_after_log then n else Z0
                 else start_idx
               in
               let end_idx0 = if Z.ltb end_idx Z0 then n else end_idx in
               (match h with
                | IncludeNans ->
                  Ok (mk_index (slice_nn data start_idx0 end_idx0) fi.fi_t0)
                | AllNans ->
                  Ok
                    (mk_index
                      (filter_i (fun i e ->
                        (||) ((&&) (Z.leb start_idx0 i) (Z.ltb i end_idx0))
                          (is_nan e)) data) fi.fi_t0)
                | RemoveNans ->
                  Ok
                    (mk_index
                      (filter_i (fun i e ->
                        (&&) ((&&) (Z.leb start_idx0 i) (Z.ltb i end_idx0))
                          (negb (is_nan e))) data) fi.fi_t0))
             | None ->
               if (&&) ((&&) fx.fx_remove_nans (bnd_is_none start))
                    (bnd_is_none stop)
               then Ok
                      (mk_index
                        (filter (fun e ->
                          match h with
                          | RemoveNans -> negb (is_nan e)
                          | _ -> true) data) None)
               else Err IndexError)

(** val get_time_range_R : fixes -> findex -> trange -> hint -> findex res **)

let get_time_range_R fx fi r h =
  let (s, e) = resolve_range fi r in get_time_range_b fx fi s e h

type key =
| KNone
| KTypes of z list
| KTimeSlice of z option * z option * hint option
| KTimeRange of trange
| KIdxSlice of z option * z option * z option

(** val memZ : z -> z list -> bool **)

let memZ x l =
  existsb (Z.eqb x) l

(** val norm_idx : z -> z option -> z -> z **)

let norm_idx n x dflt =
  match x with
  | Some a -> if Z.ltb a Z0 then Z.max (Z.add a n) Z0 else Z.min a n
  | None -> dflt

(** val py_slice : 'a1 list -> z option -> z option -> z -> 'a1 list **)

let py_slice l a b step0 =
  let n = zlen l in
  let s = norm_idx n a Z0 in
  let e = norm_idx n b n in
  filter_i (fun i _ -> Z.eqb (Z.modulo i step0) Z0) (slice_nn l s e)

(** val getitem : fixes -> findex -> key -> findex res **)

let getitem fx fi k = match k with
| KNone -> Ok fi
| _ ->
  if Z.eqb (zlen fi.fi_data) Z0
  then Ok { fi_data = []; fi_t0 = None }
  else (match k with
        | KNone -> Ok fi
        | KTypes ts ->
          Ok
            (mk_index (filter (fun e -> memZ e.e_type ts) fi.fi_data)
              fi.fi_t0)
        | KTimeSlice (s, e, h) ->
          (match s with
           | Some _ ->
             get_time_range_b fx fi (bnd_of s) (bnd_of e)
               (match h with
                | Some x -> x
                | None -> IncludeNans)
           | None ->
             (match e with
              | Some _ ->
                get_time_range_b fx fi (bnd_of s) (bnd_of e)
                  (match h with
                   | Some x -> x
                   | None -> IncludeNans)
              | None ->
                (match h with
                 | Some x ->
                   if fx.fx_remove_nans
                   then get_time_range_b fx fi BNone BNone x
                   else Err Unsupported
                 | None -> Err Unsupported)))
        | KTimeRange r -> get_time_range_R fx fi r IncludeNans
        | KIdxSlice (a, b, st) ->
          let step0 = match st with
                      | Some s -> s
                      | None -> Zpos XH in
          if Z.eqb step0 Z0
          then Err ValueError
          else if Z.ltb step0 Z0
               then Err Unsupported
               else Ok (mk_index (py_slice fi.fi_data a b step0) fi.fi_t0))

(** val started_before : z -> entry list -> bool **)

let started_before lo pre =
  existsb (time_ge_s lo) pre

(** val ended_before : z -> entry list -> bool **)

let ended_before hi8 pre =
  existsb (time_ge_8 hi8) pre

(** val window_ok : z option -> z option -> entry list -> entry -> bool **)

let window_ok lo hi8 pre e =
  match e.e_time with
  | Some t ->
    (&&) (match lo with
          | Some s -> Z.leb s t
          | None -> true)
      (match hi8 with
       | Some h -> negb (Z.leb h (Z.mul (Zpos (XO (XO (XO XH)))) t))
       | None -> true)
  | None ->
    (&&) (match lo with
          | Some s -> started_before s pre
          | None -> true)
      (match hi8 with
       | Some h -> negb (ended_before h pre)
       | None -> true)

(** val window_hint :
    hint -> z option -> z option -> entry list -> entry -> bool **)

let window_hint h lo hi8 pre e =
  match h with
  | IncludeNans -> window_ok lo hi8 pre e
  | AllNans -> (||) (is_nan e) (window_ok lo hi8 pre e)
  | RemoveNans -> (&&) (negb (is_nan e)) (window_ok lo hi8 pre e)

(** val filter_pos_from :
    (entry list -> entry -> bool) -> entry list -> entry list -> entry list **)

let rec filter_pos_from f pre = function
| [] -> []
| e :: t ->
  if f pre e
  then e :: (filter_pos_from f (app pre (e :: [])) t)
  else filter_pos_from f (app pre (e :: [])) t

(** val filter_pos :
    (entry list -> entry -> bool) -> entry list -> entry list **)

let filter_pos f l =
  filter_pos_from f [] l

(** val bnd_val : bnd -> z option **)

let bnd_val = function
| BVal x -> Some x
| _ -> None

(** val spec_time : findex -> bnd -> bnd -> hint -> findex res **)

let spec_time fi start stop h =
  if Z.eqb (zlen fi.fi_data) Z0
  then Ok (mk_index fi.fi_data fi.fi_t0)
  else if (&&) (bnd_is_none start) (bnd_is_none stop)
       then Ok
              (mk_index (filter_pos (window_hint h None None) fi.fi_data)
                fi.fi_t0)
       else (match fi.fi_t0 with
             | Some _ ->
               Ok
                 (mk_index
                   (filter_pos
                     (window_hint h
                       (option_map (fun s ->
                         Z.div s (Zpos (XO (XO (XO XH))))) (bnd_val start))
                       (bnd_val stop)) fi.fi_data) fi.fi_t0)
             | None -> Err IndexError)

(** val spec_getitem : findex -> key -> findex res **)

let spec_getitem fi k = match k with
| KNone -> Ok fi
| _ ->
  if Z.eqb (zlen fi.fi_data) Z0
  then Ok { fi_data = []; fi_t0 = None }
  else (match k with
        | KNone -> Ok fi
        | KTypes ts ->
          Ok
            (mk_index (filter (fun e -> memZ e.e_type ts) fi.fi_data)
              fi.fi_t0)
        | KTimeSlice (s, e, h) ->
          (match s with
           | Some _ ->
             spec_time fi (bnd_of s) (bnd_of e)
               (match h with
                | Some x -> x
                | None -> IncludeNans)
           | None ->
             (match e with
              | Some _ ->
                spec_time fi (bnd_of s) (bnd_of e)
                  (match h with
                   | Some x -> x
                   | None -> IncludeNans)
              | None ->
                (match h with
                 | Some _ ->
                   spec_time fi (bnd_of s) (bnd_of e)
                     (match h with
                      | Some x -> x
                      | None -> IncludeNans)
                 | None -> Err Unsupported)))
        | KTimeRange r ->
          let (s, e) = resolve_range fi r in spec_time fi s e IncludeNans
        | KIdxSlice (a, b, st) ->
          let step0 = match st with
                      | Some s -> s
                      | None -> Zpos XH in
          if Z.eqb step0 Z0
          then Err ValueError
          else if Z.ltb step0 Z0
               then Err Unsupported
               else Ok (mk_index (py_slice fi.fi_data a b step0) fi.fi_t0))

(** val header_size : z **)

let header_size =
  Zpos (XO (XO (XO (XI XH))))

(** val read_size_bytes : z **)

let read_size_bytes =
  Zpos (XO (XO (XO (XO (XO (XO (XO (XO (XO (XO (XO (XO (XO (XO (XI (XO
    XH))))))))))))))))

(** val populate_count : nat **)

let populate_count =
  S (S (S (S (S (S (S (S (S (S O)))))))))

type msg = { m_off : z; m_size : z; m_type : z; m_src : z; m_time : z option }

type file = { f_msgs : msg list; f_size : z }

(** val entry_of : z -> msg -> entry **)

let entry_of i m =
  { e_time =
    (match m.m_time with
     | Some t -> Some (Z.div t (Zpos (XO (XO (XO XH)))))
     | None -> None); e_type = m.m_type; e_off = m.m_off; e_idx = i }

(** val entries_from : z -> msg list -> entry list **)

let rec entries_from i = function
| [] -> []
| m :: t -> (entry_of i m) :: (entries_from (Z.add i (Zpos XH)) t)

(** val index_limit : file -> z option -> z option **)

let index_limit f = function
| Some mb ->
  if Z.eqb mb Z0
  then None
  else if Z.ltb mb f.f_size
       then Some
              (Z.mul (Z.opp (Z.div (Z.opp mb) read_size_bytes))
                read_size_bytes)
       else None
| None -> None

(** val below : z option -> z -> bool **)

let below lim x =
  match lim with
  | Some l -> Z.ltb x l
  | None -> true

(** val index_of_file : file -> z option -> findex **)

let index_of_file f max_bytes =
  mk_index
    (filter (fun e -> below (index_limit f max_bytes) e.e_off)
      (entries_from Z0 f.f_msgs)) None

type cfg = { c_max_bytes : z option; c_hdr : bool; c_pay : bool;
             c_bytes : bool; c_offset : bool; c_index : bool;
             c_has_range : bool }

type reader = { r_orig : findex; r_index : findex; r_next : z; r_last : 
                z; r_srcs : z list option; r_avail : z list }

(** val set_index : reader -> findex -> reader **)

let set_index r i =
  { r_orig = r.r_orig; r_index = i; r_next = r.r_next; r_last = r.r_last;
    r_srcs = r.r_srcs; r_avail = r.r_avail }

(** val set_cursor : reader -> z -> z -> reader **)

let set_cursor r n l =
  { r_orig = r.r_orig; r_index = r.r_index; r_next = n; r_last = l; r_srcs =
    r.r_srcs; r_avail = r.r_avail }

(** val set_next : reader -> z -> reader **)

let set_next r n =
  set_cursor r n r.r_last

(** val set_srcs : reader -> z list option -> reader **)

let set_srcs r s =
  { r_orig = r.r_orig; r_index = r.r_index; r_next = r.r_next; r_last =
    r.r_last; r_srcs = s; r_avail = r.r_avail }

(** val set_avail : reader -> z list -> reader **)

let set_avail r a =
  { r_orig = r.r_orig; r_index = r.r_index; r_next = r.r_next; r_last =
    r.r_last; r_srcs = r.r_srcs; r_avail = a }

type piece =
| PHeader of msg
| PPayload of msg
| PBytes of z * z
| POffset of z
| PIndex of z

(** val assemble : cfg -> msg -> z -> z -> piece list **)

let assemble c m start_off cmi =
  app (if c.c_hdr then (PHeader m) :: [] else [])
    (app (if c.c_pay then (PPayload m) :: [] else [])
      (app (if c.c_bytes then (PBytes (start_off, m.m_size)) :: [] else [])
        (app (if c.c_offset then (POffset start_off) :: [] else [])
          (if c.c_index then (PIndex cmi) :: [] else []))))

(** val exceeds : z option -> z -> bool **)

let exceeds mb x =
  match mb with
  | Some b -> Z.ltb b x
  | None -> false

(** val src_ok : z list option -> msg -> bool **)

let src_ok s m =
  match s with
  | Some l -> memZ m.m_src l
  | None -> true

(** val file_at : file -> z -> msg option **)

let file_at f off =
  find (fun m -> Z.eqb m.m_off off) f.f_msgs

type step =
| SStop
| SSkip
| SRet of msg
| SErr of err

(** val read_entry :
    fixes -> cfg -> z list option -> file -> entry -> step **)

let read_entry fx c srcs f e =
  if exceeds c.c_max_bytes (Z.add e.e_off header_size)
  then SStop
  else (match file_at f e.e_off with
        | Some m ->
          if negb (src_ok srcs m)
          then SSkip
          else if exceeds c.c_max_bytes (Z.add e.e_off m.m_size)
               then SStop
               else if (&&) (negb ((||) c.c_pay c.c_has_range))
                         (negb fx.fx_payload)
                    then SErr UnboundLocalError
                    else SRet m
        | None -> SSkip)

type outcome =
| OMsg of msg * piece list
| OStop
| OErr of err

(** val read_loop :
    fixes -> cfg -> z list option -> file -> entry list -> z -> z ->
    (outcome * z) * z **)

let rec read_loop fx c srcs f rest next last =
  match rest with
  | [] -> ((OStop, next), last)
  | e :: rest' ->
    (match read_entry fx c srcs f e with
     | SStop -> ((OStop, (Z.add next (Zpos XH))), e.e_off)
     | SSkip -> read_loop fx c srcs f rest' (Z.add next (Zpos XH)) e.e_off
     | SRet m ->
       (((OMsg (m, (assemble c m e.e_off e.e_idx))), (Z.add next (Zpos XH))),
         e.e_off)
     | SErr x -> (((OErr x), (Z.add next (Zpos XH))), e.e_off))

(** val read_next : fixes -> cfg -> file -> reader -> reader * outcome **)

let read_next fx c f r =
  let (p, l) =
    read_loop fx c r.r_srcs f (skipn (Z.to_nat r.r_next) r.r_index.fi_data)
      r.r_next r.r_last
  in
  let (o, n) = p in ((set_cursor r n l), o)

(** val relocate : entry list -> z -> z **)

let relocate data prev =
  if Z.eqb (zlen data) Z0
  then Z0
  else if Z.ltb prev Z0
       then Z0
       else let idx = argmax_bool (map (fun e -> Z.ltb prev e.e_off) data) in
            if (&&) (Z.eqb idx Z0)
                 (match data with
                  | [] -> false
                  | e :: _ -> Z.leb e.e_off prev)
            then zlen data
            else idx

(** val prev_offset : fixes -> reader -> z res **)

let prev_offset fx r =
  if fx.fx_last_off
  then Ok r.r_last
  else if Z.eqb r.r_next Z0
       then Ok (Zneg XH)
       else (match nth_error r.r_index.fi_data
                     (Z.to_nat (Z.sub r.r_next (Zpos XH))) with
             | Some e -> Ok e.e_off
             | None -> Err InternalError)

(** val set_eqb : z list -> z list -> bool **)

let set_eqb a b =
  (&&) (forallb (fun x -> memZ x b) a) (forallb (fun x -> memZ x a) b)

(** val apply_source_ids : fixes -> reader -> z list option -> reader **)

let apply_source_ids fx r = function
| Some ids ->
  set_srcs r (Some
    (if fx.fx_srcs_as_requested
     then ids
     else if set_eqb r.r_avail ids
          then ids
          else filter (fun x -> memZ x r.r_avail) ids))
| None -> r

(** val filter_in_place :
    fixes -> reader -> key -> bool -> z list option -> reader * unit res **)

let filter_in_place fx r k clear s =
  match prev_offset fx r with
  | Ok prev ->
    let r1 = if clear then set_index r r.r_orig else r in
    let r2 = apply_source_ids fx r1 s in
    (match getitem fx r2.r_index k with
     | Ok i ->
       ((set_next (set_index r2 i) (relocate i.fi_data prev)), (Ok ()))
     | Err x -> (r2, (Err x)))
  | Err x -> (r, (Err x))

(** val rewind : reader -> reader **)

let rewind r =
  set_cursor r Z0 (Zneg XH)

(** val insert_uniq : z -> z list -> z list **)

let rec insert_uniq x l = match l with
| [] -> x :: []
| y :: t ->
  if Z.ltb x y
  then x :: l
  else if Z.eqb x y then l else y :: (insert_uniq x t)

(** val uniq_sorted : z list -> z list **)

let uniq_sorted l =
  fold_right insert_uniq [] l

(** val read_n :
    fixes -> cfg -> file -> nat -> reader -> z list -> (reader * z list) res **)

let rec read_n fx c f n r acc =
  match n with
  | O -> Ok (r, acc)
  | S n' ->
    let (r', o) = read_next fx c f r in
    (match o with
     | OMsg (m, _) -> read_n fx c f n' r' (m.m_src :: acc)
     | OStop -> Ok (r', acc)
     | OErr x -> Err x)

(** val with_header : cfg -> cfg **)

let with_header c =
  { c_max_bytes = c.c_max_bytes; c_hdr = true; c_pay = c.c_pay; c_bytes =
    c.c_bytes; c_offset = c.c_offset; c_index = c.c_index; c_has_range =
    c.c_has_range }

(** val populate_types :
    fixes -> cfg -> file -> z list -> reader -> z list -> (reader * z list)
    res **)

let rec populate_types fx c f tys r acc =
  match tys with
  | [] -> Ok (r, acc)
  | ty :: rest ->
    let (r1, r0) = filter_in_place fx r (KTypes (ty :: [])) false None in
    (match r0 with
     | Ok _ ->
       (match read_n fx (with_header c) f populate_count r1 acc with
        | Ok a ->
          let (r2, acc2) = a in
          let (r3, r4) = filter_in_place fx r2 KNone true None in
          (match r4 with
           | Ok _ ->
             populate_types fx c f rest
               (if fx.fx_populate_rewind then rewind r3 else r3) acc2
           | Err x -> Err x)
        | Err x -> Err x)
     | Err x -> Err x)

(** val populate : fixes -> cfg -> file -> reader -> reader res **)

let populate fx c f r =
  match populate_types fx c f
          (uniq_sorted (map (fun e -> e.e_type) r.r_index.fi_data)) r [] with
  | Ok a -> let (r', acc) = a in Ok (rewind (set_avail r' acc))
  | Err x -> Err x

(** val norm_types : z list option -> z list option **)

let norm_types t = match t with
| Some l -> (match l with
             | [] -> None
             | _ :: _ -> t)
| None -> t

(** val types_key : z list option -> key **)

let types_key = function
| Some l -> KTypes l
| None -> KNone

(** val range_key : trange option -> key **)

let range_key = function
| Some x -> KTimeRange x
| None -> KNone

(** val bind : 'a1 res -> ('a1 -> 'a2 res) -> 'a2 res **)

let bind a g =
  match a with
  | Ok x -> g x
  | Err e -> Err e

(** val construct :
    fixes -> cfg -> file -> z list option -> z list option -> trange option
    -> reader res **)

let construct fx c f srcs types r =
  let types0 = norm_types types in
  let orig = index_of_file f c.c_max_bytes in
  let r0 = { r_orig = orig; r_index = orig; r_next = Z0; r_last = (Zneg XH);
    r_srcs = srcs; r_avail = [] }
  in
  bind (populate fx c f r0) (fun r1 ->
    let (r2, r3) = filter_in_place fx r1 KNone false r1.r_srcs in
    (match r3 with
     | Ok _ ->
       let (r4, r5) = filter_in_place fx r2 (types_key types0) false None in
       (match r5 with
        | Ok _ ->
          let (r6, r7) = filter_in_place fx r4 (range_key r) false None in
          (match r7 with
           | Ok _ ->
             bind
               (if fx.fx_time_first
                then bind (getitem fx orig (range_key r)) (fun i ->
                       getitem fx i (types_key types0))
                else bind (getitem fx orig (types_key types0)) (fun i ->
                       getitem fx i (range_key r))) (fun i -> Ok
               (set_index r6 i))
           | Err x -> Err x)
        | Err x -> Err x)
     | Err x -> Err x))

type op =
| OpRead
| OpFilter of key
| OpRemoveUntimed
| OpClear
| OpRewind
| OpSeek of z * bool
| OpSeekEof

type opres =
| RMsg of msg * piece list
| RStop
| RErr of err
| RDone

(** val of_outcome : outcome -> opres **)

let of_outcome = function
| OMsg (m, ps) -> RMsg (m, ps)
| OStop -> RStop
| OErr x -> RErr x

(** val of_unit : unit res -> opres **)

let of_unit = function
| Ok _ -> RDone
| Err x -> RErr x

(** val last_off : entry list -> z option **)

let last_off l =
  match rev l with
  | [] -> None
  | e :: _ -> Some e.e_off

(** val step_op : fixes -> cfg -> file -> reader -> op -> reader * opres **)

let step_op fx c f r = function
| OpRead -> let (r', x) = read_next fx c f r in (r', (of_outcome x))
| OpFilter k ->
  let (r', u) = filter_in_place fx r k false None in (r', (of_unit u))
| OpRemoveUntimed ->
  if fx.fx_remove_nans
  then let (r', u) =
         filter_in_place fx r (KTimeSlice (None, None, (Some RemoveNans)))
           false None
       in
       (r', (of_unit u))
  else let (r1, u) = filter_in_place fx r KNone false None in
       (match u with
        | Ok _ ->
          (match get_time_range_b fx r1.r_index BNone BNone RemoveNans with
           | Ok i -> ((set_index r1 i), RDone)
           | Err x -> (r1, (RErr x)))
        | Err x -> (r1, (RErr x)))
| OpClear ->
  let (r', u) = filter_in_place fx r KNone true None in (r', (of_unit u))
| OpRewind -> ((rewind r), RDone)
| OpSeek (i, filtered) ->
  let max_index =
    if filtered then zlen r.r_index.fi_data else zlen r.r_orig.fi_data
  in
  if (||) (Z.ltb i Z0) (Z.leb max_index i)
  then (r, (RErr ValueError))
  else let (r1, u) =
         if filtered
         then (r, (Ok ()))
         else filter_in_place fx r KNone true None
       in
       (match u with
        | Ok _ ->
          let l =
            if Z.eqb i Z0
            then Zneg XH
            else (match nth_error r1.r_index.fi_data
                          (Z.to_nat (Z.sub i (Zpos XH))) with
                  | Some e -> e.e_off
                  | None -> Zneg XH)
          in
          ((set_cursor r1 i l), RDone)
        | Err x -> (r1, (RErr x)))
| OpSeekEof ->
  let n = zlen r.r_index.fi_data in
  if Z.eqb r.r_next n
  then (r, RDone)
  else (match last_off r.r_index.fi_data with
        | Some o0 -> ((set_cursor r n o0), RDone)
        | None -> ((set_next r Z0), RDone))

(** val run_ops :
    fixes -> cfg -> file -> reader -> op list -> opres list * reader **)

let rec run_ops fx c f r = function
| [] -> ([], r)
| o :: t ->
  let (r', x) = step_op fx c f r o in
  let (xs, rf) = run_ops fx c f r' t in ((x :: xs), rf)

(** val run_script :
    fixes -> cfg -> file -> z list option -> op list -> opres list res **)

let run_script fx c f srcs ops =
  bind (construct fx c f srcs None None) (fun r -> Ok
    (fst (run_ops fx c f r ops)))

type cursor = { cs_orig : findex; cs_cur : findex; cs_pos : z;
                cs_srcs : z list option }

(** val beyond : z -> entry list -> entry list **)

let beyond pos l =
  filter (fun e -> Z.ltb pos e.e_off) l

(** val spec_scan :
    cfg -> z list option -> file -> entry list -> z -> opres * z **)

let rec spec_scan c srcs f l pos =
  match l with
  | [] -> (RStop, pos)
  | e :: t ->
    (match read_entry fixed c srcs f e with
     | SStop -> (RStop, e.e_off)
     | SSkip -> spec_scan c srcs f t e.e_off
     | SRet m -> ((RMsg (m, (assemble c m e.e_off e.e_idx))), e.e_off)
     | SErr x -> ((RErr x), e.e_off))

(** val set_cur : cursor -> findex -> cursor **)

let set_cur s i =
  { cs_orig = s.cs_orig; cs_cur = i; cs_pos = s.cs_pos; cs_srcs = s.cs_srcs }

(** val set_pos : cursor -> z -> cursor **)

let set_pos s p =
  { cs_orig = s.cs_orig; cs_cur = s.cs_cur; cs_pos = p; cs_srcs = s.cs_srcs }

(** val spec_step : cfg -> file -> cursor -> op -> cursor * opres **)

let spec_step c f s = function
| OpRead ->
  let (x, p) =
    spec_scan c s.cs_srcs f (beyond s.cs_pos s.cs_cur.fi_data) s.cs_pos
  in
  ((set_pos s p), x)
| OpFilter k ->
  (match spec_getitem s.cs_cur k with
   | Ok i -> ((set_cur s i), RDone)
   | Err x -> (s, (RErr x)))
| OpRemoveUntimed ->
  if Z.eqb (zlen s.cs_cur.fi_data) Z0
  then ((set_cur s { fi_data = []; fi_t0 = None }), RDone)
  else ((set_cur s
          (mk_index (filter (fun e -> negb (is_nan e)) s.cs_cur.fi_data)
            s.cs_cur.fi_t0)), RDone)
| OpClear -> ((set_cur s s.cs_orig), RDone)
| OpRewind -> ((set_pos s (Zneg XH)), RDone)
| OpSeek (i, filtered) ->
  let l = if filtered then s.cs_cur.fi_data else s.cs_orig.fi_data in
  if (||) (Z.ltb i Z0) (Z.leb (zlen l) i)
  then (s, (RErr ValueError))
  else let s1 = if filtered then s else set_cur s s.cs_orig in
       ((set_pos s1
          (if Z.eqb i Z0
           then Zneg XH
           else (match nth_error l (Z.to_nat (Z.sub i (Zpos XH))) with
                 | Some e -> e.e_off
                 | None -> Zneg XH))), RDone)
| OpSeekEof ->
  (match last_off s.cs_cur.fi_data with
   | Some o0 -> ((set_pos s (Z.max s.cs_pos o0)), RDone)
   | None -> (s, RDone))

(** val spec_run : cfg -> file -> cursor -> op list -> opres list **)

let rec spec_run c f s = function
| [] -> []
| o :: t -> let (s', x) = spec_step c f s o in x :: (spec_run c f s' t)

(** val spec_script :
    cfg -> file -> z list option -> op list -> opres list **)

let spec_script c f srcs ops =
  let orig = index_of_file f c.c_max_bytes in
  spec_run c f { cs_orig = orig; cs_cur = orig; cs_pos = (Zneg XH); cs_srcs =
    srcs } ops
