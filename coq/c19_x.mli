
type nat =
| O
| S of nat

val snd : ('a1 * 'a2) -> 'a2

type comparison =
| Eq
| Lt
| Gt

val compOpp : comparison -> comparison

val add : nat -> nat -> nat

type positive =
| XI of positive
| XO of positive
| XH

type z =
| Z0
| Zpos of positive
| Zneg of positive

module Pos :
 sig
  type mask =
  | IsNul
  | IsPos of positive
  | IsNeg
 end

module Coq_Pos :
 sig
  val succ : positive -> positive

  val add : positive -> positive -> positive

  val add_carry : positive -> positive -> positive

  val pred_double : positive -> positive

  type mask = Pos.mask =
  | IsNul
  | IsPos of positive
  | IsNeg

  val succ_double_mask : mask -> mask

  val double_mask : mask -> mask

  val double_pred_mask : positive -> mask

  val sub_mask : positive -> positive -> mask

  val sub_mask_carry : positive -> positive -> mask

  val sub : positive -> positive -> positive

  val mul : positive -> positive -> positive

  val size_nat : positive -> nat

  val compare_cont : comparison -> positive -> positive -> comparison

  val compare : positive -> positive -> comparison

  val ggcdn : nat -> positive -> positive -> positive * (positive * positive)

  val ggcd : positive -> positive -> positive * (positive * positive)
 end

module Z :
 sig
  val double : z -> z

  val succ_double : z -> z

  val pred_double : z -> z

  val pos_sub : positive -> positive -> z

  val add : z -> z -> z

  val opp : z -> z

  val sub : z -> z -> z

  val mul : z -> z -> z

  val compare : z -> z -> comparison

  val sgn : z -> z

  val leb : z -> z -> bool

  val ltb : z -> z -> bool

  val abs : z -> z

  val to_pos : z -> positive

  val pos_div_eucl : positive -> z -> z * z

  val div_eucl : z -> z -> z * z

  val div : z -> z -> z

  val ggcd : z -> z -> z * (z * z)
 end

type q = { qnum : z; qden : positive }

val inject_Z : z -> q

val qplus : q -> q -> q

val qmult : q -> q -> q

val qopp : q -> q

val qminus : q -> q -> q

val qinv : q -> q

val qdiv : q -> q -> q

val qred : q -> q

val qfloor : q -> z

val heading_wrap0 : q -> q -> q

val heading_wrapc : q -> q -> q

val heading_heading : q -> q -> q

val heading_yaw : q -> q -> q

val heading_spec_heading : q -> q -> q

val heading_spec_yaw : q -> q -> q
