
type nat =
| O
| S of nat

(** val fst : ('a1 * 'a2) -> 'a1 **)

let fst = function
| (x, _) -> x

(** val length : 'a1 list -> nat **)

let rec length = function
| [] -> O
| _ :: l' -> S (length l')

(** val app : 'a1 list -> 'a1 list -> 'a1 list **)

let rec app l m =
  match l with
  | [] -> m
  | a :: l1 -> a :: (app l1 m)

type comparison =
| Eq
| Lt
| Gt

(** val compOpp : comparison -> comparison **)

let compOpp = function
| Eq -> Eq
| Lt -> Gt
| Gt -> Lt

(** val add : nat -> nat -> nat **)

let rec add n m =
  match n with
  | O -> m
  | S p -> S (add p m)

type positive =
| XI of positive
| XO of positive
| XH

type z =
| Z0
| Zpos of positive
| Zneg of positive

module Nat =
 struct
  (** val eqb : nat -> nat -> bool **)

  let rec eqb n m =
    match n with
    | O -> (match m with
            | O -> true
            | S _ -> false)
    | S n' -> (match m with
               | O -> false
               | S m' -> eqb n' m')
 end

module Pos =
 struct
  (** val succ : positive -> positive **)

  let rec succ = function
  | XI p -> XO (succ p)
  | XO p -> XI p
  | XH -> XO XH

  (** val compare_cont : comparison -> positive -> positive -> comparison **)

  let rec compare_cont r x y =
    match x with
    | XI p ->
      (match y with
       | XI q -> compare_cont r p q
       | XO q -> compare_cont Gt p q
       | XH -> Gt)
    | XO p ->
      (match y with
       | XI q -> compare_cont Lt p q
       | XO q -> compare_cont r p q
       | XH -> Gt)
    | XH -> (match y with
             | XH -> r
             | _ -> Lt)

  (** val compare : positive -> positive -> comparison **)

  let compare =
    compare_cont Eq

  (** val eqb : positive -> positive -> bool **)

  let rec eqb p q =
    match p with
    | XI p0 -> (match q with
                | XI q0 -> eqb p0 q0
                | _ -> false)
    | XO p0 -> (match q with
                | XO q0 -> eqb p0 q0
                | _ -> false)
    | XH -> (match q with
             | XH -> true
             | _ -> false)

  (** val iter_op : ('a1 -> 'a1 -> 'a1) -> positive -> 'a1 -> 'a1 **)

  let rec iter_op op p a =
    match p with
    | XI p0 -> op a (iter_op op p0 (op a a))
    | XO p0 -> iter_op op p0 (op a a)
    | XH -> a

  (** val to_nat : positive -> nat **)

  let to_nat x =
    iter_op add x (S O)

  (** val of_succ_nat : nat -> positive **)

  let rec of_succ_nat = function
  | O -> XH
  | S x -> succ (of_succ_nat x)
 end

module Z =
 struct
  (** val compare : z -> z -> comparison **)

  let compare x y =
    match x with
    | Z0 -> (match y with
             | Z0 -> Eq
             | Zpos _ -> Lt
             | Zneg _ -> Gt)
    | Zpos x' -> (match y with
                  | Zpos y' -> Pos.compare x' y'
                  | _ -> Gt)
    | Zneg x' ->
      (match y with
       | Zneg y' -> compOpp (Pos.compare x' y')
       | _ -> Lt)

  (** val ltb : z -> z -> bool **)

  let ltb x y =
    match compare x y with
    | Lt -> true
    | _ -> false

  (** val geb : z -> z -> bool **)

  let geb x y =
    match compare x y with
    | Lt -> false
    | _ -> true

  (** val eqb : z -> z -> bool **)

  let eqb x y =
    match x with
    | Z0 -> (match y with
             | Z0 -> true
             | _ -> false)
    | Zpos p -> (match y with
                 | Zpos q -> Pos.eqb p q
                 | _ -> false)
    | Zneg p -> (match y with
                 | Zneg q -> Pos.eqb p q
                 | _ -> false)

  (** val to_nat : z -> nat **)

  let to_nat = function
  | Zpos p -> Pos.to_nat p
  | _ -> O

  (** val of_nat : nat -> z **)

  let of_nat = function
  | O -> Z0
  | S n0 -> Zpos (Pos.of_succ_nat n0)
 end

(** val nth_error : 'a1 list -> nat -> 'a1 option **)

let rec nth_error l = function
| O -> (match l with
        | [] -> None
        | x :: _ -> Some x)
| S n0 -> (match l with
           | [] -> None
           | _ :: l0 -> nth_error l0 n0)

(** val concat : 'a1 list list -> 'a1 list **)

let rec concat = function
| [] -> []
| x :: l0 -> app x (concat l0)

(** val map : ('a1 -> 'a2) -> 'a1 list -> 'a2 list **)

let rec map f = function
| [] -> []
| a :: t -> (f a) :: (map f t)

(** val fold_right : ('a2 -> 'a1 -> 'a1) -> 'a1 -> 'a2 list -> 'a1 **)

let rec fold_right f a0 = function
| [] -> a0
| b :: t -> f b (fold_right f a0 t)

(** val existsb : ('a1 -> bool) -> 'a1 list -> bool **)

let rec existsb f = function
| [] -> false
| a :: l0 -> (||) (f a) (existsb f l0)

(** val forallb : ('a1 -> bool) -> 'a1 list -> bool **)

let rec forallb f = function
| [] -> true
| a :: l0 -> (&&) (f a) (forallb f l0)

(** val filter : ('a1 -> bool) -> 'a1 list -> 'a1 list **)

let rec filter f = function
| [] -> []
| x :: l0 -> if f x then x :: (filter f l0) else filter f l0

(** val find : ('a1 -> bool) -> 'a1 list -> 'a1 option **)

let rec find f = function
| [] -> None
| x :: tl -> if f x then Some x else find f tl

(** val seq : nat -> nat -> nat list **)

let rec seq start = function
| O -> []
| S len0 -> start :: (seq (S start) len0)

(** val repeat : 'a1 -> nat -> 'a1 list **)

let rec repeat x = function
| O -> []
| S k -> x :: (repeat x k)

type ta_msg = z * nat

type ta_item =
| Kept of ta_msg
| Fresh of z

type ta_outcome =
| Untouched
| Replaced of ta_item list

type ta_mode =
| NONE
| DROP
| INSERT

type ta_entry = { e_type : nat; e_has_p1 : bool; e_msgs : ta_msg list }

type ta_result =
| Ok of ta_outcome list
| IndexErr

(** val ta_times : ta_entry -> z list **)

let ta_times e =
  map fst e.e_msgs

(** val insert_u : z -> z list -> z list **)

let rec insert_u x l = match l with
| [] -> x :: []
| y :: r ->
  if Z.ltb x y then x :: l else if Z.eqb x y then l else y :: (insert_u x r)

(** val np_unique : z list -> z list **)

let np_unique a =
  fold_right insert_u [] a

(** val memZ : z -> z list -> bool **)

let memZ x l =
  existsb (Z.eqb x) l

(** val np_intersect1d : z list -> z list -> z list **)

let np_intersect1d a b =
  filter (fun v -> memZ v (np_unique b)) (np_unique a)

(** val first_index : z -> z list -> nat **)

let rec first_index v = function
| [] -> O
| x :: r -> if Z.eqb x v then O else S (first_index v r)

(** val np_intersect1d_idx :
    z list -> z list -> (z list * nat list) * nat list **)

let np_intersect1d_idx a b =
  let vals = np_intersect1d a b in
  ((vals, (map (fun v -> first_index v a) vals)),
  (map (fun v -> first_index v b) vals))

(** val set_nth : 'a1 list -> nat -> 'a1 -> 'a1 list option **)

let rec set_nth l k v =
  match l with
  | [] -> None
  | x :: r ->
    (match k with
     | O -> Some (v :: r)
     | S k' ->
       (match set_nth r k' v with
        | Some r' -> Some (x :: r')
        | None -> None))

(** val scatter : z list -> nat list -> nat list -> z list option **)

let rec scatter base ks vs =
  match ks with
  | [] -> (match vs with
           | [] -> Some base
           | _ :: _ -> None)
  | k :: ks' ->
    (match vs with
     | [] -> None
     | v :: vs' ->
       (match set_nth base k (Z.of_nat v) with
        | Some b' -> scatter b' ks' vs'
        | None -> None))

(** val map_opt : ('a1 -> 'a2 option) -> 'a1 list -> 'a2 list option **)

let rec map_opt f = function
| [] -> Some []
| x :: r ->
  (match f x with
   | Some y ->
     (match map_opt f r with
      | Some ys -> Some (y :: ys)
      | None -> None)
   | None -> None)

(** val ta_selected : nat list option -> ta_entry -> bool **)

let ta_selected mt e =
  match mt with
  | Some l -> existsb (Nat.eqb e.e_type) l
  | None -> true

(** val ta_is_aligned : nat list option -> ta_entry -> bool **)

let ta_is_aligned mt e =
  (&&) e.e_has_p1 (ta_selected mt e)

(** val ta_collect :
    ta_mode -> nat list option -> ta_entry list -> z list option -> z list
    option **)

let rec ta_collect mode mt es time_set =
  match es with
  | [] -> time_set
  | e :: r ->
    if ta_is_aligned mt e
    then let p1_time = ta_times e in
         let ts' =
           match mode with
           | DROP ->
             (match time_set with
              | Some ts -> np_intersect1d ts p1_time
              | None -> p1_time)
           | _ ->
             (match time_set with
              | Some ts -> app ts p1_time
              | None -> p1_time)
         in
         ta_collect mode mt r (Some ts')
    else ta_collect mode mt r time_set

(** val ta_get_value :
    ta_msg list -> z list -> z list -> nat -> ta_item option **)

let ta_get_value messages time_set message_indices i =
  match nth_error message_indices i with
  | Some message_idx ->
    if Z.geb message_idx Z0
    then (match nth_error messages (Z.to_nat message_idx) with
          | Some m -> Some (Kept m)
          | None -> None)
    else (match nth_error time_set i with
          | Some t -> Some (Fresh t)
          | None -> None)
  | None -> None

(** val ta_insert_entry : z list -> ta_entry -> ta_item list option **)

let ta_insert_entry time_set e =
  let (p, all_idx) = np_intersect1d_idx (ta_times e) time_set in
  let (_, idx) = p in
  (match scatter (repeat (Zneg XH) (length time_set)) all_idx idx with
   | Some message_indices ->
     map_opt (ta_get_value e.e_msgs time_set message_indices)
       (seq O (length time_set))
   | None -> None)

(** val ta_drop_entry : z list -> ta_entry -> ta_item list option **)

let ta_drop_entry time_set e =
  let (p, _) = np_intersect1d_idx (ta_times e) time_set in
  let (_, idx) = p in
  map_opt (fun i ->
    match nth_error e.e_msgs i with
    | Some m -> Some (Kept m)
    | None -> None) idx

(** val ta_second :
    (ta_entry -> ta_item list option) -> nat list option -> ta_entry list ->
    ta_outcome list option **)

let rec ta_second f mt = function
| [] -> Some []
| e :: r ->
  if ta_is_aligned mt e
  then (match f e with
        | Some l ->
          (match ta_second f mt r with
           | Some o -> Some ((Replaced l) :: o)
           | None -> None)
        | None -> None)
  else (match ta_second f mt r with
        | Some o -> Some (Untouched :: o)
        | None -> None)

(** val ta_unwrap : ta_outcome list option -> ta_result **)

let ta_unwrap = function
| Some l -> Ok l
| None -> IndexErr

(** val ta_align :
    ta_mode -> nat list option -> ta_entry list -> ta_result **)

let ta_align mode mt es =
  match mode with
  | NONE -> Ok (map (fun _ -> Untouched) es)
  | DROP ->
    let time_set = ta_collect DROP mt es None in
    let time_set0 = match time_set with
                    | Some ts -> ts
                    | None -> [] in
    ta_unwrap (ta_second (ta_drop_entry time_set0) mt es)
  | INSERT ->
    let time_set = ta_collect INSERT mt es None in
    let time_set0 = match time_set with
                    | Some ts -> np_unique ts
                    | None -> []
    in
    ta_unwrap (ta_second (ta_insert_entry time_set0) mt es)

(** val ta_aligned : nat list option -> ta_entry list -> ta_entry list **)

let ta_aligned mt es =
  filter (ta_is_aligned mt) es

(** val ta_first_with : z -> ta_msg list -> ta_msg option **)

let ta_first_with t msgs =
  find (fun m -> Z.eqb (fst m) t) msgs

(** val ta_pick : ta_msg list -> z -> ta_item **)

let ta_pick msgs t =
  match ta_first_with t msgs with
  | Some m -> Kept m
  | None -> Fresh t

(** val ta_spec_times :
    ta_mode -> nat list option -> ta_entry list -> z list **)

let ta_spec_times mode mt es =
  match mode with
  | NONE -> []
  | DROP ->
    (match ta_aligned mt es with
     | [] -> []
     | e0 :: r ->
       np_unique
         (filter (fun t -> forallb (fun e -> memZ t (ta_times e)) r)
           (ta_times e0)))
  | INSERT -> np_unique (concat (map ta_times (ta_aligned mt es)))

(** val ta_spec :
    ta_mode -> nat list option -> ta_entry list -> ta_outcome list **)

let ta_spec mode mt es =
  match mode with
  | NONE -> map (fun _ -> Untouched) es
  | _ ->
    map (fun e ->
      if ta_is_aligned mt e
      then Replaced (map (ta_pick e.e_msgs) (ta_spec_times mode mt es))
      else Untouched) es
