
(** val negb : bool -> bool **)

let negb = function
| true -> false
| false -> true

type nat =
| O
| S of nat

(** val fst : ('a1 * 'a2) -> 'a1 **)

let fst = function
| (x, _) -> x

(** val snd : ('a1 * 'a2) -> 'a2 **)

let snd = function
| (_, y) -> y

(** val length : 'a1 list -> nat **)

let rec length = function
| [] -> O
| _ :: l' -> S (length l')

(** val app : 'a1 list -> 'a1 list -> 'a1 list **)

let rec app l m =
  match l with
  | [] -> m
  | a :: l1 -> a :: (app l1 m)

type comparison =
| Eq
| Lt
| Gt

(** val compOpp : comparison -> comparison **)

let compOpp = function
| Eq -> Eq
| Lt -> Gt
| Gt -> Lt

type positive =
| XI of positive
| XO of positive
| XH

type z =
| Z0
| Zpos of positive
| Zneg of positive

(** val eqb : bool -> bool -> bool **)

let eqb b1 b2 =
  if b1 then b2 else if b2 then false else true

module Nat =
 struct
  (** val eqb : nat -> nat -> bool **)

  let rec eqb n m =
    match n with
    | O -> (match m with
            | O -> true
            | S _ -> false)
    | S n' -> (match m with
               | O -> false
               | S m' -> eqb n' m')

  (** val leb : nat -> nat -> bool **)

  let rec leb n m =
    match n with
    | O -> true
    | S n' -> (match m with
               | O -> false
               | S m' -> leb n' m')

  (** val ltb : nat -> nat -> bool **)

  let ltb n m =
    leb (S n) m
 end

module Pos =
 struct
  (** val succ : positive -> positive **)

  let rec succ = function
  | XI p -> XO (succ p)
  | XO p -> XI p
  | XH -> XO XH

  (** val add : positive -> positive -> positive **)

  let rec add x y =
    match x with
    | XI p ->
      (match y with
       | XI q -> XO (add_carry p q)
       | XO q -> XI (add p q)
       | XH -> XO (succ p))
    | XO p ->
      (match y with
       | XI q -> XI (add p q)
       | XO q -> XO (add p q)
       | XH -> XI p)
    | XH -> (match y with
             | XI q -> XO (succ q)
             | XO q -> XI q
             | XH -> XO XH)

  (** val add_carry : positive -> positive -> positive **)

  and add_carry x y =
    match x with
    | XI p ->
      (match y with
       | XI q -> XI (add_carry p q)
       | XO q -> XO (add_carry p q)
       | XH -> XI (succ p))
    | XO p ->
      (match y with
       | XI q -> XO (add_carry p q)
       | XO q -> XI (add p q)
       | XH -> XO (succ p))
    | XH ->
      (match y with
       | XI q -> XI (succ q)
       | XO q -> XO (succ q)
       | XH -> XI XH)

  (** val pred_double : positive -> positive **)

  let rec pred_double = function
  | XI p -> XI (XO p)
  | XO p -> XI (pred_double p)
  | XH -> XH

  (** val mul : positive -> positive -> positive **)

  let rec mul x y =
    match x with
    | XI p -> add y (XO (mul p y))
    | XO p -> XO (mul p y)
    | XH -> y

  (** val iter : ('a1 -> 'a1) -> 'a1 -> positive -> 'a1 **)

  let rec iter f x = function
  | XI n' -> f (iter f (iter f x n') n')
  | XO n' -> iter f (iter f x n') n'
  | XH -> f x

  (** val compare_cont : comparison -> positive -> positive -> comparison **)

  let rec compare_cont r x y =
    match x with
    | XI p ->
      (match y with
       | XI q -> compare_cont r p q
       | XO q -> compare_cont Gt p q
       | XH -> Gt)
    | XO p ->
      (match y with
       | XI q -> compare_cont Lt p q
       | XO q -> compare_cont r p q
       | XH -> Gt)
    | XH -> (match y with
             | XH -> r
             | _ -> Lt)

  (** val compare : positive -> positive -> comparison **)

  let compare =
    compare_cont Eq

  (** val eqb : positive -> positive -> bool **)

  let rec eqb p q =
    match p with
    | XI p0 -> (match q with
                | XI q0 -> eqb p0 q0
                | _ -> false)
    | XO p0 -> (match q with
                | XO q0 -> eqb p0 q0
                | _ -> false)
    | XH -> (match q with
             | XH -> true
             | _ -> false)

  (** val of_succ_nat : nat -> positive **)

  let rec of_succ_nat = function
  | O -> XH
  | S x -> succ (of_succ_nat x)
 end

module Z =
 struct
  (** val double : z -> z **)

  let double = function
  | Z0 -> Z0
  | Zpos p -> Zpos (XO p)
  | Zneg p -> Zneg (XO p)

  (** val succ_double : z -> z **)

  let succ_double = function
  | Z0 -> Zpos XH
  | Zpos p -> Zpos (XI p)
  | Zneg p -> Zneg (Pos.pred_double p)

  (** val pred_double : z -> z **)

  let pred_double = function
  | Z0 -> Zneg XH
  | Zpos p -> Zpos (Pos.pred_double p)
  | Zneg p -> Zneg (XI p)

  (** val pos_sub : positive -> positive -> z **)

  let rec pos_sub x y =
    match x with
    | XI p ->
      (match y with
       | XI q -> double (pos_sub p q)
       | XO q -> succ_double (pos_sub p q)
       | XH -> Zpos (XO p))
    | XO p ->
      (match y with
       | XI q -> pred_double (pos_sub p q)
       | XO q -> double (pos_sub p q)
       | XH -> Zpos (Pos.pred_double p))
    | XH ->
      (match y with
       | XI q -> Zneg (XO q)
       | XO q -> Zneg (Pos.pred_double q)
       | XH -> Z0)

  (** val add : z -> z -> z **)

  let add x y =
    match x with
    | Z0 -> y
    | Zpos x' ->
      (match y with
       | Z0 -> x
       | Zpos y' -> Zpos (Pos.add x' y')
       | Zneg y' -> pos_sub x' y')
    | Zneg x' ->
      (match y with
       | Z0 -> x
       | Zpos y' -> pos_sub y' x'
       | Zneg y' -> Zneg (Pos.add x' y'))

  (** val opp : z -> z **)

  let opp = function
  | Z0 -> Z0
  | Zpos x0 -> Zneg x0
  | Zneg x0 -> Zpos x0

  (** val sub : z -> z -> z **)

  let sub m n =
    add m (opp n)

  (** val mul : z -> z -> z **)

  let mul x y =
    match x with
    | Z0 -> Z0
    | Zpos x' ->
      (match y with
       | Z0 -> Z0
       | Zpos y' -> Zpos (Pos.mul x' y')
       | Zneg y' -> Zneg (Pos.mul x' y'))
    | Zneg x' ->
      (match y with
       | Z0 -> Z0
       | Zpos y' -> Zneg (Pos.mul x' y')
       | Zneg y' -> Zpos (Pos.mul x' y'))

  (** val pow_pos : z -> positive -> z **)

  let pow_pos z0 =
    Pos.iter (mul z0) (Zpos XH)

  (** val pow : z -> z -> z **)

  let pow x = function
  | Z0 -> Zpos XH
  | Zpos p -> pow_pos x p
  | Zneg _ -> Z0

  (** val compare : z -> z -> comparison **)

  let compare x y =
    match x with
    | Z0 -> (match y with
             | Z0 -> Eq
             | Zpos _ -> Lt
             | Zneg _ -> Gt)
    | Zpos x' -> (match y with
                  | Zpos y' -> Pos.compare x' y'
                  | _ -> Gt)
    | Zneg x' ->
      (match y with
       | Zneg y' -> compOpp (Pos.compare x' y')
       | _ -> Lt)

  (** val leb : z -> z -> bool **)

  let leb x y =
    match compare x y with
    | Gt -> false
    | _ -> true

  (** val ltb : z -> z -> bool **)

  let ltb x y =
    match compare x y with
    | Lt -> true
    | _ -> false

  (** val eqb : z -> z -> bool **)

  let eqb x y =
    match x with
    | Z0 -> (match y with
             | Z0 -> true
             | _ -> false)
    | Zpos p -> (match y with
                 | Zpos q -> Pos.eqb p q
                 | _ -> false)
    | Zneg p -> (match y with
                 | Zneg q -> Pos.eqb p q
                 | _ -> false)

  (** val of_nat : nat -> z **)

  let of_nat = function
  | O -> Z0
  | S n0 -> Zpos (Pos.of_succ_nat n0)

  (** val pos_div_eucl : positive -> z -> z * z **)

  let rec pos_div_eucl a b =
    match a with
    | XI a' ->
      let (q, r) = pos_div_eucl a' b in
      let r' = add (mul (Zpos (XO XH)) r) (Zpos XH) in
      if ltb r' b
      then ((mul (Zpos (XO XH)) q), r')
      else ((add (mul (Zpos (XO XH)) q) (Zpos XH)), (sub r' b))
    | XO a' ->
      let (q, r) = pos_div_eucl a' b in
      let r' = mul (Zpos (XO XH)) r in
      if ltb r' b
      then ((mul (Zpos (XO XH)) q), r')
      else ((add (mul (Zpos (XO XH)) q) (Zpos XH)), (sub r' b))
    | XH -> if leb (Zpos (XO XH)) b then (Z0, (Zpos XH)) else ((Zpos XH), Z0)

  (** val div_eucl : z -> z -> z * z **)

  let div_eucl a b =
    match a with
    | Z0 -> (Z0, Z0)
    | Zpos a' ->
      (match b with
       | Z0 -> (Z0, a)
       | Zpos _ -> pos_div_eucl a' b
       | Zneg b' ->
         let (q, r) = pos_div_eucl a' (Zpos b') in
         (match r with
          | Z0 -> ((opp q), Z0)
          | _ -> ((opp (add q (Zpos XH))), (add b r))))
    | Zneg a' ->
      (match b with
       | Z0 -> (Z0, a)
       | Zpos _ ->
         let (q, r) = pos_div_eucl a' b in
         (match r with
          | Z0 -> ((opp q), Z0)
          | _ -> ((opp (add q (Zpos XH))), (sub b r)))
       | Zneg b' -> let (q, r) = pos_div_eucl a' (Zpos b') in (q, (opp r)))

  (** val div : z -> z -> z **)

  let div a b =
    let (q, _) = div_eucl a b in q

  (** val modulo : z -> z -> z **)

  let modulo a b =
    let (_, r) = div_eucl a b in r
 end

(** val hd_error : 'a1 list -> 'a1 option **)

let hd_error = function
| [] -> None
| x :: _ -> Some x

(** val nth_error : 'a1 list -> nat -> 'a1 option **)

let rec nth_error l = function
| O -> (match l with
        | [] -> None
        | x :: _ -> Some x)
| S n0 -> (match l with
           | [] -> None
           | _ :: l0 -> nth_error l0 n0)

(** val rev : 'a1 list -> 'a1 list **)

let rec rev = function
| [] -> []
| x :: l' -> app (rev l') (x :: [])

(** val existsb : ('a1 -> bool) -> 'a1 list -> bool **)

let rec existsb f = function
| [] -> false
| a :: l0 -> (||) (f a) (existsb f l0)

(** val forallb : ('a1 -> bool) -> 'a1 list -> bool **)

let rec forallb f = function
| [] -> true
| a :: l0 -> (&&) (f a) (forallb f l0)

(** val combine : 'a1 list -> 'a2 list -> ('a1 * 'a2) list **)

let rec combine l l' =
  match l with
  | [] -> []
  | x :: tl ->
    (match l' with
     | [] -> []
     | y :: tl' -> (x, y) :: (combine tl tl'))

(** val tr_sep : z **)

let tr_sep =
  Zpos (XO (XI (XO (XI (XI XH)))))

(** val tr_kw_abs : z list **)

let tr_kw_abs =
  (Zpos (XI (XO (XO (XO (XO (XI XH))))))) :: ((Zpos (XO (XI (XO (XO (XO (XI
    XH))))))) :: ((Zpos (XI (XI (XO (XO (XI (XI XH))))))) :: []))

(** val tr_kw_rel : z list **)

let tr_kw_rel =
  (Zpos (XO (XI (XO (XO (XI (XI XH))))))) :: ((Zpos (XI (XO (XI (XO (XO (XI
    XH))))))) :: ((Zpos (XO (XO (XI (XI (XO (XI XH))))))) :: []))

(** val tr_abs_open_start : z **)

let tr_abs_open_start =
  Z0

type ext =
| NInf
| Fin of z
| PInf

(** val ext_ltb : ext -> ext -> bool **)

let ext_ltb a b =
  match a with
  | NInf -> (match b with
             | NInf -> false
             | _ -> true)
  | Fin x -> (match b with
              | NInf -> false
              | Fin y -> Z.ltb x y
              | PInf -> true)
  | PInf -> false

(** val ext_eqb : ext -> ext -> bool **)

let ext_eqb a b =
  match a with
  | NInf -> (match b with
             | NInf -> true
             | _ -> false)
  | Fin x -> (match b with
              | Fin y -> Z.eqb x y
              | _ -> false)
  | PInf -> (match b with
             | PInf -> true
             | _ -> false)

(** val ext_add : ext -> z -> ext **)

let ext_add a z0 =
  match a with
  | Fin x -> Fin (Z.add x z0)
  | _ -> a

(** val ext_max : ext -> ext -> ext **)

let ext_max a b =
  if ext_ltb a b then b else a

(** val ext_min : ext -> ext -> ext **)

let ext_min a b =
  if ext_ltb b a then b else a

(** val is_inf : ext -> bool **)

let is_inf = function
| Fin _ -> false
| _ -> true

type msg =
| Untimed
| Timed of z

(** val is_timed : msg -> bool **)

let is_timed = function
| Untimed -> false
| Timed _ -> true

type op =
| Msg of msg
| Restart

type targ =
| ANone
| AFloat of ext
| ATs of ext option

(** val is_ts : targ -> bool **)

let is_ts = function
| ATs _ -> true
| _ -> false

type args = { a_start : targ; a_end : targ; a_abs : bool option;
              a_t0 : z option }

(** val ge_lo : ext option -> z -> bool **)

let ge_lo lo0 c =
  match lo0 with
  | Some s -> negb (ext_ltb (Fin c) s)
  | None -> true

(** val lt_hi : ext option -> z -> bool **)

let lt_hi hi0 c =
  match hi0 with
  | Some e -> ext_ltb (Fin c) e
  | None -> true

(** val is_none : 'a1 option -> bool **)

let is_none = function
| Some _ -> false
| None -> true

type iv = { lo : ext option; hi : ext option; iabs : bool; org : z option }

(** val rel : iv -> z option -> z -> z **)

let rel v o t =
  if v.iabs then t else Z.sub t (match o with
                                 | Some z0 -> z0
                                 | None -> t)

(** val in_iv : iv -> z -> bool **)

let in_iv v c =
  (&&) (ge_lo v.lo c) (lt_hi v.hi c)

(** val beyond : iv -> z -> bool **)

let beyond v c =
  negb (lt_hi v.hi c)

(** val seen_beyond : iv -> z option -> (msg * bool) list -> bool **)

let seen_beyond v o hist =
  existsb (fun mb ->
    match fst mb with
    | Untimed -> false
    | Timed t -> beyond v (rel v o t)) hist

(** val some_accepted : (msg * bool) list -> bool **)

let some_accepted hist =
  existsb snd hist

(** val spec_decide : iv -> z option -> (msg * bool) list -> msg -> bool **)

let spec_decide v o hist = function
| Untimed ->
  (&&) (negb (seen_beyond v o hist))
    ((||) (is_none v.lo) (some_accepted hist))
| Timed t -> in_iv v (rel v o t)

(** val spec_go :
    iv -> z option -> (msg * bool) list -> op list -> bool list **)

let rec spec_go v o hist = function
| [] -> []
| o0 :: tl ->
  (match o0 with
   | Msg m ->
     let o' =
       match o with
       | Some _ -> o
       | None -> (match m with
                  | Untimed -> o
                  | Timed t -> Some t)
     in
     let b = spec_decide v o' hist m in
     b :: (spec_go v o' ((m, b) :: hist) tl)
   | Restart -> spec_go v o [] tl)

(** val spec_run : iv -> op list -> bool list **)

let spec_run v ops =
  spec_go v v.org [] ops

(** val bound : targ -> ext option **)

let bound = function
| ANone -> None
| AFloat e -> Some e
| ATs o -> o

(** val describe_abs : args -> bool **)

let describe_abs a =
  match a.a_abs with
  | Some b -> b
  | None -> (||) (is_ts a.a_start) (is_ts a.a_end)

(** val describe : args -> iv **)

let describe a =
  let ab = describe_abs a in
  { lo =
  (match bound a.a_start with
   | Some e ->
     (match e with
      | Fin z0 ->
        if (&&) (Z.eqb z0 tr_abs_open_start) ab then None else Some (Fin z0)
      | x -> Some x)
   | None -> None); hi =
  (match bound a.a_end with
   | Some e -> (match e with
                | PInf -> None
                | x -> Some x)
   | None -> None); iabs = ab; org = a.a_t0 }

(** val nondecr : z option -> op list -> bool **)

let rec nondecr last = function
| [] -> true
| o :: tl ->
  (match o with
   | Msg m ->
     (match m with
      | Untimed -> nondecr last tl
      | Timed t ->
        (&&) (match last with
              | Some l -> Z.leb l t
              | None -> true) (nondecr (Some t) tl))
   | Restart -> nondecr None tl)

(** val first_timed : op list -> z option **)

let rec first_timed = function
| [] -> None
| o :: tl ->
  (match o with
   | Msg m -> (match m with
               | Untimed -> first_timed tl
               | Timed t -> Some t)
   | Restart -> first_timed tl)

type tr = { start : ext option; stop : ext option; absolute : bool;
            t0 : z option; specified : bool; started : bool; ended : 
            bool }

(** val set_start : tr -> ext option -> tr **)

let set_start r x =
  { start = x; stop = r.stop; absolute = r.absolute; t0 = r.t0; specified =
    r.specified; started = r.started; ended = r.ended }

(** val set_stop : tr -> ext option -> tr **)

let set_stop r x =
  { start = r.start; stop = x; absolute = r.absolute; t0 = r.t0; specified =
    r.specified; started = r.started; ended = r.ended }

(** val set_absolute : tr -> bool -> tr **)

let set_absolute r x =
  { start = r.start; stop = r.stop; absolute = x; t0 = r.t0; specified =
    r.specified; started = r.started; ended = r.ended }

(** val set_t0 : tr -> z option -> tr **)

let set_t0 r x =
  { start = r.start; stop = r.stop; absolute = r.absolute; t0 = x;
    specified = r.specified; started = r.started; ended = r.ended }

(** val set_specified : tr -> bool -> tr **)

let set_specified r x =
  { start = r.start; stop = r.stop; absolute = r.absolute; t0 = r.t0;
    specified = x; started = r.started; ended = r.ended }

(** val set_started : tr -> bool -> tr **)

let set_started r x =
  { start = r.start; stop = r.stop; absolute = r.absolute; t0 = r.t0;
    specified = r.specified; started = x; ended = r.ended }

(** val set_ended : tr -> bool -> tr **)

let set_ended r x =
  { start = r.start; stop = r.stop; absolute = r.absolute; t0 = r.t0;
    specified = r.specified; started = r.started; ended = x }

type fixes = { fix_end_latch : bool; fix_make_abs : bool; fix_neg_inf : bool }

(** val current : fixes **)

let current =
  { fix_end_latch = true; fix_make_abs = true; fix_neg_inf = true }

(** val legacy : fixes **)

let legacy =
  { fix_end_latch = false; fix_make_abs = false; fix_neg_inf = false }

(** val init_gen : fixes -> args -> tr **)

let init_gen f a =
  let absolute0 =
    match a.a_abs with
    | Some b -> b
    | None -> (||) (is_ts a.a_start) (is_ts a.a_end)
  in
  let st = match a.a_start with
           | ANone -> None
           | AFloat e -> Some e
           | ATs t -> t
  in
  let en = match a.a_end with
           | ANone -> None
           | AFloat e -> Some e
           | ATs t -> t
  in
  let st0 =
    match st with
    | Some s ->
      if (&&) (ext_eqb s (Fin tr_abs_open_start)) absolute0 then None else st
    | None -> st
  in
  let en0 =
    match en with
    | Some e ->
      if if f.fix_neg_inf then ext_eqb e PInf else is_inf e then None else en
    | None -> en
  in
  { start = st0; stop = en0; absolute = absolute0; t0 = a.a_t0; specified =
  ((||) (negb (is_none st0)) (negb (is_none en0))); started = false; ended =
  false }

(** val restart : tr -> tr **)

let restart r =
  set_ended (set_started r false) false

(** val is_in_range_gen : fixes -> tr -> msg -> tr * bool **)

let is_in_range_gen f r m =
  if negb r.specified
  then ((set_started r true), true)
  else let r1 =
         match m with
         | Untimed -> r
         | Timed t ->
           (match r.t0 with
            | Some _ -> r
            | None -> set_t0 r (Some t))
       in
       let (in_range, hit_end) =
         if r1.ended
         then (false, false)
         else (match m with
               | Untimed ->
                 ((match r1.start with
                   | Some _ -> r1.started
                   | None -> true), false)
               | Timed t ->
                 let c =
                   if r1.absolute
                   then t
                   else Z.sub t (match r1.t0 with
                                 | Some z0 -> z0
                                 | None -> t)
                 in
                 if match r1.start with
                    | Some s -> ext_ltb (Fin c) s
                    | None -> false
                 then (false, false)
                 else if match r1.stop with
                         | Some e -> negb (ext_ltb (Fin c) e)
                         | None -> false
                      then (false, f.fix_end_latch)
                      else (true, false))
       in
       let r2 = if hit_end then set_ended r1 true else r1 in
       let r3 =
         if in_range
         then set_started r2 true
         else if (&&) r2.started (is_timed m) then set_ended r2 true else r2
       in
       (r3, in_range)

(** val run_gen : fixes -> tr -> op list -> bool list * tr **)

let rec run_gen f r = function
| [] -> ([], r)
| o :: tl ->
  (match o with
   | Msg m ->
     let (r', b) = is_in_range_gen f r m in
     let (bs, r'') = run_gen f r' tl in ((b :: bs), r'')
   | Restart -> run_gen f (restart r) tl)

type 'a result =
| Ok of 'a
| ValueError

(** val make_absolute_gen : fixes -> tr -> z option -> tr result **)

let make_absolute_gen f r arg =
  let r0 =
    match arg with
    | Some z0 -> (match r.t0 with
                  | Some _ -> r
                  | None -> set_t0 r (Some z0))
    | None -> r
  in
  if negb r0.absolute
  then (match r0.t0 with
        | Some z0 ->
          let r1 =
            match r0.start with
            | Some s -> set_start r0 (Some (ext_add s z0))
            | None -> r0
          in
          let r2 =
            match r1.stop with
            | Some e -> set_stop r1 (Some (ext_add e z0))
            | None -> r1
          in
          Ok (if f.fix_make_abs then set_absolute r2 true else r2)
        | None -> ValueError)
  else Ok r0

(** val intersect_gen : fixes -> tr -> tr -> tr result **)

let intersect_gen f self other =
  let conv =
    if (&&) self.absolute (negb other.absolute)
    then (match make_absolute_gen f other self.t0 with
          | Ok o -> Ok (self, o)
          | ValueError -> ValueError)
    else if (&&) (negb self.absolute) other.absolute
         then (match make_absolute_gen f self other.t0 with
               | Ok s -> Ok (s, other)
               | ValueError -> ValueError)
         else Ok (self, other)
  in
  (match conv with
   | Ok x ->
     let (self0, other0) = x in
     let st =
       match self0.start with
       | Some a ->
         (match other0.start with
          | Some b -> Some (ext_max a b)
          | None -> Some a)
       | None -> other0.start
     in
     let en =
       match self0.stop with
       | Some a ->
         (match other0.stop with
          | Some b -> Some (ext_min a b)
          | None -> Some a)
       | None -> other0.stop
     in
     let r = set_stop (set_start self0 st) en in
     let r0 = set_specified r ((||) (negb (is_none st)) (negb (is_none en)))
     in
     Ok (match r0.t0 with
         | Some _ -> r0
         | None -> set_t0 r0 other0.t0)
   | ValueError -> ValueError)

(** val is_digit : z -> bool **)

let is_digit c =
  (&&) (Z.leb (Zpos (XO (XO (XO (XO (XI XH)))))) c)
    (Z.leb c (Zpos (XI (XO (XO (XI (XI XH)))))))

(** val list_eqb : z list -> z list -> bool **)

let list_eqb a b =
  (&&) (Nat.eqb (length a) (length b))
    (forallb (fun p -> Z.eqb (fst p) (snd p)) (combine a b))

(** val split_aux : z list -> z list -> z list list **)

let rec split_aux cur = function
| [] -> (rev cur) :: []
| c :: tl ->
  if Z.eqb c tr_sep
  then (rev cur) :: (split_aux [] tl)
  else split_aux (c :: cur) tl

(** val split : z list -> z list list **)

let split s =
  split_aux [] s

type fres =
| FOk of ext
| FErr
| FUnsup

(** val grid : z **)

let grid =
  Zpos (XO (XO (XO XH)))

(** val digits_val : z -> z list -> z **)

let rec digits_val acc = function
| [] -> acc
| c :: tl ->
  digits_val
    (Z.add (Z.mul (Zpos (XO (XI (XO XH)))) acc)
      (Z.sub c (Zpos (XO (XO (XO (XO (XI XH)))))))) tl

(** val span_digits : z list -> z list * z list **)

let rec span_digits s = match s with
| [] -> ([], [])
| c :: tl ->
  if is_digit c then let (d, r) = span_digits tl in ((c :: d), r) else ([], s)

(** val in_alphabet : z -> bool **)

let in_alphabet c =
  (||)
    ((||) ((||) (is_digit c) (Z.eqb c (Zpos (XI (XI (XO (XI (XO XH))))))))
      (Z.eqb c (Zpos (XI (XO (XI (XI (XO XH))))))))
    (Z.eqb c (Zpos (XO (XI (XI (XI (XO XH)))))))

(** val pyfloat : z list -> fres **)

let pyfloat s =
  if (||)
       (list_eqb s ((Zpos (XI (XO (XO (XI (XO (XI XH))))))) :: ((Zpos (XO (XI
         (XI (XI (XO (XI XH))))))) :: ((Zpos (XO (XI (XI (XO (XO (XI
         XH))))))) :: []))))
       (list_eqb s ((Zpos (XI (XI (XO (XI (XO XH)))))) :: ((Zpos (XI (XO (XO
         (XI (XO (XI XH))))))) :: ((Zpos (XO (XI (XI (XI (XO (XI
         XH))))))) :: ((Zpos (XO (XI (XI (XO (XO (XI XH))))))) :: [])))))
  then FOk PInf
  else if list_eqb s ((Zpos (XI (XO (XI (XI (XO XH)))))) :: ((Zpos (XI (XO
            (XO (XI (XO (XI XH))))))) :: ((Zpos (XO (XI (XI (XI (XO (XI
            XH))))))) :: ((Zpos (XO (XI (XI (XO (XO (XI XH))))))) :: []))))
       then FOk NInf
       else if negb (forallb in_alphabet s)
            then FUnsup
            else (match s with
                  | [] ->
                    let neg = false in
                    let (ip, rest) = span_digits s in
                    let mk = fun fp ->
                      let den =
                        Z.pow (Zpos (XO (XI (XO XH)))) (Z.of_nat (length fp))
                      in
                      let num = Z.mul grid (digits_val Z0 fp) in
                      if Z.eqb (Z.modulo num den) Z0
                      then let v =
                             Z.add (Z.mul grid (digits_val Z0 ip))
                               (Z.div num den)
                           in
                           FOk (Fin (if neg then Z.opp v else v))
                      else FUnsup
                    in
                    (match rest with
                     | [] -> if is_none (hd_error ip) then FErr else mk []
                     | c :: r2 ->
                       if Z.eqb c (Zpos (XO (XI (XI (XI (XO XH))))))
                       then let (fp, rest2) = span_digits r2 in
                            (match rest2 with
                             | [] ->
                               if (&&) (is_none (hd_error ip))
                                    (is_none (hd_error fp))
                               then FErr
                               else mk fp
                             | _ :: _ -> FErr)
                       else FErr)
                  | c :: tl ->
                    if Z.eqb c (Zpos (XI (XO (XI (XI (XO XH))))))
                    then let neg = true in
                         let (ip, rest) = span_digits tl in
                         let mk = fun fp ->
                           let den =
                             Z.pow (Zpos (XO (XI (XO XH))))
                               (Z.of_nat (length fp))
                           in
                           let num = Z.mul grid (digits_val Z0 fp) in
                           if Z.eqb (Z.modulo num den) Z0
                           then let v =
                                  Z.add (Z.mul grid (digits_val Z0 ip))
                                    (Z.div num den)
                                in
                                FOk (Fin (if neg then Z.opp v else v))
                           else FUnsup
                         in
                         (match rest with
                          | [] ->
                            if is_none (hd_error ip) then FErr else mk []
                          | c0 :: r2 ->
                            if Z.eqb c0 (Zpos (XO (XI (XI (XI (XO XH))))))
                            then let (fp, rest2) = span_digits r2 in
                                 (match rest2 with
                                  | [] ->
                                    if (&&) (is_none (hd_error ip))
                                         (is_none (hd_error fp))
                                    then FErr
                                    else mk fp
                                  | _ :: _ -> FErr)
                            else FErr)
                    else if Z.eqb c (Zpos (XI (XI (XO (XI (XO XH))))))
                         then let neg = false in
                              let (ip, rest) = span_digits tl in
                              let mk = fun fp ->
                                let den =
                                  Z.pow (Zpos (XO (XI (XO XH))))
                                    (Z.of_nat (length fp))
                                in
                                let num = Z.mul grid (digits_val Z0 fp) in
                                if Z.eqb (Z.modulo num den) Z0
                                then let v =
                                       Z.add (Z.mul grid (digits_val Z0 ip))
                                         (Z.div num den)
                                     in
                                     FOk (Fin (if neg then Z.opp v else v))
                                else FUnsup
                              in
                              (match rest with
                               | [] ->
                                 if is_none (hd_error ip) then FErr else mk []
                               | c0 :: r2 ->
                                 if Z.eqb c0 (Zpos (XO (XI (XI (XI (XO
                                      XH))))))
                                 then let (fp, rest2) = span_digits r2 in
                                      (match rest2 with
                                       | [] ->
                                         if (&&) (is_none (hd_error ip))
                                              (is_none (hd_error fp))
                                         then FErr
                                         else mk fp
                                       | _ :: _ -> FErr)
                                 else FErr)
                         else let neg = false in
                              let (ip, rest) = span_digits s in
                              let mk = fun fp ->
                                let den =
                                  Z.pow (Zpos (XO (XI (XO XH))))
                                    (Z.of_nat (length fp))
                                in
                                let num = Z.mul grid (digits_val Z0 fp) in
                                if Z.eqb (Z.modulo num den) Z0
                                then let v =
                                       Z.add (Z.mul grid (digits_val Z0 ip))
                                         (Z.div num den)
                                     in
                                     FOk (Fin (if neg then Z.opp v else v))
                                else FUnsup
                              in
                              (match rest with
                               | [] ->
                                 if is_none (hd_error ip) then FErr else mk []
                               | c0 :: r2 ->
                                 if Z.eqb c0 (Zpos (XO (XI (XI (XI (XO
                                      XH))))))
                                 then let (fp, rest2) = span_digits r2 in
                                      (match rest2 with
                                       | [] ->
                                         if (&&) (is_none (hd_error ip))
                                              (is_none (hd_error fp))
                                         then FErr
                                         else mk fp
                                       | _ :: _ -> FErr)
                                 else FErr))

type pres =
| POk of tr
| PErr
| PUnsup

(** val str_to_time : z list -> ext option option * bool **)

let str_to_time fld = match fld with
| [] -> ((Some None), false)
| _ :: _ ->
  (match pyfloat fld with
   | FOk e -> ((Some (if ext_ltb e (Fin Z0) then None else Some e)), false)
   | FErr -> (None, false)
   | FUnsup -> (None, true))

(** val opt_arg : ext option -> targ **)

let opt_arg = function
| Some e -> AFloat e
| None -> ANone

(** val parse_gen : fixes -> z list -> bool option -> pres **)

let parse_gen f s absarg =
  let flds = split s in
  let n = length flds in
  let st = nth_error flds O in
  let en = nth_error flds (S O) in
  let kind =
    if Nat.eqb n (S (S (S O)))
    then (match nth_error flds (S (S O)) with
          | Some k ->
            if list_eqb k tr_kw_abs
            then Ok (Some true)
            else if list_eqb k tr_kw_rel then Ok (Some false) else ValueError
          | None -> ValueError)
    else if Nat.ltb (S (S (S O))) n then ValueError else Ok absarg
  in
  (match kind with
   | Ok ab ->
     let conv = fun x ->
       match x with
       | Some fld -> str_to_time fld
       | None -> ((Some None), false)
     in
     let (o, b) = conv st in
     (match o with
      | Some a ->
        let (o0, b0) = conv en in
        (match o0 with
         | Some b1 ->
           POk
             (init_gen f { a_start = (opt_arg a); a_end = (opt_arg b1);
               a_abs = ab; a_t0 = None })
         | None -> if b0 then PUnsup else PErr)
      | None -> if b then PUnsup else PErr)
   | ValueError -> PErr)

(** val parse_tuple_gen :
    fixes -> targ -> targ -> z list option -> bool option -> tr result **)

let parse_tuple_gen f a b ty absarg =
  match ty with
  | Some k ->
    if list_eqb k tr_kw_abs
    then Ok
           (init_gen f { a_start = a; a_end = b; a_abs = (Some true); a_t0 =
             None })
    else if list_eqb k tr_kw_rel
         then Ok
                (init_gen f { a_start = a; a_end = b; a_abs = (Some false);
                  a_t0 = None })
         else ValueError
  | None ->
    Ok (init_gen f { a_start = a; a_end = b; a_abs = absarg; a_t0 = None })

(** val parse_obj : tr -> bool option -> tr result **)

let parse_obj r = function
| Some b -> if eqb b r.absolute then Ok r else ValueError
| None -> Ok r

type shape =
| S1 of z list
| S2 of z list * z list
| S3 of z list * z list * bool

(** val describe_text :
    shape -> bool option -> ext option -> ext option -> args **)

let describe_text sh absarg vs ve =
  match sh with
  | S1 _ ->
    { a_start = (opt_arg vs); a_end = ANone; a_abs = absarg; a_t0 = None }
  | S2 (_, _) ->
    { a_start = (opt_arg vs); a_end = (opt_arg ve); a_abs = absarg; a_t0 =
      None }
  | S3 (_, _, k) ->
    { a_start = (opt_arg vs); a_end = (opt_arg ve); a_abs = (Some k); a_t0 =
      None }

(** val origins_agree : tr -> tr -> op list -> bool **)

let origins_agree a b ops =
  match first_timed ops with
  | Some f ->
    let eff = fun r -> match r.t0 with
                       | Some z0 -> z0
                       | None -> f in
    if a.absolute
    then if b.absolute
         then true
         else (||) (negb (is_none b.t0)) (Z.eqb (eff a) f)
    else if b.absolute
         then (||) (negb (is_none a.t0)) (Z.eqb (eff b) f)
         else Z.eqb (eff a) (eff b)
  | None -> true
