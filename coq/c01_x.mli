
val negb : bool -> bool

type nat =
| O
| S of nat

val fst : ('a1 * 'a2) -> 'a1

val snd : ('a1 * 'a2) -> 'a2

val length : 'a1 list -> nat

val app : 'a1 list -> 'a1 list -> 'a1 list

type comparison =
| Eq
| Lt
| Gt

val compOpp : comparison -> comparison

val add : nat -> nat -> nat

val mul : nat -> nat -> nat

val sub : nat -> nat -> nat

type positive =
| XI of positive
| XO of positive
| XH

type n =
| N0
| Npos of positive

type z =
| Z0
| Zpos of positive
| Zneg of positive

module Nat :
 sig
  val eqb : nat -> nat -> bool

  val leb : nat -> nat -> bool

  val ltb : nat -> nat -> bool
 end

module Pos :
 sig
  val succ : positive -> positive

  val add : positive -> positive -> positive

  val add_carry : positive -> positive -> positive

  val pred_double : positive -> positive

  val pred_N : positive -> n

  val mul : positive -> positive -> positive

  val iter : ('a1 -> 'a1) -> 'a1 -> positive -> 'a1

  val size : positive -> positive

  val compare_cont : comparison -> positive -> positive -> comparison

  val compare : positive -> positive -> comparison

  val eqb : positive -> positive -> bool

  val coq_Nsucc_double : n -> n

  val coq_Ndouble : n -> n

  val coq_lor : positive -> positive -> positive

  val coq_land : positive -> positive -> n

  val ldiff : positive -> positive -> n

  val iter_op : ('a1 -> 'a1 -> 'a1) -> positive -> 'a1 -> 'a1

  val to_nat : positive -> nat

  val of_succ_nat : nat -> positive
 end

module N :
 sig
  val succ_pos : n -> positive

  val eqb : n -> n -> bool

  val coq_lor : n -> n -> n

  val ldiff : n -> n -> n
 end

module Z :
 sig
  val double : z -> z

  val succ_double : z -> z

  val pred_double : z -> z

  val pos_sub : positive -> positive -> z

  val add : z -> z -> z

  val opp : z -> z

  val sub : z -> z -> z

  val mul : z -> z -> z

  val pow_pos : z -> positive -> z

  val pow : z -> z -> z

  val compare : z -> z -> comparison

  val leb : z -> z -> bool

  val ltb : z -> z -> bool

  val eqb : z -> z -> bool

  val min : z -> z -> z

  val to_nat : z -> nat

  val of_nat : nat -> z

  val of_N : n -> z

  val pos_div_eucl : positive -> z -> z * z

  val div_eucl : z -> z -> z * z

  val div : z -> z -> z

  val modulo : z -> z -> z

  val odd : z -> bool

  val log2 : z -> z

  val coq_land : z -> z -> z
 end

val map : ('a1 -> 'a2) -> 'a1 list -> 'a2 list

val flat_map : ('a1 -> 'a2 list) -> 'a1 list -> 'a2 list

val fold_right : ('a2 -> 'a1 -> 'a1) -> 'a1 -> 'a2 list -> 'a1

val existsb : ('a1 -> bool) -> 'a1 list -> bool

val forallb : ('a1 -> bool) -> 'a1 list -> bool

val find : ('a1 -> bool) -> 'a1 list -> 'a1 option

val firstn : nat -> 'a1 list -> 'a1 list

val skipn : nat -> 'a1 list -> 'a1 list

val repeat : 'a1 -> nat -> 'a1 list

val ts_invalid : z

val ts_dec_factor_bits : z

val ts_enc_factor_bits : z

val ts_carry_at : z

type codec_fval =
| FInt of z
| FNaN
| FBytes of z list

type codec_sf = z * z

val codec_rnd53 : z -> z -> codec_sf

val codec_fmul : codec_sf -> codec_sf -> codec_sf

val codec_fadd : codec_sf -> codec_sf -> codec_sf

val codec_of_bits : z -> codec_sf

val codec_to_bits : codec_sf -> z

val codec_floor : codec_sf -> z

val codec_round_int : codec_sf -> z

val codec_c_dec : codec_sf

val codec_c_enc : codec_sf

val codec_ts_sec : z -> z

val codec_ts_ns : z -> z

val codec_ts_join : z -> z -> z

val codec_ts_dec : z -> codec_fval

val codec_ts_enc : codec_fval -> z option

val codec_ts_enc_legacy : codec_fval -> z option

val codec_ts_dom : z -> bool

type codec_kind =
| U8
| U16
| U32
| U40
| U64
| S8
| S16
| S32
| S64
| F32
| F64

val codec_ksize : codec_kind -> nat

val codec_ksigned : codec_kind -> bool

val codec_kbits : codec_kind -> z

val codec_byte_ok : z -> bool

val codec_bytes_ok : z list -> bool

val codec_le_dec : z list -> z

val codec_le_enc : nat -> z -> z list

val codec_kdec : codec_kind -> z list -> z

val codec_krange : codec_kind -> z -> bool

val codec_kenc : codec_kind -> z -> z list

type codec_adapter =
| AId
| ABool
| AQuiet32
| AStrict of z list
| ASentinel of z
| ACount of n
| ATimestamp

val codec_quiet32 : z -> z

val codec_adec : codec_adapter -> z -> codec_fval option

val codec_aenc : codec_adapter -> codec_fval -> z option

val codec_adom : codec_adapter -> z -> bool

val codec_adec_dom : codec_adapter -> z -> codec_fval option

type codec_item =
| IField of n * codec_kind * codec_adapter
| IPad of z list
| IStr of n * nat

type codec_blen =
| LFixed of nat
| LCount of n
| LGreedy

type codec_bmode =
| BRaw
| BStr
| BRewrite of n * z list * z list * z list

type codec_tagspec = { tg_tag : n; tg_len : n; tg_skip : (n * z) option;
                       tg_cases : (z * codec_item list) list;
                       tg_sub : (((z * codec_item
                                list) * n) * (z * codec_item list) list)
                                option; tg_opaque : bool }

type codec_wire =
| WItem of codec_item
| WCounted of n * n * codec_item list
| WBytes of n * codec_blen * codec_bmode
| WSwitch of n * n * (z * codec_item list) list
| WTagged of n * codec_tagspec

type codec_desc = codec_wire list

type codec_rec = (n * codec_fval) list

type codec_value =
| VF of codec_fval
| VBytes of z list
| VRecs of codec_rec list
| VTag of codec_rec * codec_rec * nat
| VOpaque

type codec_env = (n * codec_value) list

val codec_strip : z list -> z list

val codec_cont : z -> bool

val codec_utf8_ok : z list -> bool

val codec_str_dec : z list -> z list option

val codec_list_eqb : z list -> z list -> bool

val codec_starts : z list -> z list -> bool

val codec_assoc : z -> (z * 'a1) list -> 'a1 option

val codec_rec_int : codec_rec -> n -> z option

val codec_take : nat -> z list -> (z list * z list) option

val codec_lookup : codec_env -> n -> codec_value option

val codec_lookup_int : codec_env -> n -> z option

val codec_len_of : codec_env -> n -> z option

val codec_item_size : codec_item -> nat

val codec_items_size : codec_item list -> nat

val codec_dec_items :
  (codec_adapter -> z -> codec_fval option) -> codec_item list -> z list ->
  (codec_rec * z list) option

val codec_dec_recs :
  (codec_adapter -> z -> codec_fval option) -> codec_item list -> nat -> z
  list -> (codec_rec list * z list) option

val codec_count : codec_env -> n -> z list -> nat option

val codec_bdec : bool -> codec_env -> codec_bmode -> z list -> z list option

val codec_skip_flag : codec_tagspec -> codec_env -> bool option

val codec_tag_dec :
  (codec_adapter -> z -> codec_fval option) -> bool -> codec_tagspec ->
  codec_env -> z list -> codec_value option

val codec_dec_one :
  (codec_adapter -> z -> codec_fval option) -> bool -> codec_wire ->
  codec_env -> z list -> (codec_env * z list) option

val codec_dec_wire :
  (codec_adapter -> z -> codec_fval option) -> bool -> codec_desc ->
  codec_env -> z list -> (codec_env * z list) option

val codec_parse_with :
  (codec_adapter -> z -> codec_fval option) -> bool -> codec_desc -> z list
  -> (codec_env * nat) option

val codec_parse : codec_desc -> z list -> (codec_env * nat) option

val codec_parse_dom : codec_desc -> z list -> (codec_env * nat) option

val codec_enc_items : codec_item list -> codec_rec -> z list option

val codec_enc_recs : codec_item list -> codec_rec list -> z list option

val codec_len_okb : codec_blen -> z list -> bool

val codec_tag_enc : codec_tagspec -> codec_env -> codec_value -> z list option

val codec_enc_one :
  codec_wire -> codec_env -> codec_env -> (z list * codec_env) option

val codec_enc_wire : codec_desc -> codec_env -> codec_env -> z list option

val codec_pack : codec_desc -> codec_env -> z list option

val codec_size_one :
  codec_wire -> codec_env -> codec_env -> (nat * codec_env) option

val codec_sizeof_from : codec_desc -> codec_env -> codec_env -> nat option

val codec_sizeof : codec_desc -> codec_env -> nat option

val codec_kunsigned : codec_kind -> bool

val codec_wf_adapter : bool -> codec_kind -> codec_adapter -> bool

val codec_wf_item : bool -> codec_item -> bool

val codec_wire_id : codec_wire -> n list

val codec_ids : codec_desc -> n list

val codec_nodupb : n list -> bool

val codec_is_greedy : codec_wire -> bool

val codec_nogreedy : codec_desc -> bool

val codec_counts_of : codec_desc -> (n * n) list

val codec_uses_of : codec_desc -> (n * n) list

val codec_pair_eqb : (n * n) -> (n * n) -> bool

val codec_wf_from : codec_desc -> (n * n) list -> bool

val codec_wf : codec_desc -> bool

val py_d_PoseMessage : codec_desc

val py_d_GNSSInfoMessage : codec_desc

val py_d_GNSSSatelliteMessage : codec_desc

val py_d_PoseAuxMessage : codec_desc

val py_d_CalibrationStatus : codec_desc

val py_d_RelativeENUPositionMessage : codec_desc

val py_d_SystemStatusMessage : codec_desc

val py_d_IMUOutput : codec_desc

val py_d_RawIMUOutput : codec_desc

val py_d_IMUInput : codec_desc

val py_d_GNSSAttitudeOutput : codec_desc

val py_d_RawGNSSAttitudeOutput : codec_desc

val py_d_DeprecatedWheelSpeedMeasurement : codec_desc

val py_d_DeprecatedVehicleSpeedMeasurement : codec_desc

val py_d_WheelTickInput : codec_desc

val py_d_VehicleTickInput : codec_desc

val py_d_WheelSpeedInput : codec_desc

val py_d_VehicleSpeedInput : codec_desc

val py_d_RawWheelTickOutput : codec_desc

val py_d_RawVehicleTickOutput : codec_desc

val py_d_RawWheelSpeedOutput : codec_desc

val py_d_RawVehicleSpeedOutput : codec_desc

val py_d_WheelSpeedOutput : codec_desc

val py_d_VehicleSpeedOutput : codec_desc

val py_d_ROSPoseMessage : codec_desc

val py_d_ROSGPSFixMessage : codec_desc

val py_d_ROSIMUMessage : codec_desc

val py_d_CommandResponseMessage : codec_desc

val py_d_MessageRequest : codec_desc

val py_d_ResetRequest : codec_desc

val py_d_VersionInfoMessage : codec_desc

val py_d_EventNotificationMessage : codec_desc

val py_d_ShutdownRequest : codec_desc

val py_d_FaultControlMessage : codec_desc

val py_d_DeviceIDMessage : codec_desc

val py_d_StartupRequest : codec_desc

val py_d_SetConfigMessage : codec_desc

val py_d_GetConfigMessage : codec_desc

val py_d_SaveConfigMessage : codec_desc

val py_d_ConfigResponseMessage : codec_desc

val py_d_ImportDataMessage : codec_desc

val py_d_ExportDataMessage : codec_desc

val py_d_PlatformStorageDataMessage : codec_desc

val py_d_InputDataWrapperMessage : codec_desc

val py_d_SetMessageRate : codec_desc

val py_d_GetMessageRate : codec_desc

val py_d_MessageRateResponse : codec_desc

val py_d_SupportedIOInterfacesMessage : codec_desc

val py_d_LBandFrameMessage : codec_desc

val py_d_STA5635Command : codec_desc

val py_d_STA5635CommandResponse : codec_desc

val py_d_STA5635IQData : codec_desc

val py_d_MessageHeader : codec_desc

val py_d_Timestamp : codec_desc

val py_d_MeasurementDetails : codec_desc

val py_d_SatelliteInfo : codec_desc

val py_descriptions : (n * codec_desc) list
