
val negb : bool -> bool

type nat =
| O
| S of nat

type ('a, 'b) sum =
| Inl of 'a
| Inr of 'b

val fst : ('a1 * 'a2) -> 'a1

val snd : ('a1 * 'a2) -> 'a2

val length : 'a1 list -> nat

val app : 'a1 list -> 'a1 list -> 'a1 list

type comparison =
| Eq
| Lt
| Gt

val compOpp : comparison -> comparison

type uint =
| Nil
| D0 of uint
| D1 of uint
| D2 of uint
| D3 of uint
| D4 of uint
| D5 of uint
| D6 of uint
| D7 of uint
| D8 of uint
| D9 of uint

type signed_int =
| Pos of uint
| Neg of uint

val revapp : uint -> uint -> uint

val rev : uint -> uint

module Little :
 sig
  val double : uint -> uint

  val succ_double : uint -> uint
 end

type positive =
| XI of positive
| XO of positive
| XH

type n =
| N0
| Npos of positive

type z =
| Z0
| Zpos of positive
| Zneg of positive

val eqb : bool -> bool -> bool

module Pos :
 sig
  type mask =
  | IsNul
  | IsPos of positive
  | IsNeg
 end

module Coq_Pos :
 sig
  val succ : positive -> positive

  val add : positive -> positive -> positive

  val add_carry : positive -> positive -> positive

  val pred_double : positive -> positive

  val pred_N : positive -> n

  type mask = Pos.mask =
  | IsNul
  | IsPos of positive
  | IsNeg

  val succ_double_mask : mask -> mask

  val double_mask : mask -> mask

  val double_pred_mask : positive -> mask

  val sub_mask : positive -> positive -> mask

  val sub_mask_carry : positive -> positive -> mask

  val mul : positive -> positive -> positive

  val iter : ('a1 -> 'a1) -> 'a1 -> positive -> 'a1

  val div2 : positive -> positive

  val div2_up : positive -> positive

  val compare_cont : comparison -> positive -> positive -> comparison

  val compare : positive -> positive -> comparison

  val eqb : positive -> positive -> bool

  val coq_Nsucc_double : n -> n

  val coq_Ndouble : n -> n

  val coq_lor : positive -> positive -> positive

  val coq_land : positive -> positive -> n

  val ldiff : positive -> positive -> n

  val to_little_uint : positive -> uint

  val to_uint : positive -> uint
 end

module N :
 sig
  val succ_pos : n -> positive

  val add : n -> n -> n

  val sub : n -> n -> n

  val mul : n -> n -> n

  val compare : n -> n -> comparison

  val leb : n -> n -> bool

  val coq_lor : n -> n -> n

  val coq_land : n -> n -> n

  val ldiff : n -> n -> n
 end

module Z :
 sig
  val double : z -> z

  val succ_double : z -> z

  val pred_double : z -> z

  val pos_sub : positive -> positive -> z

  val add : z -> z -> z

  val opp : z -> z

  val sub : z -> z -> z

  val mul : z -> z -> z

  val compare : z -> z -> comparison

  val leb : z -> z -> bool

  val ltb : z -> z -> bool

  val eqb : z -> z -> bool

  val min : z -> z -> z

  val of_N : n -> z

  val to_int : z -> signed_int

  val div2 : z -> z

  val shiftl : z -> z -> z

  val coq_lor : z -> z -> z

  val coq_land : z -> z -> z
 end

val rev0 : 'a1 list -> 'a1 list

val map : ('a1 -> 'a2) -> 'a1 list -> 'a2 list

val fold_left : ('a1 -> 'a2 -> 'a1) -> 'a2 list -> 'a1 -> 'a1

val fold_right : ('a2 -> 'a1 -> 'a1) -> 'a1 -> 'a2 list -> 'a1

val existsb : ('a1 -> bool) -> 'a1 list -> bool

val forallb : ('a1 -> bool) -> 'a1 list -> bool

val filter : ('a1 -> bool) -> 'a1 list -> 'a1 list

val find : ('a1 -> bool) -> 'a1 list -> 'a1 option

type ascii =
| Ascii of bool * bool * bool * bool * bool * bool * bool * bool

val zero : ascii

val one : ascii

val shift : bool -> ascii -> ascii

val eqb0 : ascii -> ascii -> bool

val ascii_of_pos : positive -> ascii

val ascii_of_N : n -> ascii

val n_of_digits : bool list -> n

val n_of_ascii : ascii -> n

val compare0 : ascii -> ascii -> comparison

type string =
| EmptyString
| String of ascii * string

val eqb1 : string -> string -> bool

val compare1 : string -> string -> comparison

val append : string -> string -> string

val unrecognized_prefix : string

val hidden_sep : string

val enum_internals : string list

val enum_tables : (string * (string * z) list) list

val mask_tables :
  ((((string * string) * z) * (string * z) list) * (string * z) list) list

module NilEmpty :
 sig
  val string_of_uint : uint -> string
 end

module NilZero :
 sig
  val string_of_uint : uint -> string

  val string_of_int : signed_int -> string
 end

type member = string * z

type err =
| ValueError
| KeyError
| TypeError
| AttributeError

val starts_with : string -> string -> bool

val upper_ascii : ascii -> ascii

val lower_ascii : ascii -> ascii

val smap : (ascii -> ascii) -> string -> string

val upper : string -> string

val lower : string -> string

val dec : z -> string

val hidden_name : z -> string

val is_hidden : member -> bool

type enum_state = { defined : member list; extra : member list }

val init : member list -> enum_state

val entries : enum_state -> member list

val name_is : string -> member -> bool

val value_is : z -> member -> bool

val by_value : member list -> z -> member option

val by_name : member list -> string -> member option

val canonical_from : z list -> member list -> member list

val canonical : member list -> member list

val extend_enum : enum_state -> string -> z -> (enum_state, err) sum

val super_call : enum_state -> z -> (member, err) sum

type outcome =
| OMember of member
| OErr of err
| OList of member list
| OLen of nat

val iter0 : enum_state -> member list

val len : enum_state -> nat

val reversed : enum_state -> member list

val reversed_legacy : enum_state -> member list

val call : enum_state -> z -> bool -> enum_state * outcome

val from_string : enum_state -> string -> (member, err) sum

val from_string_ci : enum_state -> string -> (member, err) sum

val unused_value : enum_state -> z option

val call_name : enum_state -> string -> bool -> enum_state * outcome

val of_result : enum_state -> (member, err) sum -> enum_state * outcome

val getitem_name : enum_state -> string -> enum_state * outcome

val getitem_int : enum_state -> z -> enum_state * outcome

type op =
| OpCall of z * bool
| OpCallName of string * bool
| OpGetName of string
| OpGetInt of z
| OpFromStringCI of string
| OpIter
| OpLen
| OpReversed
| OpIterDuring of z list
| OpReversedDuring of z list

val call_all : enum_state -> z list -> enum_state

val step : enum_state -> op -> enum_state * outcome

type sout =
| SMember of string * z
| SUnrecognised of z
| SRefused
| SList of member list
| SLen of nat

val spec_value : member list -> z -> bool -> sout

val spec_name : member list -> string -> sout

val spec_name_ci : member list -> string -> sout

val spec : member list -> op -> sout

val abstract : outcome -> sout

val hidden_ns : string -> bool

val hidden_ns_ci : string -> bool

val allowed : member list -> op -> bool

val table_ok : member list -> bool

val prefix_ok : bool

type mask_cls = { m_offset : z; m_values : member list;
                  m_entries : member list }

val bit_of : z -> z -> (z, err) sum

type item =
| IVal of z
| IName of string

val to_bitmask_step : mask_cls -> (z, err) sum -> item -> (z, err) sum

val to_bitmask : mask_cls -> item list -> (z, err) sum

val to_values_from : z -> z -> member list -> (member list, err) sum

val to_values : mask_cls -> z -> (member list, err) sum

val name_leb : member -> member -> bool

val insert_by_name : member -> member list -> member list

val sort_by_name : member list -> member list

val is_enum_entry : member -> bool

val extend_list :
  (member list, err) sum -> string -> z -> (member list, err) sum

val make_mask :
  enum_state -> z -> bool -> (member -> bool) -> member list -> (mask_cls,
  err) sum

val spec_roundtrip : member list -> z list -> member list

val item_selects : member -> item -> bool

val spec_roundtrip_items : member list -> item list -> member list

val roundtrip : mask_cls -> item list -> (member list, err) sum

val nodupb : ('a1 -> 'a1 -> bool) -> 'a1 list -> bool

val name_bit_ok : mask_cls -> member -> bool

val item_ok : mask_cls -> item -> bool

val rt_pre : mask_cls -> item list -> bool

val table_of : string -> member list option

val real_mask : string -> (mask_cls, err) sum option

val real_mask_enum : string -> string option
