
val negb : bool -> bool

type nat =
| O
| S of nat

val fst : ('a1 * 'a2) -> 'a1

val snd : ('a1 * 'a2) -> 'a2

val length : 'a1 list -> nat

val app : 'a1 list -> 'a1 list -> 'a1 list

type comparison =
| Eq
| Lt
| Gt

val compOpp : comparison -> comparison

type positive =
| XI of positive
| XO of positive
| XH

type z =
| Z0
| Zpos of positive
| Zneg of positive

val eqb : bool -> bool -> bool

module Nat :
 sig
  val eqb : nat -> nat -> bool

  val leb : nat -> nat -> bool

  val ltb : nat -> nat -> bool
 end

module Pos :
 sig
  val succ : positive -> positive

  val add : positive -> positive -> positive

  val add_carry : positive -> positive -> positive

  val pred_double : positive -> positive

  val mul : positive -> positive -> positive

  val iter : ('a1 -> 'a1) -> 'a1 -> positive -> 'a1

  val compare_cont : comparison -> positive -> positive -> comparison

  val compare : positive -> positive -> comparison

  val eqb : positive -> positive -> bool

  val of_succ_nat : nat -> positive
 end

module Z :
 sig
  val double : z -> z

  val succ_double : z -> z

  val pred_double : z -> z

  val pos_sub : positive -> positive -> z

  val add : z -> z -> z

  val opp : z -> z

  val sub : z -> z -> z

  val mul : z -> z -> z

  val pow_pos : z -> positive -> z

  val pow : z -> z -> z

  val compare : z -> z -> comparison

  val leb : z -> z -> bool

  val ltb : z -> z -> bool

  val eqb : z -> z -> bool

  val of_nat : nat -> z

  val pos_div_eucl : positive -> z -> z * z

  val div_eucl : z -> z -> z * z

  val div : z -> z -> z

  val modulo : z -> z -> z
 end

val hd_error : 'a1 list -> 'a1 option

val nth_error : 'a1 list -> nat -> 'a1 option

val rev : 'a1 list -> 'a1 list

val existsb : ('a1 -> bool) -> 'a1 list -> bool

val forallb : ('a1 -> bool) -> 'a1 list -> bool

val combine : 'a1 list -> 'a2 list -> ('a1 * 'a2) list

val tr_sep : z

val tr_kw_abs : z list

val tr_kw_rel : z list

val tr_abs_open_start : z

type ext =
| NInf
| Fin of z
| PInf

val ext_ltb : ext -> ext -> bool

val ext_eqb : ext -> ext -> bool

val ext_add : ext -> z -> ext

val ext_max : ext -> ext -> ext

val ext_min : ext -> ext -> ext

val is_inf : ext -> bool

type msg =
| Untimed
| Timed of z

val is_timed : msg -> bool

type op =
| Msg of msg
| Restart

type targ =
| ANone
| AFloat of ext
| ATs of ext option

val is_ts : targ -> bool

type args = { a_start : targ; a_end : targ; a_abs : bool option;
              a_t0 : z option }

val ge_lo : ext option -> z -> bool

val lt_hi : ext option -> z -> bool

val is_none : 'a1 option -> bool

type iv = { lo : ext option; hi : ext option; iabs : bool; org : z option }

val rel : iv -> z option -> z -> z

val in_iv : iv -> z -> bool

val beyond : iv -> z -> bool

val seen_beyond : iv -> z option -> (msg * bool) list -> bool

val some_accepted : (msg * bool) list -> bool

val spec_decide : iv -> z option -> (msg * bool) list -> msg -> bool

val spec_go : iv -> z option -> (msg * bool) list -> op list -> bool list

val spec_run : iv -> op list -> bool list

val bound : targ -> ext option

val describe_abs : args -> bool

val describe : args -> iv

val nondecr : z option -> op list -> bool

val first_timed : op list -> z option

type tr = { start : ext option; stop : ext option; absolute : bool;
            t0 : z option; specified : bool; started : bool; ended : 
            bool }

val set_start : tr -> ext option -> tr

val set_stop : tr -> ext option -> tr

val set_absolute : tr -> bool -> tr

val set_t0 : tr -> z option -> tr

val set_specified : tr -> bool -> tr

val set_started : tr -> bool -> tr

val set_ended : tr -> bool -> tr

type fixes = { fix_end_latch : bool; fix_make_abs : bool; fix_neg_inf : bool }

val current : fixes

val legacy : fixes

val init_gen : fixes -> args -> tr

val restart : tr -> tr

val is_in_range_gen : fixes -> tr -> msg -> tr * bool

val run_gen : fixes -> tr -> op list -> bool list * tr

type 'a result =
| Ok of 'a
| ValueError

val make_absolute_gen : fixes -> tr -> z option -> tr result

val intersect_gen : fixes -> tr -> tr -> tr result

val is_digit : z -> bool

val list_eqb : z list -> z list -> bool

val split_aux : z list -> z list -> z list list

val split : z list -> z list list

type fres =
| FOk of ext
| FErr
| FUnsup

val grid : z

val digits_val : z -> z list -> z

val span_digits : z list -> z list * z list

val in_alphabet : z -> bool

val pyfloat : z list -> fres

type pres =
| POk of tr
| PErr
| PUnsup

val str_to_time : z list -> ext option option * bool

val opt_arg : ext option -> targ

val parse_gen : fixes -> z list -> bool option -> pres

val parse_tuple_gen :
  fixes -> targ -> targ -> z list option -> bool option -> tr result

val parse_obj : tr -> bool option -> tr result

type shape =
| S1 of z list
| S2 of z list * z list
| S3 of z list * z list * bool

val describe_text : shape -> bool option -> ext option -> ext option -> args

val origins_agree : tr -> tr -> op list -> bool
